"""
Deterministic behavioural digest of the code behind property C16
(EpochManager validation/clock, stan_epochs, EngineBuilder chunk length).

Run from the worktree root with PYTHONPATH pointing at the worktree:

    PYTHONPATH=$PWD /venv/bin/python _twin/<name>/equiv.py

Prints one line per section: a sha256 over every result (return values,
exception types and messages, attribute-access order, manager state).
"""

from __future__ import annotations

import hashlib
import itertools
import logging
import math
import sys

import jax
import jax.numpy as jnp

import liesel.goose as gs
from liesel.goose.builder import EngineBuilder
from liesel.goose.epoch import EpochConfig, EpochManager, EpochState, EpochType
from liesel.goose.interface import DictInterface
from liesel.goose.warmup import stan_epochs

logging.disable(logging.CRITICAL)


class Digest:
    def __init__(self, name: str):
        self.name = name
        self.h = hashlib.sha256()
        self.n = 0

    def add(self, *items):
        self.h.update(repr(items).encode())
        self.h.update(b"\n")
        self.n += 1

    def done(self):
        print(f"{self.name}: n={self.n} sha256={self.h.hexdigest()}")


def outcome(fn):
    try:
        return ("ok", fn())
    except BaseException as e:  # noqa: BLE001
        return ("exc", type(e).__name__, str(e))


def cfg_repr(c):
    return (
        type(c).__name__,
        repr(getattr(c, "type", None)),
        repr(getattr(c, "duration", None)),
        repr(getattr(c, "thinning", None)),
        repr(getattr(c, "optional", None)),
    )


def mgr_state(m: EpochManager):
    return (
        [cfg_repr(c) for c in m._configs],
        m._next_epoch_ptr,
        m._next_start_time,
        m._nth_epoch,
        m.has_more(),
        sorted(vars(m)),
    )


def state_repr(s: EpochState):
    return (
        cfg_repr(s.config),
        s.nth_epoch,
        s.time,
        s.time_before_epoch,
        s.time_in_epoch,
        s.time_left(),
    )


# --------------------------------------------------------------------------
# 1. exhaustive schedules over a small domain
# --------------------------------------------------------------------------


def section_exhaustive():
    d = Digest("epoch-exhaustive")
    types = list(EpochType)
    durs = [0, 1, 2, 4, 6]
    thins = [0, 1, 2, 3]
    atoms = [(t, du, th) for t in types for du in durs for th in thins]
    cfgs = {a: EpochConfig(a[0], a[1], a[2], None) for a in atoms}

    # every sequence of length <= 2, plus every third element after an accepted
    # pair (the manager only looks at emptiness / the last accepted type, so
    # this enumerates every reachable validation state)
    accepted_pairs = []
    for a in atoms:
        m = EpochManager(None)
        r1 = outcome(lambda: m.append(cfgs[a]))
        d.add("1", a, r1, mgr_state(m))
        if r1[0] != "ok":
            # a rejected first epoch leaves the manager empty: try again
            r1b = outcome(lambda: m.append(cfgs[(EpochType.INITIAL_VALUES, 1, 1)]))
            d.add("1b", a, r1b, mgr_state(m))
            continue
        for b in atoms:
            m2 = EpochManager([cfgs[a]])
            r2 = outcome(lambda: m2.append(cfgs[b]))
            d.add("2", a, b, r2, len(m2._configs))
            if r2[0] == "ok":
                accepted_pairs.append((a, b))
    for a, b in accepted_pairs:
        for c in atoms:
            m3 = EpochManager(iter([cfgs[a], cfgs[b]]))
            r3 = outcome(lambda: m3.append(cfgs[c]))
            d.add("3", a, b, c, r3, len(m3._configs))
            if r3[0] == "ok":
                # hand out all states: consecutive indices and start times
                states = []
                while m3.has_more():
                    states.append(state_repr(m3.next()))
                d.add("3s", states, outcome(m3.next), mgr_state(m3))

    # constructor with a failing element in the middle
    for seq in itertools.product(atoms[:: 7], repeat=3):
        r = outcome(lambda: mgr_state(EpochManager(cfgs[s] for s in seq)))
        d.add("ctor", seq, r)
    d.done()


# --------------------------------------------------------------------------
# 2. odd inputs: attribute-access order, floats, nan, foreign types
# --------------------------------------------------------------------------


class Spy:
    """Config look-alike that records the order in which fields are read."""

    def __init__(self, log, type, duration, thinning, missing=()):  # noqa: A002
        object.__setattr__(self, "_log", log)
        object.__setattr__(self, "_vals", dict(type=type, duration=duration,
                                               thinning=thinning, optional=None))
        object.__setattr__(self, "_missing", set(missing))

    def __getattr__(self, name):
        self._log.append(name)
        if name in self._missing or name not in self._vals:
            raise AttributeError(name)
        return self._vals[name]

    def __repr__(self):
        return f"Spy({self._vals})"


class Loud:
    """Number look-alike recording every comparison / arithmetic on it."""

    def __init__(self, log, v, tag):
        self.log, self.v, self.tag = log, v, tag

    def _o(self, other):
        return other.v if isinstance(other, Loud) else other

    def __lt__(self, o):
        self.log.append((self.tag, "<", repr(self._o(o))))
        return self.v < self._o(o)

    def __gt__(self, o):
        self.log.append((self.tag, ">", repr(self._o(o))))
        return self.v > self._o(o)

    def __le__(self, o):
        self.log.append((self.tag, "<=", repr(self._o(o))))
        return self.v <= self._o(o)

    def __ge__(self, o):
        self.log.append((self.tag, ">=", repr(self._o(o))))
        return self.v >= self._o(o)

    def __eq__(self, o):
        self.log.append((self.tag, "==", repr(self._o(o))))
        return self.v == self._o(o)

    def __ne__(self, o):
        self.log.append((self.tag, "!=", repr(self._o(o))))
        return self.v != self._o(o)

    def __mod__(self, o):
        self.log.append((self.tag, "%", repr(self._o(o))))
        return self.v % self._o(o)

    def __rmod__(self, o):
        self.log.append((self.tag, "r%", repr(o)))
        return o % self.v

    __hash__ = None

    def __repr__(self):
        return f"Loud({self.v})"


def section_odd():
    d = Digest("epoch-odd-inputs")
    init = EpochConfig(EpochType.INITIAL_VALUES, 1, 1, None)
    post = EpochConfig(EpochType.POSTERIOR, 2, 1, None)
    prefixes = {"empty": [], "init": [init], "init+post": [init, post]}

    tvals = list(EpochType) + [0, 1, 3, 4, 5, -1, 2.0, True, None, "POSTERIOR"]
    dvals = [0, 1, 2, 3, 6, -1, 1.0, 1.5, 2.5, 4.0, float("nan"), float("inf"),
             True, None, "2"]
    hvals = [0, 1, 2, 3, -2, 1.0, 0.5, 1.5, 2.0, float("nan"), True, None, "1"]

    for pname, prefix in prefixes.items():
        for t, du, th in itertools.product(tvals, dvals, hvals):
            log: list = []
            m = EpochManager(list(prefix))
            spy = Spy(log, t, du, th)
            r = outcome(lambda: m.append(spy))
            d.add("spy", pname, repr(t), repr(du), repr(th), r, tuple(log),
                  len(m._configs))

    # missing attributes
    for pname, prefix in prefixes.items():
        for miss in [("type",), ("duration",), ("thinning",),
                     ("type", "duration", "thinning")]:
            for t in (EpochType.INITIAL_VALUES, EpochType.BURNIN, EpochType.POSTERIOR):
                log = []
                m = EpochManager(list(prefix))
                r = outcome(lambda: m.append(Spy(log, t, 4, 2, missing=miss)))
                d.add("miss", pname, miss, int(t), r, tuple(log), len(m._configs))

    # order of comparisons on duration / thinning
    for pname, prefix in prefixes.items():
        for t in EpochType:
            for du, th in itertools.product([0, 1, 2, 3, 4, 6], [0, 1, 2, 3, 4]):
                log = []
                m = EpochManager(list(prefix))
                c = EpochConfig(t, Loud(log, du, "d"), Loud(log, th, "t"), None)
                r = outcome(lambda: m.append(c))
                d.add("loud", pname, int(t), du, th, r, tuple(log), len(m._configs))

    # jax scalars as field values
    for t in (jnp.int32(0), jnp.int32(2), jnp.int32(4)):
        for du, th in ((jnp.int32(1), jnp.int32(1)), (jnp.int32(4), jnp.int32(2)),
                       (jnp.int32(3), jnp.int32(2))):
            for pname, prefix in prefixes.items():
                m = EpochManager(list(prefix))
                r = outcome(lambda: m.append(EpochConfig(t, du, th, None)))
                d.add("jax", pname, int(t), int(du), int(th), r, len(m._configs))

    # None / wrong things
    d.add(outcome(lambda: EpochManager(None).append(None)))
    d.add(outcome(lambda: EpochManager(5)))
    d.add(outcome(lambda: mgr_state(EpochManager([]))))
    d.add(outcome(lambda: mgr_state(EpochManager(()))))
    d.done()


# --------------------------------------------------------------------------
# 3. clock: next / has_more / append interleaved
# --------------------------------------------------------------------------


def section_clock():
    d = Digest("epoch-clock")
    E = EpochConfig
    T = EpochType
    sched = [
        E(T.INITIAL_VALUES, 1, 1, None),
        E(T.FAST_ADAPTATION, 5, 1, {"a": 1}),
        E(T.SLOW_ADAPTATION, 7, 7, None),
        E(T.BURNIN, 3, 2, None),
        E(T.POSTERIOR, 12, 4, None),
        E(T.POSTERIOR, 1, 1, None),
    ]
    m = EpochManager(None)
    d.add(outcome(m.next), mgr_state(m))
    d.add(outcome(m.next), mgr_state(m))
    for i, c in enumerate(sched):
        d.add("append", i, outcome(lambda: m.append(c)), m.has_more())
        if i % 2 == 1:
            s = m.next()
            d.add("next", state_repr(s), s.config is m._configs[s.nth_epoch],
                  mgr_state(m))
            s.advance_time(2)
            d.add("adv", state_repr(s))
    while m.has_more():
        s = m.next()
        d.add("drain", state_repr(s), s.config is m._configs[s.nth_epoch])
    d.add(outcome(m.next), mgr_state(m))
    d.add(outcome(lambda: m.append(E(T.BURNIN, 2, 1, None))), mgr_state(m))
    d.add(outcome(lambda: m.append(E(T.POSTERIOR, 9, 3, None))), mgr_state(m))
    d.add(state_repr(m.next()), mgr_state(m))
    d.add(outcome(m.next), mgr_state(m))

    # float / odd durations in the clock
    m = EpochManager([E(T.INITIAL_VALUES, 1, 1, None), E(T.BURNIN, 2.5, 1, None),
                      E(T.BURNIN, 1.1 + 2.2, 1, None), E(T.POSTERIOR, 3.0, 1, None)])
    while m.has_more():
        d.add("fl", state_repr(m.next()), repr(m._next_start_time))

    # a config whose to_state fails: what does the manager look like afterwards
    class Bad(EpochConfig):
        def to_state(self, nth_epoch, time_before_epoch):
            raise KeyError((nth_epoch, time_before_epoch))

    m = EpochManager([E(T.INITIAL_VALUES, 1, 1, None)])
    m._configs.append(Bad(T.BURNIN, 5, 1, None))
    m._configs.append(E(T.POSTERIOR, 5, 1, None))
    d.add(state_repr(m.next()))
    d.add(outcome(m.next), mgr_state(m))
    d.add(outcome(m.next), mgr_state(m))

    # subclass overriding has_more is honoured by next
    class Never(EpochManager):
        def has_more(self):
            return False

    d.add(outcome(Never([E(T.INITIAL_VALUES, 1, 1, None)]).next))

    class Spyable(EpochManager):
        calls: list = []

        def has_more(self):
            self.calls.append("has_more")
            return super().has_more()

        def append(self, config):
            self.calls.append("append")
            return super().append(config)

    sm = Spyable(sched[:3])
    sm.next()
    sm.next()
    d.add(tuple(Spyable.calls), mgr_state(sm))
    d.add(outcome(lambda: EpochManager.append(sm, sched[3])), tuple(Spyable.calls))
    d.add(EpochManager.append.__name__, EpochManager.next.__name__,
          sorted(n for n in vars(EpochManager) if not n.startswith("_")))
    d.done()


# --------------------------------------------------------------------------
# 4. stan_epochs over a wide argument range
# --------------------------------------------------------------------------


def epochs_repr(es):
    return [cfg_repr(e) for e in es]


def accepted(es):
    return outcome(lambda: mgr_state(EpochManager(es)))[0]


def section_stan():
    d = Digest("stan-epochs")
    d.add(epochs_repr(stan_epochs()))
    warm = list(range(0, 131)) + [150, 199, 200, 201, 333, 500, 999, 1000, 1001, 1500,
                                  2000, 4096, 10_000, 100_000]
    inits = [0, 1, 5, 15, 75]
    terms = [0, 1, 10, 50]
    bases = [1, 2, 5, 25, 26, 100]
    for w, i, t, b in itertools.product(warm, inits, terms, bases):
        r = outcome(lambda: stan_epochs(w, 10, i, t, b))
        if r[0] == "ok":
            es = r[1]
            wsum = sum(e.duration for e in es[1:-1])
            d.add(w, i, t, b, epochs_repr(es), wsum, wsum == w, accepted(es))
        else:
            d.add(w, i, t, b, r)

    # base_duration <= 0 only where the argument check rejects the call (where it
    # does not, the window loop does not terminate - on HEAD and with the patch)
    for w, i, t, b in itertools.product([0, 10, 19, 20, 25], [0, 15, 30], [0, 10], [0, -5]):
        if w < 20 or w < i + t + b:
            d.add("neg", w, i, t, b, outcome(lambda: stan_epochs(w, 10, i, t, b)))

    # thinning / posterior arguments, positional and keyword
    for p, tp, tw in itertools.product([0, 1, 7, 1000], [0, 1, 7, 10], [0, 1, 5, 30]):
        es = stan_epochs(200, p, thinning_posterior=tp, thinning_warmup=tw)
        d.add(p, tp, tw, epochs_repr(es), accepted(es))
        es2 = stan_epochs(200, p, 75, 50, 25, tp, tw)
        d.add(epochs_repr(es2) == epochs_repr(es))
    es = stan_epochs(warmup_duration=90, posterior_duration=5, init_duration=10,
                     term_duration=10, base_duration=10, thinning_posterior=5,
                     thinning_warmup=2)
    d.add(epochs_repr(es), accepted(es))

    # float arguments: bit-identical arithmetic
    for w, i, t, b in [(100.5, 10.25, 5.1, 3.3), (1000.0, 75.0, 50.0, 25.0),
                       (0.1 * 3000, 0.1 * 7, 0.3, 0.7), (float("inf"), 1, 1, 1e308),
                       (float("nan"), 1, 1, 1), (100, 1, 1, float("nan")),
                       (100, float("nan"), 1, 1), (1e18, 3.0, 7.0, 1e3)]:
        d.add("float", repr((w, i, t, b)),
              outcome(lambda: epochs_repr(stan_epochs(w, 10, i, t, b))))

    # mutable number-likes: in-place doubling aliases the caller's object
    import numpy as np

    for mk in (lambda: np.array(5), lambda: np.array([5]), lambda: np.int64(5),
               lambda: np.array(5.5)):
        base = mk()
        r = outcome(lambda: epochs_repr(stan_epochs(200, 10, 20, 10, base)))
        d.add("np-base", r, repr(base))
        warm = mk() * 40
        r = outcome(lambda: epochs_repr(stan_epochs(warm, 10, 20, 10, 5)))
        d.add("np-warm", r, repr(warm))
    base = np.array(5)
    es = stan_epochs(200, 10, 20, 10, base)
    d.add("np-alias", [e.duration is base for e in es], repr(base))

    # wrong types
    d.add(outcome(lambda: stan_epochs("100")))
    d.add(outcome(lambda: stan_epochs(100, init_duration=None)))
    d.add(outcome(lambda: stan_epochs(100, 10, 10, 10, "5")))
    d.add(outcome(lambda: stan_epochs(100, foo=1)))

    # results are fresh objects every time
    a, b = stan_epochs(), stan_epochs()
    d.add(a is b, any(x is y for x in a for y in b), type(a).__name__,
          [type(x).__name__ for x in a], [type(x.type).__name__ for x in a])
    d.done()


# --------------------------------------------------------------------------
# 5. builder: epochs, chunk length, sampling
# --------------------------------------------------------------------------


def new_builder(num_chains=2):
    con = DictInterface(lambda ms: -0.5 * ms["x"] ** 2)
    builder = EngineBuilder(seed=3, num_chains=num_chains)
    builder.set_model(con)
    builder.set_initial_values({"x": jnp.array(0.5)}, multiple_chains=False)
    builder.add_kernel(gs.RWKernel(["x"]))
    builder.show_progress = False
    return builder


def section_builder():
    d = Digest("builder")
    E, T = EpochConfig, EpochType

    # set_duration -> epochs, chunk length
    for w, p, t, tp, tw in [(200, 10, 10, 1, 1), (1000, 1000, 50, 1, 1),
                            (1000, 1000, 50, 10, 5), (150, 40, 25, 4, 5),
                            (128, 7, 3, 7, 1), (125, 100, 0, 1, 1),
                            (100, 30, 50, 1, 1), (19, 1, 1, 1, 1),
                            (300, 50, 50, 3, 2)]:
        b = new_builder()
        r = outcome(lambda: b.set_duration(w, p, t, tp, tw))
        if r[0] != "ok":
            d.add("dur", w, p, t, tp, tw, r, hasattr(b, "_epochs"))
            continue
        r2 = outcome(lambda: b.set_duration(warmup_duration=w, posterior_duration=p,
                                            term_duration=t, thinning_posterior=tp,
                                            thinning_warmup=tw))
        eps = b.epochs
        d.add("dur", w, p, t, tp, tw, r, r2, type(eps).__name__, epochs_repr(eps))
        re = outcome(b.build)
        if re[0] == "ok":
            eng = re[1]
            j = eng._jitted_sample_duration
            d.add("chunk", j, type(j).__name__,
                  all(e.duration % j == 0 for e in eps[1:]),
                  epochs_repr(eng._epoch_manager._configs),
                  [x is y for x, y in zip(eng._epoch_manager._configs, eps)])
        else:
            d.add("chunk", re[:2], re[2][:200])
    d.add("default-term", epochs_repr(
        (lambda b: (b.set_duration(500, 20), b.epochs)[1])(new_builder())))

    # set_epochs with explicit schedules, including invalid ones and odd shapes
    schedules = {
        "plain": [E(T.INITIAL_VALUES, 1, 1, None), E(T.BURNIN, 12, 1, None),
                  E(T.POSTERIOR, 18, 3, None)],
        "coprime": [E(T.INITIAL_VALUES, 1, 1, None), E(T.FAST_ADAPTATION, 7, 1, None),
                    E(T.POSTERIOR, 9, 1, None)],
        "single": [E(T.INITIAL_VALUES, 1, 1, None), E(T.POSTERIOR, 6, 2, None)],
        "init-only": [E(T.INITIAL_VALUES, 1, 1, None)],
        "empty": [],
        "float": [E(T.INITIAL_VALUES, 1, 1, None), E(T.BURNIN, 4.0, 1, None)],
        "invalid": [E(T.BURNIN, 4, 1, None)],
        "warm-after-post": [E(T.INITIAL_VALUES, 1, 1, None), E(T.POSTERIOR, 4, 1, None),
                            E(T.BURNIN, 4, 1, None)],
    }
    for name, sched in schedules.items():
        b = new_builder()
        r = outcome(lambda: b.set_epochs(iter(sched)))
        d.add("set", name, r, hasattr(b, "_epochs"))
        if r[0] != "ok":
            continue
        d.add("eps", name, epochs_repr(b.epochs), [x is y for x, y in zip(b.epochs, sched)])
        re = outcome(b.build)
        if re[0] == "ok":
            eng = re[1]
            d.add("chunk", name, eng._jitted_sample_duration,
                  epochs_repr(eng._epoch_manager._configs), mgr_state(eng._epoch_manager),
                  mgr_state(b._epochs))
        else:
            d.add("chunk", name, re[:2], re[2][:200])

    # build without epochs
    d.add("noepochs", outcome(lambda: new_builder().build())[:2])
    d.add("noepochs2", outcome(lambda: new_builder().epochs)[:2])

    # error precedence in build: duplicate position keys vs. bad durations vs. seeds
    b = new_builder()
    b.add_kernel(gs.RWKernel(["x"]))
    b.set_epochs(schedules["float"])
    d.add("prec1", outcome(b.build))
    b = new_builder()
    b.set_epochs(schedules["float"])
    b._engine_key = jnp.zeros((3, 2), dtype=jnp.uint32)
    d.add("prec2", outcome(b.build)[:2])

    # actually sample: a schedule with gcd > 1, thinning, and appended epochs
    b = new_builder()
    b.set_epochs(schedules["plain"])
    eng = b.build()
    d.add("run", eng._jitted_sample_duration)
    eng.sample_all_epochs()
    d.add(eng.is_sampling_done(), mgr_state(eng._epoch_manager))
    d.add(outcome(lambda: eng.append_epoch(E(T.BURNIN, 6, 1, None))))
    d.add(outcome(lambda: eng.append_epoch(E(T.POSTERIOR, 6, 4, None))))
    d.add(outcome(lambda: eng.append_epoch(E(T.POSTERIOR, 12, 4, None))))
    d.add(eng.is_sampling_done())
    eng.sample_all_epochs()
    d.add(mgr_state(eng._epoch_manager))
    res = eng.get_results()
    x = res.get_posterior_samples()["x"]
    d.add(x.shape, x.dtype.name, hashlib.sha256(jax.device_get(x).tobytes()).hexdigest())
    # an appended epoch the chunk length does not divide
    d.add(outcome(lambda: eng.append_epoch(E(T.POSTERIOR, 5, 1, None))))
    d.add(outcome(eng.sample_next_epoch)[:2])

    # stan schedule end-to-end
    b = new_builder(num_chains=1)
    b.set_duration(warmup_duration=120, posterior_duration=20, term_duration=10,
                   thinning_posterior=2)
    eng = b.build()
    eng.sample_all_epochs()
    x = eng.get_results().get_posterior_samples()["x"]
    d.add(eng._jitted_sample_duration, x.shape,
          hashlib.sha256(jax.device_get(x).tobytes()).hexdigest())
    d.done()


def main(sections=None):
    all_sections = {
        "exhaustive": section_exhaustive,
        "odd": section_odd,
        "clock": section_clock,
        "stan": section_stan,
        "builder": section_builder,
    }
    for name, fn in all_sections.items():
        if sections is None or name in sections:
            fn()
    print("math.gcd() of nothing:", math.gcd())
    print("python", sys.version_info[:2])


if __name__ == "__main__":
    main(sys.argv[1:] or None)
