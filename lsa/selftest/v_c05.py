import ast

from .runner import V, expr, expr_is, is_assign_to, replace_expr, replace_stmt, stmt

F = "liesel/goose/mh.py"
S = "mh_step"

VARIANTS = [
    V("c05_le", "M", F, S, *replace_expr(
        "jax.random.uniform(prng_key) < acceptance_prob",
        "jax.random.uniform(prng_key) <= acceptance_prob"),
      note="non-strict comparison accepts probability zero at draw 0", expect_rule="C05.R3"),
    V("c05_ge", "M", F, S, *replace_expr(
        "jax.random.uniform(prng_key) < acceptance_prob",
        "jax.random.uniform(prng_key) >= acceptance_prob"),
      note="inverted decision", expect_rule="C05.R3"),
    V("c05_swap_cond", "M", F, S,
      lambda nd: is_assign_to(nd, "model_state") and "lax.cond" in ast.unparse(nd),
      lambda nd: stmt("model_state = jax.lax.cond(do_accept, lambda: model_state, "
                      "lambda: proposed_model_state)"),
      note="accept/reject branches swapped", expect_rule="C05.R4"),
    V("c05_no_guard", "M", F, S,
      lambda nd: is_assign_to(nd, "(log_acc_prob, error_code)"),
      lambda nd: stmt("error_code = 0"),
      note="NaN guard dropped"),
    V("c05_guard_plus_inf", "M", F, S, *replace_expr("(-jnp.inf, 90)", "(jnp.inf, 90)"),
      note="NaN mapped to +inf (always accept)", expect_rule="C05.R1"),
    V("c05_clip_min", "M", F, S, *replace_expr(
        "jnp.clip(jnp.exp(log_acc_prob), max=1.0)",
        "jnp.clip(jnp.exp(log_acc_prob), min=1.0)"),
      note="clip from below: prob >= 1", expect_rule="C05.R2"),
    V("c05_info_swapped", "M", F, S, *replace_expr(
        "DefaultTransitionInfo(error_code, acceptance_prob, do_accept)",
        "DefaultTransitionInfo(error_code, do_accept, acceptance_prob)"),
      note="info fields swapped", expect_rule="C05.R4"),
    V("c05_minus_corr", "M", F, S, *replace_expr(
        "proposed_log_prob - current_log_prob + log_correction",
        "proposed_log_prob - current_log_prob - log_correction"),
      note="correction sign", expect_rule="C05.R1"),
    V("c05_code_undocumented", "M", F, S, *replace_expr("(-jnp.inf, 90)", "(-jnp.inf, 91)"),
      note="undocumented error code", expect_rule="C05.R1"),
    V("c05_reject_returns_prop", "M", F, S,
      lambda nd: is_assign_to(nd, "model_state") and "lax.cond" in ast.unparse(nd),
      lambda nd: stmt("model_state = jax.lax.cond(do_accept, lambda: proposed_model_state, "
                      "lambda: model.update_state(proposal, model_state))"),
      note="rejection does not return the input state", expect_rule="C05.R4"),
    V("c05_same_key", "M", "liesel/goose/rw.py", "RWKernel._standard_transition",
      *replace_expr("mh_step(subkey, self.model, proposal, model_state)",
                    "mh_step(key, self.model, proposal, model_state)"),
      note="proposal key reused for the accept draw", expect_rule="C05.R5"),
    V("c05_corr_added_to_one_density", "M", F, S, *replace_expr(
        "proposed_log_prob - current_log_prob + log_correction",
        "proposed_log_prob + log_correction - current_log_prob"),
      note="the O(1) correction is added to one huge log-density first and rounds away",
      expect_rule="C05.R1"),
    V("c05_builder_rebinds_model", "M", "liesel/goose/builder.py", "EngineBuilder.build",
      lambda nd: isinstance(nd, ast.If) and ast.unparse(nd.test) == "not ker.has_model()",
      lambda nd: nd.body,
      note="a kernel bound to its own interface is re-bound to the builder's",
      expect_rule="C05.R5"),
    # ---- twins
    V("c05_t_corr_first", "T", F, S, *replace_expr(
        "proposed_log_prob - current_log_prob + log_correction",
        "log_correction + (proposed_log_prob - current_log_prob)"),
      note="commuted sum, difference still formed first"),
    V("c05_t_flip", "T", F, S, *replace_expr(
        "jax.random.uniform(prng_key) < acceptance_prob",
        "acceptance_prob > jax.random.uniform(prng_key)"),
      note="prob > draw"),
    V("c05_t_inline", "T", F, S, *replace_stmt(
        "log_acc_prob = proposed_log_prob - current_log_prob + log_correction",
        "diff = proposed_log_prob - current_log_prob\nlog_acc_prob = diff + log_correction"),
      note="temporary introduced"),
    V("c05_t_minimum", "T", F, S, *replace_expr(
        "jnp.clip(jnp.exp(log_acc_prob), max=1.0)",
        "jnp.minimum(jnp.exp(log_acc_prob), 1.0)"),
      note="minimum instead of clip"),
    V("c05_t_kwargs", "T", F, S, *replace_expr(
        "DefaultTransitionInfo(error_code, acceptance_prob, do_accept)",
        "DefaultTransitionInfo(position_moved=do_accept, error_code=error_code, "
        "acceptance_prob=acceptance_prob)"),
      note="keyword arguments"),
    V("c05_rw_moved_rederived", "M", "liesel/goose/rw.py", "RWKernel._standard_transition",
      lambda nd: isinstance(nd, ast.Return),
      lambda nd: stmt("info.position_moved = jax.numpy.any(jax.flatten_util.ravel_pytree("
                      "self.position(model_state))[0] != flat_position)") + [nd],
      note="moved flag re-derived from a float comparison of positions (rounding / NaN)",
      expect_rule="C05.R5"),
    V("c05_mh_kernel_prob_clipped", "M", "liesel/goose/mh_kernel.py", "MHKernel._standard_transition",
      lambda nd: isinstance(nd, ast.Return),
      lambda nd: stmt("info.acceptance_prob = jax.numpy.clip(info.acceptance_prob, 0.01, 1.0)") + [nd],
      note="reported acceptance probability edited after the decision", expect_rule="C05.R5"),
]
