"""
C17 -- Model.simulate() draws a joint ancestral sample.

R1 is a dirty-read typestate on the CFG of ``simulate``: an assignment through a value
setter makes the cached inputs of later distributions stale unless auto-update is
known to be on; ``dist.init_dist()`` reads those cached inputs, so every path from an
assignment (including the loop back edge) to the next ``init_dist()`` must pass a
refresh (``self.update(...)`` covering the distribution's inputs).
"""

from __future__ import annotations

import ast

from ..core.cfg import CFG, ENTRY, calls_of_stmt, walk_shallow
from ..core.terms import cmp_, not_, pc, phi_  # noqa: F401
from ..core.terms import c, evaluate, fn_name, kw, n, pretty, subterms
from .common import LIB_FACTS, is_call, method, short

MODEL = "liesel.model.model.Model"


def check(ctx):
    repo = ctx.repo
    ctx.rule("R1", "every path from a value assignment to the next init_dist() of a "
                   "simulated distribution passes a refresh of its cached inputs (or "
                   "auto-update is forced on) -- dirty-read typestate.")
    ctx.rule("R2", "simulation order is a topological order of the graph with exactly the "
                   "dist->at edges reversed; the skip filter tests dist, at and var names; "
                   "one seed of a single split per distribution; sample shape from the "
                   "current value; assignment through the value setter of the variable.")
    ctx.trust(LIB_FACTS["toposort"], LIB_FACTS["keys"])
    ctx.undecided("distributional correctness of the draws")

    mc = repo.cls(MODEL)
    sim = method(repo, mc, "simulate")
    cfg = CFG(sim.node)
    res = evaluate(repo, sim)
    ctx.paths += cfg.paths_count(1000)

    # the sampling loop: the for-statement(s) whose body reads a distribution
    loops = [s for s in cfg.stmts if isinstance(s, ast.For) and any(
        isinstance(x, ast.Call) and isinstance(x.func, ast.Attribute)
        and x.func.attr in ("init_dist", "sample") for b in s.body for x in ast.walk(b))]
    loops = [s for s in loops if not any(s is not o and any(s is x for x in ast.walk(o))
                                         for o in loops)] or loops
    ctx.ob("C17.R2", sim, "simulate has one loop over the distributions", len(loops) == 1,
           detail=f"{len(loops)} loops")
    if len(loops) != 1:
        return
    loop = loops[0]
    tvars = [x.id for x in ast.walk(loop.target) if isinstance(x, ast.Name)]

    def in_loop_body(st):
        return any(st is x for b in loop.body for x in ast.walk(b))

    reads, writes, refreshes, direct_updates = [], [], [], []
    for st in cfg.stmts:
        if not in_loop_body(st):
            continue
        for call in calls_of_stmt(st):
            f = call.func
            if isinstance(f, ast.Attribute) and f.attr == "init_dist":
                reads.append(st)
            if isinstance(f, ast.Attribute) and f.attr == "update" and isinstance(
                    f.value, ast.Name) and f.value.id == "self":
                if _covers_inputs(call, None, sim.node):
                    refreshes.append(st)
            elif isinstance(f, ast.Attribute) and f.attr == "update" and not call.args \
                    and not call.keywords:
                direct_updates.append(st)
        if isinstance(st, ast.Assign):
            for t in st.targets:
                if isinstance(t, ast.Attribute) and t.attr == "value":
                    writes.append(st)
    ctx.ob("C17.R1", sim, "inside simulate nodes are refreshed only through Model.update "
                          "(the topological sweep); no node is updated directly in "
                          "simulation order, where aggregating nodes would be recomputed "
                          "from stale inputs and marked up to date", not direct_updates,
           detail=f"direct node updates at lines {[s_.lineno for s_ in direct_updates]}",
           stmt="direct node.update() in simulate")
    # simulate leaves the model's own settings alone: the draws go through the value
    # setters under whatever auto-update setting the user chose (switching it off "for
    # the loop" leaves the totals stale unless a full update is guaranteed afterwards)
    cfg_writes = [st for st in ast.walk(sim.node) if isinstance(st, (ast.Assign, ast.AugAssign))
                  for t in (st.targets if isinstance(st, ast.Assign) else [st.target])
                  if isinstance(t, ast.Attribute) and isinstance(t.value, ast.Name)
                  and t.value.id == "self"]
    settled = not cfg_writes
    if cfg_writes and all(ast.unparse(t) == "self.auto_update" for st in cfg_writes
                          for t in (st.targets if isinstance(st, ast.Assign) else [st.target])):
        # ... unless a full update is guaranteed afterwards whenever the user had it on:
        # `saved = self.auto_update` ... loop ... `self.update()` under no condition or
        # under exactly `saved`
        saved = {st.targets[0].id for st in ast.walk(sim.node) if isinstance(st, ast.Assign)
                 and len(st.targets) == 1 and isinstance(st.targets[0], ast.Name)
                 and ast.unparse(st.value) == "self.auto_update"}
        loops_ = [x for x in ast.walk(sim.node) if isinstance(x, ast.For)]
        last = max((x.end_lineno or x.lineno) for x in loops_) if loops_ else 0
        restores = [st for st in cfg_writes if isinstance(st, ast.Assign)
                    and isinstance(st.value, ast.Name) and st.value.id in saved]
        par = {}
        for x in ast.walk(sim.node):
            for ch in ast.iter_child_nodes(x):
                par[ch] = x
        for x in ast.walk(sim.node):
            if not (isinstance(x, ast.Call) and ast.unparse(x) == "self.update()"
                    and x.lineno > last):
                continue
            # the conditions the call sits under (try / finally blocks do not count)
            tests, y = [], x
            while y in par and par[y] is not sim.node:
                y = par[y]
                if isinstance(y, ast.If):
                    tests.append(y)
                elif isinstance(y, (ast.For, ast.While)):
                    tests.append(None)
            ok_t = True
            for y in tests:
                if y is None:
                    ok_t = False
                elif isinstance(y.test, ast.Name) and y.test.id in saved:
                    continue                      # `if saved:`
                elif ast.unparse(y.test) == "self.auto_update" and any(
                        r_.lineno < y.lineno for r_ in restores):
                    continue                      # `if self.auto_update:` after the restore
                else:
                    ok_t = False
            if ok_t:
                settled = True
    ctx.ob("C17.R1", sim, "simulate assigns no attribute of the model itself (in particular "
                          "not auto_update) -- or, if it switches auto-update off for the loop, "
                          "a full update is guaranteed afterwards whenever the user had it on",
           settled,
           detail=f"writes at lines {[s_.lineno for s_ in cfg_writes]}: "
                  f"{[ast.unparse(s_)[:50] for s_ in cfg_writes[:2]]}",
           stmt="simulate writes " + "; ".join(ast.unparse(s_)[:60] for s_ in cfg_writes[:2]))
    if not reads or len(writes) < 1:
        ctx.ob("C17.R1", sim, "the simulation loop initialises each distribution and assigns "
                              "the draw through a value setter", False, unproven=True,
               detail=f"{len(reads)} init_dist() calls, {len(writes)} value assignments in "
                      f"the loop", stmt="unrecognised simulation loop")
        return

    # auto-update forced on before the loop?
    forced = False
    for st in cfg.stmts:
        if isinstance(st, ast.Assign) and len(st.targets) == 1:
            t = st.targets[0]
            if isinstance(t, ast.Attribute) and t.attr in ("auto_update", "_auto_update") \
                    and isinstance(t.value, ast.Name) and t.value.id == "self" \
                    and isinstance(st.value, ast.Constant) and st.value.value is True \
                    and cfg.dominates(st, loop) and not in_loop_body(st):
                forced = True
    for r in reads:
        for w in writes:
            ok = forced or cfg.must_pass_through(w, r, refreshes)
            ctx.ob("C17.R1", sim, "no stale read: every path from the value assignment to "
                                  "the next init_dist() refreshes the distribution's inputs "
                                  "(holds for auto_update on and off)", ok,
                   detail=f"assignment at line {w.lineno} reaches init_dist() at line "
                          f"{r.lineno} via the loop back edge without self.update(...); "
                          f"with auto_update=False the child is drawn at the stale "
                          f"parent-derived parameters" if not ok else "",
                   node=r, stmt="stale init_dist after value assignment",
                   facts={"write_line": w.lineno, "read_line": r.lineno,
                          "refresh_lines": [s.lineno for s in refreshes],
                          "auto_update_forced": forced})
    # the refresh must not come after the read within the iteration
    for r in reads:
        first_ok = forced or cfg.must_pass_through(loop, r, refreshes)
        ctx.ob("C17.R1", sim, "the refresh precedes init_dist() within each iteration",
               first_ok, node=r, stmt="refresh after read")

    # ---------------------------------------------------------------- R2
    lp = res.loops[0] if res.loops else None
    it = lp["iter"] if lp else None
    ok_zip = False
    dists_t = seeds_t = None
    if it is not None and is_call(it, "zip") and len(it[2]) == 2:
        dists_t, seeds_t = it[2]
        ok_zip = (is_call(seeds_t, "jax.random.split") and seeds_t[2][0] == n("seed")
                  and seeds_t[2][1] == ("call", ("n", "len"), (dists_t,), ()))
    # the same paired walk written with a cursor: `for i, dist in enumerate(dists)` and
    # `seeds[i]` where seeds = split(seed, len(dists))
    cursor = None
    if it is not None and is_call(it, "enumerate") and len(it[2]) == 1 and lp is not None:
        idx_v = ("proj", ("iter", it), 0)
        picks = {x for t_, _, _ in lp["calls"] for x in subterms(t_)
                 if x[0] == "s" and x[2] == idx_v}
        if len(picks) == 1:
            seeds_t = next(iter(picks))[1]
            dists_t = it[2][0]
            cursor = ("s", seeds_t, idx_v)
            ok_zip = (is_call(seeds_t, "jax.random.split") and seeds_t[2][0] == n("seed")
                      and seeds_t[2][1] == ("call", ("n", "len"), (dists_t,), ()))
    ctx.ob("C17.R2", sim, "the loop zips the selected distributions with the pieces of one "
                          "split(seed, len(dists))", ok_zip, detail=short(it or ()),
           stmt="loop iterable " + pretty(it or ())[:160])
    if dists_t is not None and dists_t[0] == "comp":
        elt, gens = dists_t[2], dists_t[3]
        tgt, src, conds = gens[0]
        node_t = ("iter", src)
        ctx.ob("C17.R2", sim, "distributions are visited in simulation order "
                              "(self._simulation_nodes)",
               src == ("a", n("self"), "_simulation_nodes") and elt == node_t,
               detail=short(src))
        flat = []
        for cd in conds:
            flat.extend(cd[2] if cd[0] == "bool" and cd[1] == "and" else [cd])
        flat2 = []
        for cd in flat:
            flat2.extend(cd[2] if cd[0] == "bool" and cd[1] == "and" else [cd])
        want = {
            "is a Dist": ("call", ("n", "isinstance"),
                          (node_t, ("g", "liesel.model.nodes.Dist")), ()),
            "has an evaluation point": cmp_("is not", ("a", node_t, "at"), c(None)),
            "dist name not skipped": cmp_("not in", ("a", node_t, "name"), n("skip")),
            "at name not skipped": cmp_("not in", ("a", ("a", node_t, "at"), "name"),
                                         n("skip")),
            "var name not skipped": cmp_("not in", ("a", ("a", node_t, "var"), "name"),
                                          n("skip")),
        }
        for label, term in want.items():
            ctx.ob("C17.R2", sim, f"selection filter: {label}", term in flat2,
                   detail=f"filter conjuncts: {[short(x, 60) for x in flat2]}",
                   stmt=f"filter {label}")
        extra = [x for x in flat2 if x not in want.values()
                 and x != cmp_("is not", ("a", node_t, "var"), c(None))]
        ctx.ob("C17.R2", sim, "no further (hidden) selection criteria", not extra,
               detail=str([short(x, 60) for x in extra]))
    else:
        ctx.ob("C17.R2", sim, "the distributions are selected by a comprehension over "
                              "the simulation order", False, unproven=True,
               detail=short(dists_t or ()))

    # sampling and assignment inside the loop
    if lp is not None:
        dist_v = ("proj", ("iter", it), 0)
        seed_v = ("proj", ("iter", it), 1)
        if cursor is not None:
            dist_v, seed_v = ("proj", ("iter", it), 1), cursor
        samples = [t for t, _, _ in lp["calls"] if t[1][0] == "a" and t[1][2] == "sample"]
        ok_s = False
        if len(samples) == 1:
            s = samples[0]
            ok_s = (s[1][1] == ("call", ("a", dist_v, "init_dist"), (), ())
                    and kw(s, "seed", 1) == seed_v)
            shp = kw(s, "sample_shape", 0)
            vs = ("a", ("call", ("g", "jax.numpy.asarray"),
                        (("a", ("a", dist_v, "at"), "value"),), ()), "shape")
            tfp = ("call", ("a", dist_v, "init_dist"), (), ())
            ln = lambda x: ("call", ("n", "len"), (x,), ())  # noqa: E731
            want_idx = ("op", "-", ("op", "-", ln(vs), ln(("a", tfp, "batch_shape"))),
                        ln(("a", tfp, "event_shape")))
            ok_shape = shp == ("s", vs, ("slice", c(None), want_idx, c(None)))
            if not ok_shape and shp is not None and shp[0] == "s" and shp[1] == vs \
                    and shp[2][0] == "slice" and shp[2][1] == c(None) and shp[2][3] == c(None):
                # the same integer, written with another grouping of the three lengths
                import sympy as _sp
                from ..algebra import Untranslatable, is_zero, to_sympy
                syms: dict = {}

                def _leaf(t_):
                    if t_[0] == "call" and t_[1] == ("n", "len"):
                        return syms.setdefault(t_, _sp.Symbol(f"len{len(syms)}", integer=True))
                    return None
                try:
                    ok_shape = is_zero(to_sympy(shp[2][2], {}, _leaf) - to_sympy(want_idx, {}, _leaf))
                except Untranslatable:
                    ok_shape = False
            ctx.ob("C17.R2", sim, "sample shape = current value shape minus batch and event "
                                  "dimensions", ok_shape, detail=short(shp or ()),
                   stmt="sample shape " + pretty(shp or ())[:160])
        ctx.ob("C17.R2", sim, "each distribution is sampled once from init_dist() with its "
                              "own seed", ok_s,
               detail=f"{len(samples)} sample call(s)", stmt="sample call")
        value_t = samples[0] if samples else None
        stores = [(loc, val, cond) for loc, val, _, cond in lp["stores"] if loc[0] == "a"
                  and loc[2] == "value"]
        at = ("a", dist_v, "at")
        isvv = ("call", ("n", "isinstance"), (at, ("g", "liesel.model.nodes.VarValue")), ())
        ok_a = len(stores) == 2 and all(v == value_t for _, v, _ in stores)
        if ok_a:
            by = {}
            for loc, val, cond in stores:
                pol = [p for a_, p in cond if a_ == isvv]
                by[loc[1]] = pol[0] if pol else None
            ok_a = (by.get(("s", ("a", at, "inputs"), c(0))) is True and by.get(at) is False)
        elif len(stores) == 1 and stores[0][1] == value_t:
            # one store through a conditionally chosen target:
            # (at.inputs[0] if isinstance(at, VarValue) else at).value = draw
            ok_a = stores[0][0][1] == phi_(isvv, ("s", ("a", at, "inputs"), c(0)), at)
        ctx.ob("C17.R2", sim, "the draw is assigned to the variable's value node (input of "
                              "the VarValue proxy) or to `at` itself", ok_a,
               detail=str([(short(l, 60), short(v, 30)) for l, v, _ in stores]),
               stmt="assignment targets")

    # the simulation graph
    bsg = method(repo, mc, "_build_simulation_graph")
    rg = evaluate(repo, bsg)
    appends = [(t, cond) for t, _, cond in rg.calls if t[1][0] == "a" and t[1][2] == "append"]
    if not appends:
        # the edge list as one comprehension over (node, input) pairs: its element is what
        # the loop would append
        node_c = ("iter", n("nodes"))
        comps = {x for t, _, _ in rg.calls for x in subterms(t)
                 if x[0] == "comp" and x[1] == "list" and len(x[3]) == 2
                 and x[3][0][1] == n("nodes") and not x[3][0][2] and not x[3][1][2]
                 and x[3][1][1] == ("call", ("a", node_c, "all_input_nodes"), (), ())}
        if len(comps) == 1:
            comp = next(iter(comps))
            appends = [(("call", ("a", n("edges"), "append"), (comp[2],), ()), ())]
    if len(appends) == 1 and appends[0][0][2] and appends[0][0][2][0][0] in ("phi", "ifexp"):
        # one append of a conditionally chosen edge: an append per alternative
        def _arms(t_, cond_):
            if t_[0] in ("phi", "ifexp") and len(t_) == 4 and t_[1][0] != "path":
                return (_arms(t_[2], cond_ + ((t_[1], True),))
                        + _arms(t_[3], cond_ + ((t_[1], False),)))
            return [(t_, cond_)]
        t0, cond0 = appends[0]
        appends = [((t0[0], t0[1], (leaf,) + t0[2][1:], t0[3]), tuple(cond0) + extra)
                   for leaf, extra in _arms(t0[2][0], ())]
    ok_g = False
    detail = f"{len(appends)} append sites"
    if len(appends) >= 2:
        rev = [(t, cond) for t, cond in appends]
        # the reversed edge (node, input) must be under isinstance(node, Dist) and input is at
        def edge(t):
            return t[2][0][1] if t[2] and t[2][0][0] == "tuple" else None
        info = []
        for t, cond in rev:
            e = edge(t)
            pols = [(a, p) for a, p in cond if a[0] != "inloop"]
            info.append((e, pols))
        try:
            node_t = ("iter", n("nodes"))
            inp_t = ("iter", ("call", ("a", node_t, "all_input_nodes"), (), ()))
            guard = ("bool", "and", (("call", ("n", "isinstance"),
                                      (node_t, ("g", "liesel.model.nodes.Dist")), ()),
                                     cmp_("is", inp_t, ("a", node_t, "at"))))
            # decided over the truth table of the two atoms, so it does not matter which
            # arm carries the test or how it is negated / split
            import itertools as _it2
            from .common import _cond_value
            A_, B_ = guard[2]

            class _Asg(dict):
                def __missing__(self, k):
                    return False
            when = {}
            for e, pols in info:
                when.setdefault(e, set()).update(
                    (a_, b_) for a_, b_ in _it2.product((False, True), repeat=2)
                    if all(_cond_value(x, _Asg({A_: a_, B_: b_})) == bool(p_)
                           for x, p_ in pols))
            rev_e = [e for e, w_ in when.items() if w_ == {(True, True)}]
            fwd_e = [e for e, w_ in when.items()
                     if w_ == {(False, False), (False, True), (True, False)}]
            ok_g = rev_e == [(node_t, inp_t)] and fwd_e == [(inp_t, node_t)]
            detail = f"reversed {[short(('tuple', e)) for e in rev_e]} if {short(guard)} " \
                     f"else {[short(('tuple', e)) for e in fwd_e]}"
        except Exception as ex:  # pragma: no cover
            detail = f"unrecognised: {ex}"
    ctx.ob("C17.R2", bsg, "the simulation graph reverses exactly the edges from a "
                          "distribution's evaluation point (`at`) to the distribution",
           ok_g, detail=detail, stmt="simulation graph edges")
    init = method(repo, mc, "__init__")
    ri = evaluate(repo, init)
    heap = {loc[2]: val for loc, val, _, _ in ri.stores if loc[0] == "a" and loc[1] == n("self")}
    sg = heap.get("_simulation_graph")
    sn = heap.get("_simulation_nodes")
    ok_n = (sn == ("call", ("n", "list"), (("call", ("g", "networkx.topological_sort"),
                                            (sg,), ()),), ())
            and sg is not None and sg[0] == "call"
            and sg[1] == ("a", n("self"), "_build_simulation_graph"))
    ctx.ob("C17.R2", init, "_simulation_nodes = topological_sort(simulation graph of all "
                           "nodes)", ok_n, detail=short(sn or ()))

    # ---- shared mechanisms: the neighbour's rules run as obligations of this property
    ctx.include("C01", "C17.R3", only=['C01.R6', 'C01.R4', 'C01.R1'])
    ctx.include("C14", "C17.R3", only=['C14.R1'])
    ctx.rule("R3", "shared mechanisms, run as obligations of this property: the distribution a draw comes from is built from the node's current inputs, nothing kept from an earlier update (C01.R1); the refresh before each draw is a targeted update that really runs (C01.R6); the value setter each draw is assigned through flags every dependant and, with auto-update on, runs the full sweep in topological order (C01.R4); a transformed variable is the bijector image of the new variable, so it is simulated through it (C14.R1).")


def _covers_inputs(call: ast.Call, tvars=None, scope=None) -> bool:
    """self.update() | self.update(dist.name) | self.update(*(n.name for n in
    dist.all_input_nodes()))"""
    if not call.args and not call.keywords:
        return True
    if call.keywords:
        return False
    for a in call.args:
        e = a.value if isinstance(a, ast.Starred) else a
        if isinstance(e, ast.Name) and scope is not None:
            # a temporary that is assigned exactly once stands for its value
            defs = [st.value for st in ast.walk(scope)
                    if isinstance(st, (ast.Assign, ast.AnnAssign)) and st.value is not None
                    for t in (st.targets if isinstance(st, ast.Assign) else [st.target])
                    if isinstance(t, ast.Name) and t.id == e.id]
            stores = [x for x in ast.walk(scope) if isinstance(x, ast.Name)
                      and x.id == e.id and isinstance(x.ctx, ast.Store)]
            if len(defs) == 1 and len(stores) == 1:
                e = defs[0]
        txt = ast.unparse(e)
        if isinstance(a, ast.Starred):
            names = [x for x in ast.walk(e) if isinstance(x, ast.Attribute)
                     and x.attr == "all_input_nodes" and isinstance(x.value, ast.Name)]
            if names and ".name" in txt:
                continue
            return False
        if isinstance(e, ast.Attribute) and e.attr == "name" and isinstance(
                e.value, ast.Name):
            continue
        return False
    return True
