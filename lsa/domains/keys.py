"""
Affine (use-at-most-once) typing of JAX PRNG keys on symbolic terms.

Keys are typed by *provenance*, never by name:
  sources    results of jax.random.PRNGKey / key / split / fold_in, results of stateful
             generator methods (methods that split a key-typed field of ``self`` and
             overwrite it), parameters annotated KeyArray, parameters bound to a key at a
             resolved call site or as the xs/carry of scan / map / vmap / while_loop, and
             terms *used as a key* (first argument of a jax.random sampler, ``seed`` of a
             TFP ``sample``).
  uses       passing a key to any call (consumption; shape/isinstance/cast... excepted),
             returning it, storing it to a field / carry slot.
Rules
  K1  a key value is consumed at most once on every path (mutually exclusive branches are
      separate paths);
  K2  a key defined outside a loop/comprehension may not be consumed inside it unless it
      is selected by the iteration (keys[i], zip(xs, keys)) or the holding variable is
      re-bound from the split result in the loop (carried);
  K3  pieces of one split result that are handed out / stored / consumed by constant
      indices must be pairwise disjoint;
  K4  a key held in a persistent location (field of self, slot of a loop carry) that is
      consumed must be overwritten from the split result on every path before returning;
  K5  duplicating a key (tile / repeat / broadcast_to / stack([k, k])) is a multiple use.
"""

from __future__ import annotations

import ast
from dataclasses import dataclass, field

from ..core.loader import FunctionInfo, Repo
from ..core.terms import (c, evaluate, fn_name, kw, n, pretty, subterms, unwrap_callable)

SOURCES_KEY = {"jax.random.PRNGKey", "jax.random.key", "jax.random.fold_in",
               "jax.random.wrap_key_data"}
SOURCES_KEYS = {"jax.random.split"}
NONCONSUMING = {"isinstance", "jax.numpy.isscalar", "jax.numpy.shape", "len", "typing.cast",
                "hasattr", "print", "repr", "str", "type", "jax.numpy.ndim", "id",
                "numpy.shape", "getattr"}
DUPLICATORS = {"jax.numpy.tile", "jax.numpy.repeat", "jax.numpy.broadcast_to",
               "numpy.tile", "numpy.repeat", "numpy.broadcast_to"}
HIGHER = {"jax.lax.scan": ("f", 0), "jax.lax.map": ("f", 0), "jax.lax.while_loop":
          ("body_fun", 1), "jax.lax.fori_loop": ("body_fun", 2)}


def _baseline():
    from ..core.terms import baseline_functions
    return baseline_functions()


@dataclass
class KeyFinding:
    rule: str
    fi: FunctionInfo
    key: str
    what: str
    node: ast.AST | None = None


@dataclass
class KeyReport:
    findings: list[KeyFinding] = field(default_factory=list)
    consumption_sites: int = 0
    key_values: int = 0
    functions_with_keys: list[str] = field(default_factory=list)
    generators: dict[str, str] = field(default_factory=dict)
    exceptions_used: list[str] = field(default_factory=list)


def exclusive(c1, c2) -> bool:
    """No truth assignment of the condition atoms satisfies both path conditions (atoms may
    be conjunctions / disjunctions that one of the paths carries unsplit)."""
    s1 = {(t, p) for t, p in c1}
    for t, p in c2:
        if (t, not p) in s1:
            return True
    atoms: list = []

    def collect(t):
        if t[0] == "u" and t[1] == "not":
            collect(t[2])
        elif t[0] == "bool":
            for x in t[2]:
                collect(x)
        elif t not in atoms:
            atoms.append(t)

    def value(t, asg):
        if t[0] == "u" and t[1] == "not":
            return not value(t[2], asg)
        if t[0] == "bool":
            vs = [value(x, asg) for x in t[2]]
            return all(vs) if t[1] == "and" else any(vs)
        return asg[t]
    for t, _ in list(c1) + list(c2):
        collect(t)
    if not any(t[0] in ("bool", "u") for t, _ in list(c1) + list(c2)) or len(atoms) > 10:
        return False
    import itertools
    for bits in itertools.product((False, True), repeat=len(atoms)):
        asg = dict(zip(atoms, bits))
        if all(value(t, asg) == bool(p) for t, p in list(c1) + list(c2)):
            return False
    return True


def in_loop_markers(cond):
    return [t for t, p in cond if t[0] == "inloop"]


class KeyAnalysis:
    def __init__(self, repo: Repo, scope_prefixes: tuple[str, ...],
                 exceptions: dict[tuple[str, str], str] | None = None):
        self.repo = repo
        self.scope = scope_prefixes
        self.exceptions = exceptions or {}
        self.param_types: dict[tuple[str, str], str] = {}  # (qualname, param) -> type
        self.field_types: dict[tuple[str, str], str] = {}  # (class qualname, field)
        self.generators: dict[str, str] = {}  # method qualname -> returned type
        self.fn_returns: dict[str, str] = {}  # plain function qualname -> returned type
        self.report = KeyReport()
        self._results = {}

    # ---------------------------------------------------------------- typing

    def functions(self):
        out = []
        for q, fi in self.repo.functions.items():
            if q.endswith("#setter") or q.endswith("#deleter"):
                pass
            # (a function that is not in the baseline list is read through at its call
            # sites -- terms.baseline_functions -- and judged there, in its caller's context)
            if any(fi.qualname.startswith(p) for p in self.scope) and (
                    "<locals>" in fi.qualname or fi.qualname in _baseline()
                    or not self._has_caller(fi)):
                out.append(fi)
        # parents before nested functions
        out.sort(key=lambda f: (f.qualname.count("<locals>"), f.qualname))
        return out

    def _ann_is_key(self, fi: FunctionInfo, p: str) -> bool:
        if isinstance(fi.node, ast.Lambda):
            return False
        a = fi.node.args
        def is_key_ann(e):
            if isinstance(e, ast.Name):
                return e.id == "KeyArray"
            if isinstance(e, ast.Attribute):
                return e.attr == "KeyArray"
            if isinstance(e, ast.BinOp) and isinstance(e.op, ast.BitOr):
                return is_key_ann(e.left) or is_key_ann(e.right)
            if isinstance(e, ast.Constant) and isinstance(e.value, str):
                try:
                    return is_key_ann(ast.parse(e.value, mode="eval").body)
                except SyntaxError:
                    return False
            return False

        for x in a.posonlyargs + a.args + a.kwonlyargs:
            if x.arg == p and x.annotation is not None:
                return is_key_ann(x.annotation)
        return False

    def ktype(self, t, fi: FunctionInfo, used: set, depth=0):
        """'key' | 'keys' | ('tuple', [...]) | None"""
        if depth > 40 or not isinstance(t, tuple) or not t:
            return None
        tag = t[0]
        if tag == "n":
            ty = self.param_types.get((fi.qualname, t[1]))
            if ty:
                return ty
            # closure variable of an enclosing function
            par = fi.parent
            while par is not None:
                ty = self.param_types.get((par.qualname, t[1]))
                if ty:
                    return ty
                par = par.parent
            if t in used:
                return "key"
            return None
        if tag == "fresh":
            inner = t[2]
            f = inner[1]
            if f[0] == "a" and f[1] == n("self") and fi.cls is not None:
                m = self.repo.lookup_method(fi.cls, f[2])
                if m is not None and m.qualname in self.generators:
                    return self.generators[m.qualname]
            return None
        if tag == "call":
            name = fn_name(t[1]) or ""
            if name in SOURCES_KEY:
                return "key"
            if name in SOURCES_KEYS:
                return "keys"
            if name == "typing.cast" and len(t[2]) == 2:
                return self.ktype(t[2][1], fi, used, depth + 1)
            if name in ("zip",):
                return ("tuple", [self._elem(self.ktype(a, fi, used, depth + 1))
                                  for a in t[2]])
            if name == "enumerate" and t[2]:
                return ("tuple", [None, self._elem(self.ktype(t[2][0], fi, used,
                                                                 depth + 1))])
            callee = self.repo.functions.get(name)
            if callee is not None and callee.qualname in self.generators:
                return self.generators[callee.qualname]
            if callee is not None and callee.qualname in self.fn_returns:
                return self.fn_returns[callee.qualname]
            if name in ("jax.lax.map",) and len(t[2]) >= 2:
                f = t[2][0]
                xs = self.ktype(t[2][1], fi, used, depth + 1)
                if f[0] == "lambda" and xs in ("key", "keys"):
                    inner_used = set(used) | {n(p) for p in f[1]}
                    body = self.ktype(f[2], fi, inner_used, depth + 1)
                    if body in ("key", "keys"):
                        return "keys"
                return None
            if t in used:
                return "key"
            return None
        if tag == "a":
            if t[1] == n("self") and fi.cls is not None:
                for cc in self.repo.mro(fi.cls):
                    ty = self.field_types.get((cc.qualname, t[2]))
                    if ty:
                        return ty
            if t in used:
                return "key"
            return None
        if tag == "proj":
            base = self.ktype(t[1], fi, used, depth + 1)
            if isinstance(base, tuple):
                i = t[2]
                if isinstance(i, int) and i < len(base[1]):
                    return base[1][i]
                return None
            if base == "keys":
                return "key" if isinstance(t[2], int) else "keys"
            return None
        if tag == "s":
            base = self.ktype(t[1], fi, used, depth + 1)
            if base in ("keys", "key"):
                idx = t[2]
                parts = idx[1] if idx[0] == "tuple" else (idx,)
                partial = any(p[0] == "slice" and (p[1] != c(None) or p[2] != c(None))
                              for p in parts)
                if base == "keys":
                    return "keys" if partial else "key"
                return "key"
            if t in used:
                return "key"
            return None
        if tag == "iter":
            base = self.ktype(t[1], fi, used, depth + 1)
            if isinstance(base, tuple):
                return base
            return self._elem(base)
        if tag in ("phi", "ifexp"):
            a = self.ktype(t[2], fi, used, depth + 1)
            b = self.ktype(t[3], fi, used, depth + 1)
            return a or b
        if tag == "loop":
            return self.ktype(t[2], fi, used, depth + 1)
        return None

    @staticmethod
    def _elem(ty):
        if ty == "keys":
            return "key"
        if ty == "key":
            return "key"  # an array of per-chain keys iterated over chains
        return None

    # ---------------------------------------------------------------- passes

    def _is_fresh(self, fi: FunctionInfo):
        def pred(t):
            f = t[1]
            if f[0] == "a" and f[1] == n("self") and fi.cls is not None:
                m = self.repo.lookup_method(fi.cls, f[2])
                return m is not None and m.qualname in self.generators
            return False
        return pred

    def _used_as_key(self, res) -> set:
        used = set()
        for t, node, cond in res.calls:
            tt = t[2] if t[0] == "fresh" else t
            name = fn_name(tt[1]) or ""
            if name.startswith("jax.random.") and name not in SOURCES_KEY | {"jax.random.key_data"}:
                k = kw(tt, "key", 0)
                if k is not None:
                    used.add(k)
            elif tt[1][0] == "a" and tt[1][2] == "sample":
                k = kw(tt, "seed", 1)
                if k is not None and k != c(None):
                    used.add(k)
        return used

    def _has_caller(self, fi) -> bool:
        name = fi.name
        for mi in self.repo.modules.values():
            for x in ast.walk(mi.tree):
                if isinstance(x, ast.Call):
                    f = x.func
                    if (isinstance(f, ast.Name) and f.id == name) or (
                            isinstance(f, ast.Attribute) and f.attr == name):
                        return True
        return False

    def run(self):
        fns = self.functions()
        # annotations
        for fi in fns:
            for p in fi.params():
                p_ = p.lstrip("*")
                if self._ann_is_key(fi, p_) or p_ == "prng_key":
                    self.param_types[(fi.qualname, p_)] = "key"
        # fixpoint over generators, fields and call-site bindings
        for _round in range(4):
            changed = False
            for fi in fns:
                res = evaluate(self.repo, fi, fresh=self._is_fresh(fi))
                self._results[fi.qualname] = res
                used = self._used_as_key(res)
                for u in used:
                    if u[0] == "n" and (fi.qualname, u[1]) not in self.param_types \
                            and u[1] in [p.lstrip("*") for p in fi.params()]:
                        self.param_types[(fi.qualname, u[1])] = "key"
                        changed = True
                # fields of self that receive key-typed terms
                if fi.cls is not None:
                    for loc, val, node, cond in res.stores:
                        if loc[0] == "a" and loc[1] == n("self"):
                            ty = self.ktype(val, fi, used)
                            if ty in ("key", "keys") and \
                                    (fi.cls.qualname, loc[2]) not in self.field_types:
                                self.field_types[(fi.cls.qualname, loc[2])] = "key"
                                changed = True
                # generator methods: return a key derived from splitting a key field
                rt = res.ret()
                if rt is not None and not isinstance(fi.node, ast.Lambda):
                    ty = self.ktype(rt, fi, used)
                    if ty in ("key", "keys") and fi.cls is not None and self._is_generator(
                            fi, res, used):
                        if self.generators.get(fi.qualname) != ty:
                            self.generators[fi.qualname] = ty
                            changed = True
                    elif ty in ("key", "keys") and fi.cls is None and fi.parent is None:
                        if self.fn_returns.get(fi.qualname) != ty:
                            self.fn_returns[fi.qualname] = ty
                            changed = True
                # call-site bindings
                for t, node, cond in res.calls:
                    tt = t[2] if t[0] == "fresh" else t
                    changed |= self._bind_call(fi, tt, used)
            if not changed:
                break
        # final evaluation with the complete generator table, then the rules
        for fi in fns:
            res = evaluate(self.repo, fi, fresh=self._is_fresh(fi))
            self._check_function(fi, res)
        self.report.generators = dict(self.generators)
        return self.report

    def _is_generator(self, fi, res, used) -> bool:
        """Returns a key obtained by splitting a key-typed field of self (directly or
        through another generator)."""
        rt = res.ret()
        for x in subterms(rt):
            if x[0] == "fresh":
                return True
            if x[0] == "call":
                for a in list(x[2]) + [v for _, v in x[3]]:
                    if a[0] == "a" and a[1] == n("self") and self.ktype(a, fi, used):
                        return True
        return False

    def _bind_call(self, fi, t, used) -> bool:
        changed = False
        name = fn_name(t[1]) or ""
        f = t[1]

        def set_param(callee: FunctionInfo, p: str, ty):
            nonlocal changed
            if ty in ("key", "keys") and (callee.qualname, p) not in self.param_types:
                self.param_types[(callee.qualname, p)] = ty
                changed = True

        def callee_of(ft):
            if ft[0] == "fn":
                return self.repo.functions.get(ft[1])
            if ft[0] == "g":
                f_ = self.repo.functions.get(ft[1])
                if f_ is None and ft[1] in self.repo.classes:
                    # constructor call: bind to __init__ (its `self` is skipped below)
                    f_ = self.repo.lookup_method(self.repo.classes[ft[1]], "__init__")
                return f_
            if ft[0] == "a" and ft[1] == n("self") and fi.cls is not None:
                return self.repo.lookup_method(fi.cls, ft[2])
            return None

        if name in HIGHER:
            kwname, pos = HIGHER[name]
            fterm = kw(t, kwname, pos)
            callee = callee_of(fterm) if fterm else None
            if callee is not None:
                ps = [p for p in callee.params() if p not in ("self",)]
                if name == "jax.lax.scan":
                    xs = kw(t, "xs", 2)
                    init = kw(t, "init", 1)
                    if len(ps) > 1 and xs is not None:
                        set_param(callee, ps[1], self._elem(self.ktype(xs, fi, used)))
                    if ps and init is not None:
                        set_param(callee, ps[0], self.ktype(init, fi, used))
                elif name == "jax.lax.map":
                    xs = kw(t, "xs", 1)
                    if ps and xs is not None:
                        set_param(callee, ps[0], self._elem(self.ktype(xs, fi, used)))
            return changed
        # vmap(f, ...)(args)  /  jit(f)(args)
        if f[0] == "call":
            inner = unwrap_callable(f)
            callee = callee_of(inner) if inner != f else None
            if callee is not None:
                ps = [p for p in callee.params() if p != "self"]
                for p, a in zip(ps, t[2]):
                    ty = self.ktype(a, fi, used)
                    set_param(callee, p, "key" if ty in ("key", "keys") else None)
            return changed
        callee = callee_of(f)
        if callee is not None and not isinstance(callee.node, ast.Lambda):
            ps = [p for p in callee.params() if p not in ("self", "cls")]
            for p, a in zip(ps, t[2]):
                set_param(callee, p.lstrip("*"), self.ktype(a, fi, used))
            for k, a in t[3]:
                if k in ps:
                    set_param(callee, k, self.ktype(a, fi, used))
        return changed

    # ---------------------------------------------------------------- rules

    def _key_args(self, t, fi, used):
        """Key-typed terms passed (directly or inside literal containers) to call t."""
        out = []

        def scan(a):
            ty = self.ktype(a, fi, used)
            if ty in ("key", "keys"):
                out.append(a)
                return
            if a[0] in ("tuple", "list", "set"):
                for x in a[1]:
                    scan(x)
            elif a[0] == "dict":
                for _, v in a[1]:
                    scan(v)
            elif a[0] == "star":
                scan(a[1])

        for a in t[2]:
            scan(a)
        for _, v in t[3]:
            scan(v)
        return out

    def _root(self, k):
        """(root split/array term, selector) for pieces of a key array."""
        if k[0] == "proj":
            return k[1], ("proj", k[2])
        if k[0] == "s":
            return k[1], ("idx", k[2])
        return k, None

    @staticmethod
    def _disjoint(sel1, sel2) -> bool | None:
        """True/False when decidable for constant selectors, None otherwise."""
        if sel1 is None or sel2 is None:
            return False  # whole array vs. piece: overlap
        if sel1[0] == "proj" and sel2[0] == "proj":
            a, b = sel1[1], sel2[1]
            if isinstance(a, int) and isinstance(b, int):
                return a != b
            if isinstance(a, str) and isinstance(b, int):
                return b < int(a.rstrip(":"))
            if isinstance(b, str) and isinstance(a, int):
                return a < int(b.rstrip(":"))
            return None
        if sel1[0] == "idx" and sel2[0] == "idx":
            i1 = sel1[1][1] if sel1[1][0] == "tuple" else (sel1[1],)
            i2 = sel2[1][1] if sel2[1][0] == "tuple" else (sel2[1],)
            decided = None
            for p, q in zip(i1, i2):
                d = KeyAnalysis._axis_disjoint(p, q)
                if d is True:
                    return True
                if d is None:
                    decided = None
            return False if decided is not None else (False if all(
                KeyAnalysis._axis_disjoint(p, q) is False for p, q in zip(i1, i2)) else None)
        return None

    @staticmethod
    def _axis_disjoint(p, q):
        def rng(x):
            if x[0] == "c" and isinstance(x[1], int) and x[1] >= 0:
                return (x[1], x[1] + 1)
            if x[0] == "slice" and x[3] == c(None):
                lo = 0 if x[1] == c(None) else (x[1][1] if x[1][0] == "c" else None)
                hi = float("inf") if x[2] == c(None) else (x[2][1] if x[2][0] == "c" else None)
                if lo is None or hi is None or not isinstance(lo, int) or lo < 0 or (
                        hi != float("inf") and (not isinstance(hi, int) or hi < 0)):
                    return None
                return (lo, hi)
            return None
        a, b = rng(p), rng(q)
        if a is None or b is None:
            return None
        return a[1] <= b[0] or b[1] <= a[0]

    def _check_function(self, fi: FunctionInfo, res) -> None:
        used = self._used_as_key(res)
        uses: dict = {}  # key term -> list of (kind, call term, node, cond)
        dupl = []
        inlined = {x[2] for x in getattr(res, "inlined", [])}
        for t, node, cond in res.calls:
            tt = t[2] if t[0] == "fresh" else t
            name = fn_name(tt[1]) or ""
            if name in NONCONSUMING:
                continue
            if tt in inlined or t in inlined:
                # a helper that was read through: its own calls are in this list
                continue
            ks = self._key_args(tt, fi, used)
            if name in DUPLICATORS and ks:
                dupl.append((tt, node))
            if name in ("jax.numpy.stack", "jax.numpy.array", "jax.numpy.asarray",
                        "jax.numpy.concatenate") and len(ks) != len(set(ks)):
                dupl.append((tt, node))
            for k in ks:
                uses.setdefault(k, []).append(("consume", tt, node, cond))
        for loc, val, node, cond in res.stores:
            if self.ktype(val, fi, used) in ("key", "keys"):
                uses.setdefault(val, []).append(("store", loc, node, cond))
        for cond, rt, node in res.returns:
            for k in self._returned_keys(rt, fi, used):
                uses.setdefault(k, []).append(("return", rt, node, cond))
        if not uses:
            return
        self.report.functions_with_keys.append(fi.qualname)
        self.report.key_values += len(uses)
        nsites = sum(1 for us in uses.values() for u in us if u[0] == "consume")
        self.report.consumption_sites += nsites

        def add(rule, key, what, node):
            exc = self.exceptions.get((fi.qualname, rule))
            if exc is not None:
                if fi.qualname + ":" + rule not in self.report.exceptions_used:
                    self.report.exceptions_used.append(fi.qualname + ":" + rule)
                return
            self.report.findings.append(KeyFinding(rule, fi, pretty(key)[:120], what, node))

        for tt, node in dupl:
            add("K5", tt, f"key duplicated by {pretty(tt)[:100]}", node)

        # K1: same value consumed twice on one path
        for k, us in uses.items():
            cons = [u for u in us if u[0] in ("consume",)]
            for i in range(len(cons)):
                for j in range(i + 1, len(cons)):
                    if not exclusive(cons[i][3], cons[j][3]):
                        add("K1", k, f"key {pretty(k)[:80]} is consumed twice on one path: "
                                     f"{pretty(cons[i][1])[:80]} and {pretty(cons[j][1])[:80]}",
                            cons[j][2])
        # K3: pieces of one key array must be disjoint
        roots: dict = {}
        for k, us in uses.items():
            root, sel = self._root(k)
            if self.ktype(root, fi, used) == "keys" or sel is None and \
                    self.ktype(k, fi, used) == "keys":
                roots.setdefault(root, []).append((k, sel, us))
        for root, pieces in roots.items():
            for i in range(len(pieces)):
                for j in range(i + 1, len(pieces)):
                    k1, s1, u1 = pieces[i]
                    k2, s2, u2 = pieces[j]
                    if k1 == k2:
                        continue
                    if all(exclusive(a[3], b[3]) for a in u1 for b in u2):
                        continue
                    # iteration-dependent selectors select distinct pieces per iteration
                    if any(x[0] == "iter" for s in (s1, s2) if s for x in subterms(
                            s[1] if isinstance(s[1], tuple) else ())):
                        continue
                    d = self._disjoint(s1, s2)
                    if d is not True:
                        add("K3", root, f"pieces {pretty(k1)[:60]} and {pretty(k2)[:60]} of one "
                                        f"split result are not provably disjoint",
                            u2[0][2])
        # K2: loop consumption of loop-independent keys
        for k, us in uses.items():
            for kind, tt, node, cond in us:
                if kind != "consume":
                    continue
                marks = in_loop_markers(cond)
                if not marks:
                    continue
                if self._loop_dependent(k, res, cond, fi, used):
                    continue
                add("K2", k, f"key {pretty(k)[:80]} defined outside the loop is consumed in "
                             f"every iteration by {pretty(tt)[:80]}", node)
        # K4: persistent locations
        self._check_persistent(fi, res, uses, used, add)

    def _returned_keys(self, rt, fi, used):
        out = []
        ty = self.ktype(rt, fi, used)
        if ty in ("key", "keys"):
            out.append(rt)
        elif rt is not None and rt[0] in ("tuple", "list"):
            for x in rt[1]:
                out.extend(self._returned_keys(x, fi, used))
        return out

    def _loop_dependent(self, k, res, cond, fi, used) -> bool:
        for x in subterms(k):
            if x[0] == "iter":
                return True
            if x[0] == "fresh":
                # generated inside a loop?
                for t, node, c2 in res.calls:
                    if t == x and in_loop_markers(c2):
                        return True
            if x[0] == "call" and (fn_name(x[1]) or "") in SOURCES_KEYS | SOURCES_KEY:
                # key, sub = split(key) inside the loop: the split argument is the
                # pre-iteration value of a variable that the loop re-binds from the result
                arg = x[2][0] if x[2] else None
                for lp in res.loops:
                    for var, after in lp["carried"].items():
                        if after is None or lp["before"].get(var) != arg:
                            continue
                        if any(y == x for y in subterms(after)):
                            return True
        return False

    def _check_persistent(self, fi, res, uses, used, add):
        carry_param = self._carry_param(fi)
        for k, us in uses.items():
            persistent = None
            if k[0] == "a" and k[1] == n("self"):
                persistent = k
            elif carry_param is not None and k[0] in ("s", "a") and k[1] == n(carry_param):
                persistent = k
            if persistent is None:
                continue
            cons = [u for u in us if u[0] == "consume"]
            if not cons:
                continue
            for kind, tt, node, cond in cons:
                # a store to the same location with a value derived from this consumption
                ok = False
                for loc, val, snode, scond in res.stores:
                    if loc == persistent and any(y == tt for y in subterms(val)) \
                            and {(a, p) for a, p in scond} <= {(a, p) for a, p in cond}:
                        ok = True
                if not ok:
                    add("K4", k, f"the key held in {pretty(persistent)} is consumed by "
                                 f"{pretty(tt)[:80]} but the location is not overwritten from "
                                 f"the result, so the same key is used again on the next "
                                 f"call / iteration", node)

    def _carry_param(self, fi: FunctionInfo) -> str | None:
        """Name of the loop-carry parameter if fi is the body of a while/fori loop."""
        par = fi.parent
        if par is None:
            return None
        res = self._results.get(par.qualname) or evaluate(self.repo, par)
        for t, node, cond in res.calls:
            name = fn_name(t[1]) or ""
            if name in ("jax.lax.while_loop", "jax.lax.fori_loop"):
                kwname, pos = HIGHER[name]
                ft = kw(t, kwname, pos)
                if ft is not None and ft[0] == "fn" and ft[1] == fi.qualname:
                    ps = fi.params()
                    idx = 0 if name == "jax.lax.while_loop" else 1
                    return ps[idx] if len(ps) > idx else None
        return None
