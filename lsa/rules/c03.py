"""
C03 -- the state-passing model interface is pure and equivalent to direct assignment.
"""

from __future__ import annotations

import ast

from ..core.cfg import CFG, ENTRY, EXIT
from ..core.terms import (c, evaluate, fn_name, kw, n, pretty, subterms)
from .common import is_call, method, short

SELF = n("self")
MODEL = "liesel.model.model.Model"
MUTATING_METHODS = {"update", "pop", "popitem", "clear", "setdefault", "append", "extend",
                    "insert", "remove", "sort", "reverse", "__setitem__", "__delitem__",
                    "add", "discard"}


def interface_classes(repo):
    """Classes implementing the ModelInterface trio."""
    out = []
    for q, ci in sorted(repo.classes.items()):
        if q == "liesel.goose.types.ModelInterface":
            continue
        if all(ci.own_method(m) for m in ("update_state", "extract_position", "log_prob")):
            out.append(ci)
    return out


def rooted(t, roots) -> bool:
    """t is one of roots or an attribute / subscript chain starting at one of them."""
    while isinstance(t, tuple) and t:
        if t in roots:
            return True
        if t[0] in ("a", "s"):
            t = t[1]
        else:
            return False
    return False


def liesel_update_state_obligations(ctx, ci, rule="C03.R3"):
    """History independence of a Liesel-model interface's update_state."""
    repo = ctx.repo
    us = method(repo, ci, "update_state", own=True)
    res = evaluate(repo, us)
    M = ("a", SELF, "_model")
    ps = [p for p in us.params() if p != "self"]
    pos_p, ms_p = n(ps[0]), n(ps[1])
    # order of the effects on the private model
    events = []  # (kind, evaluation order, node, cond)
    for i_s, (loc, val, node, cond) in enumerate(res.stores):
        when = res.stores.ticks[i_s]
        if any(x == M for x in subterms(loc)):
            kind = "other_store"
            if loc == ("a", M, "state"):
                kind = "state_overwrite" if val == ms_p else "state_store_other"
            elif loc[0] == "a" and loc[2] == "_outdated":
                kind = "clear_flag" if val == c(False) else "set_flag"
            elif loc[0] == "a" and loc[2] == "value":
                kind = "assign"
            elif loc[0] == "a" and loc[2] == "auto_update":
                kind = "auto_update"
            events.append((kind, when, node, cond, loc, val))
    for i_c, (t, node, cond) in enumerate(res.calls):
        if t[0] == "call" and t[1][0] == "a" and t[1][1] == M and t[1][2] == "update":
            events.append(("update_full" if not t[2] and not t[3] else "update_targeted",
                           res.calls.ticks[i_c], node, cond, t, None))
    events.sort(key=lambda e: e[1])
    kinds = [e[0] for e in events]
    ow = [e for e in events if e[0] == "state_overwrite"]
    ok = len(ow) == 1 and not ow[0][3] and events and events[0][0] == "state_overwrite"
    # nothing reads self._model before the overwrite
    read_through = {x[2] for x in getattr(res, "inlined", [])}
    first_use_line = min([res.calls.ticks[i_c] for i_c, (t, node, _) in enumerate(res.calls)
                          if t not in read_through and any(x == M for x in subterms(t))]
                         + [10 ** 12])
    ok = ok and (not ow or ow[0][1] <= first_use_line)
    ctx.ob(rule, us, "the whole state of the private model is overwritten with the given "
                     "model_state before anything else touches the model (no dependence on "
                     "earlier calls)", ok, detail=f"effects in order: {kinds}",
           stmt=f"overwrite order {kinds[:3]}")
    cl = [e for e in events if e[0] == "clear_flag"]
    asg = [e for e in events if e[0] == "assign"]
    ok_clear = False
    if len(cl) == 1 and asg:
        loc = cl[0][4]
        it = loc[1]
        ok_clear = (it == ("iter", ("call", ("a", ("a", M, "nodes"), "values"), (), ()))
                    and all(a[0] == "inloop" for a, _ in cl[0][3])
                    and cl[0][1] < min(a[1] for a in asg))
    ctx.ob(rule, us, "the outdated flag of every node is cleared before the first position "
                     "entry is assigned", ok_clear, detail=f"effects in order: {kinds}",
           stmt="flag clearing")
    ok_asg = False
    detail = ""
    if len(asg) == 2:
        it = ("call", ("a", pos_p, "items"), (), ())
        key_t, val_t = ("proj", ("iter", it), 0), ("proj", ("iter", it), 1)
        a1, a2 = asg
        first_nodes = (a1[4] == ("a", ("s", ("a", M, "nodes"), key_t), "value")
                       and a1[5] == val_t)
        second_vars = (a2[4] == ("a", ("s", ("a", M, "vars"), key_t), "value")
                       and a2[5] == val_t
                       and any(a[0] == "except" and "KeyError" in pretty(a) for a, _ in a2[3]))
        ok_asg = first_nodes and second_vars
        detail = f"{short(a1[4])}; {short(a2[4])}"
    ctx.ob(rule, us, "every position entry is assigned: by node name first, by variable name "
                     "on KeyError", ok_asg, detail=detail or f"{len(asg)} assignment sites",
           stmt="position assignment")
    upd = [e for e in events if e[0].startswith("update")]
    ok_upd = (len(upd) == 1 and upd[0][0] == "update_full" and not upd[0][3]
              and asg and upd[0][1] > max(a[1] for a in asg))
    ctx.ob(rule, us, "a FULL update of the private model follows the assignments on every "
                     "path (every derived quantity in the returned state is recomputed)",
           ok_upd, detail=f"{[(e[0], short(e[4])) for e in upd]}",
           stmt="final update " + str([pretty(e[4])[:80] for e in upd]))
    # (switching auto_update off while the entries are assigned is a harmless
    # optimisation as long as the full update follows, so it is not counted)
    other = [e for e in events if e[0] in ("other_store", "state_store_other", "set_flag")]
    ctx.ob(rule, us, "no other write to the private model", not other,
           detail=str([pretty(e[4]) for e in other]), stmt="other writes")
    rt = res.ret()
    ctx.ob(rule, us, "the freshly built state of the private model is returned (not the "
                     "argument)", rt == ("a", M, "state") and len(res.returns) == 1,
           detail=short(rt or ()), stmt="return " + pretty(rt or ())[:80])
    return us


def check(ctx):
    repo = ctx.repo
    ctx.rule("R1", "interfaces and Gibbs factories work on a private deep copy of the "
                   "user's model; _copy_computational_model restores the user's state on "
                   "every path.")
    ctx.rule("R2", "update_state / extract_position / log_prob never mutate their "
                   "arguments (effect / alias analysis).")
    ctx.rule("R3", "update_state overwrites the whole private state first, clears all "
                   "flags, assigns every position entry (node name, then variable name), "
                   "runs a full update and returns the fresh state.")
    ctx.rule("R4", "extract_position resolves node name first, variable name second; the "
                   "deprecated GooseModel is identical to LieselInterface; log_prob reads "
                   "the model log-probability node.")
    ctx.undecided("equality of eager / JIT / vmap results", "numeric equality with direct "
                  "assignment on the model")

    # ------------------------------------------------------------------ R1
    mc = repo.cls(MODEL)
    ccm = method(repo, mc, "_copy_computational_model")
    cfg = CFG(ccm.node)
    rc = evaluate(repo, ccm)
    clears = [s for s in cfg.stmts if isinstance(s, ast.For)
              and "clear_state" in ast.unparse(s)]
    copies = [s for s in cfg.stmts if isinstance(s, ast.Assign)
              and "deepcopy(self)" in ast.unparse(s.value)]
    restores = [s for s in cfg.stmts if isinstance(s, ast.Assign)
                and ast.unparse(s.targets[0]) == "self.state"]
    backups = [s for s in cfg.stmts if isinstance(s, ast.Assign)
               and ast.unparse(s.value) == "self.state"]
    ok = (len(clears) == 1 and len(copies) == 1 and len(restores) == 1 and len(backups) == 1
          and cfg.dominates(backups[0], clears[0]) and cfg.dominates(clears[0], copies[0])
          and cfg.must_pass_through(clears[0], EXIT, restores)
          and ast.unparse(restores[0].value) == ast.unparse(backups[0].targets[0]))
    ctx.ob("C03.R1", ccm, "backup state -> clear all node states -> deepcopy -> restore the "
                          "backup on every path to the return", ok,
           detail=f"backup={len(backups)} clear={len(clears)} copy={len(copies)} "
                  f"restore={len(restores)}", stmt="copy protocol")
    rt = rc.ret()
    ctx.ob("C03.R1", ccm, "the deep copy (not self) is returned",
           rt is not None and is_call(rt, "copy.deepcopy") and rt[2] == (SELF,),
           detail=short(rt or ()))
    for qn in ("liesel.goose.interface.LieselInterface", "liesel.model.goose.GooseModel"):
        ci = repo.cls(qn)
        init = ci.own_method("__init__")
        stores_m = []
        if init is not None:
            ri = evaluate(repo, init)
            stores_m = [(val, node) for loc, val, node, cond in ri.stores
                        if loc == ("a", SELF, "_model") and not cond]
        ok = (len(stores_m) == 1 and stores_m[0][0][0] == "call"
              and stores_m[0][0][1][0] == "a"
              and stores_m[0][0][1][2] == "_copy_computational_model"
              and stores_m[0][0][1][1] == n("model"))
        ctx.ob("C03.R1", init or ci, "the interface takes a private copy of the model AT "
                                     "CONSTRUCTION (self._model = model._copy_computational_"
                                     "model()), never keeps the user's model or copies it "
                                     "lazily", ok,
               detail=str([short(v) for v, _ in stores_m]) or "no unconditional store to "
                                                              "self._model in __init__",
               stmt="stored model " + str([pretty(v)[:80] for v, _ in stores_m]))
    fd = repo.func("liesel.model.goose.finite_discrete_gibbs_kernel")
    rf = evaluate(repo, fd)
    inner = fd.nested("transition_fn")
    mv = rf.env.vars.get("model")
    ok = (mv is not None and mv[0] == "call" and mv[1][0] == "a"
          and mv[1][2] == "_copy_computational_model" and mv[1][1] == n("model"))
    ctx.ob("C03.R1", fd, "the finite-discrete Gibbs factory closes over a private copy of "
                         "the model", ok, detail=short(mv or ()))

    # ------------------------------------------------------------------ R2
    nm = 0
    for ci in interface_classes(repo):
        for mname in ("update_state", "extract_position", "log_prob"):
            fi = method(repo, ci, mname, own=True)
            nm += 1
            r = evaluate(repo, fi)
            roots = {n(p) for p in fi.params() if p != "self"}
            bad = []
            for loc, val, node, cond in r.stores:
                if rooted(loc, roots):
                    bad.append(f"store to {pretty(loc)}")
            for t, node, cond in r.calls:
                f = t[1]
                if f[0] == "a" and f[2] in MUTATING_METHODS and rooted(f[1], roots):
                    bad.append(f"{pretty(f)}(...)")
                if fn_name(f) in ("setattr", "delattr") and t[2] and rooted(t[2][0], roots):
                    bad.append(f"{fn_name(f)}({pretty(t[2][0])}, ...)")
            for e in r.effects:
                if e.term[0] == "del" and rooted(e.term[1], roots):
                    bad.append(f"del {pretty(e.term[1])}")
            ctx.ob("C03.R2", fi, "the method does not mutate its arguments (no store, del, "
                                 "setattr or mutating method call on model_state / position)",
                   not bad, detail="; ".join(bad), stmt="mutation " + "; ".join(bad))
    ctx.require_min("interface methods", nm, 15)
    # put/get law for the plain-state interfaces: the result is built from a fresh value
    for ci in interface_classes(repo):
        if ci.own_method("__init__") and any(
                loc == ("a", SELF, "_model")
                for loc, _, _, _ in evaluate(repo, ci.own_method("__init__")).stores):
            continue
        us = method(repo, ci, "update_state", own=True)
        rt = evaluate(repo, us).ret()
        ps = [p for p in us.params() if p != "self"]
        pos_p, ms_p = n(ps[0]), n(ps[1])
        fresh = False
        if rt is not None:
            if rt[0] == "op" and rt[1] == "|" and rt[2] == ms_p and rt[3] == pos_p:
                fresh = True
            if rt == ("dict", ((("star2",), ms_p), (("star2",), pos_p))):
                fresh = True
            if rt[0] == "call" and rt[1] == ("a", ms_p, "_replace"):
                fresh = True
            base = rt
            while base[0] in ("loop", "carried", "phi", "mut"):
                base = base[2] if base[0] != "mut" else base[1]
            if is_call(base, "copy.copy", "copy.deepcopy") and base[2] == (ms_p,):
                fresh = True
            if base[0] == "call" and base[1] == ("a", ms_p, "copy"):
                fresh = True
        ctx.ob("C03.R2", us, "update_state returns a new state built from the input state "
                             "with the position entries replaced (state | position, "
                             "_replace, or a copy that is then filled)", fresh,
               unproven=True, detail=short(rt or ()), stmt="result " + pretty(rt or ())[:100])

    # ------------------------------------------------------------------ R3 / R4
    li = repo.cls("liesel.goose.interface.LieselInterface")
    gm = repo.cls("liesel.model.goose.GooseModel")
    for ci in (li, gm):
        liesel_update_state_obligations(ctx, ci)
        ep = method(repo, ci, "extract_position", own=True)
        re_ = evaluate(repo, ep)
        ps = [p for p in ep.params() if p != "self"]
        keys_p, ms_p = n(ps[0]), n(ps[1])
        key_t = ("iter", keys_p)
        sts = [(loc, val, cond) for loc, val, _, cond in re_.stores if loc[0] == "s"
               and loc[2] == key_t]
        ok = False
        want1 = ("a", ("s", ms_p, key_t), "value")
        want2 = ("a", ("s", ms_p, ("a", ("a", ("s", ("a", ("a", SELF, "_model"), "vars"), key_t),
                                         "value_node"), "name")), "value")
        if len(sts) == 2:
            (l1, v1, c1), (l2, v2, c2) = sts
            ok = (v1 == want1 and v2 == want2
                  and any(a[0] == "except" and "KeyError" in pretty(a) for a, _ in c2))
        elif not sts:
            # ... or as a comprehension over the keys (normal form of the filling loop)
            comps = [x for x in subterms(re_.ret() or ()) if x[0] == "comp" and x[1] == "dict"]
            if len(comps) == 1 and comps[0][2][0] == key_t and comps[0][2][1][0] == "phi":
                _, cnd, on_exc, normal = comps[0][2][1]
                ok = (cnd[0] == "except" and "KeyError" in pretty(cnd) and normal == want1
                      and on_exc == want2 and comps[0][3][0][1] == keys_p
                      and not comps[0][3][0][2])
        elif len(sts) == 1 and sts[0][1][0] == "phi":
            # the same lookup written as a function that returns from `try` / `except`
            _, cnd, on_exc, normal = sts[0][1]
            ok = (cnd[0] == "except" and "KeyError" in pretty(cnd) and normal == want1
                  and on_exc == want2)
        ctx.ob("C03.R4", ep, "extract_position reads model_state[key] (node name) first and "
                             "falls back to the value node of the variable of that name",
               ok, detail=str([short(v) for _, v, _ in sts]), stmt="extract order")
        from .common import single_pass_obligation
        single_pass_obligation(ctx, "C03.R4", ep, ep.params()[1], "LieselInterface.extract_position")
        lp = method(repo, ci, "log_prob", own=True)
        rl = evaluate(repo, lp).ret()
        ctx.ob("C03.R4", lp, "log_prob reads the value of the model's log-probability node "
                             "from the state",
               rl == ("a", ("s", n(lp.params()[1]), c("_model_log_prob")), "value"),
               detail=short(rl or ()), stmt="log_prob " + pretty(rl or ())[:80])
    # sibling agreement: the deprecated alias GooseModel is held to exactly the same
    # obligations as LieselInterface by the loop above (no textual comparison, which
    # would alarm on a behaviour-preserving rename in only one of them)
    # the node name written by the builder is the one read here
    gb = repo.func("liesel.model.model.GraphBuilder._add_model_log_prob_node")
    names = {x.value for x in ast.walk(gb.node) if isinstance(x, ast.Constant)
             and isinstance(x.value, str) and x.value.startswith("_model_")}
    ctx.ob("C03.R4", gb, "the builder names the log-probability node '_model_log_prob'",
           names == {"_model_log_prob"}, detail=str(names))

    # ------------------------------------------------------------------ R6 plain containers
    ctx.rule("R6", "dict / dataclass / named-tuple interfaces: extract reads exactly the "
                   "requested keys from the given state; update returns a NEW state equal to "
                   "the input with exactly the position's entries replaced and never writes "
                   "the input; log_prob is the user's function of the given state.")
    MS_, POS_, KEYS_ = n("model_state"), n("position"), n("position_keys")
    each_key = ("iter", KEYS_)

    def strip_position(t):
        return t[2][0] if t is not None and is_call(t, "liesel.goose.types.Position") \
            and len(t[2]) == 1 else t
    n_simple = 0
    for cname, read in (("DictInterface", ("s", MS_, each_key)),
                        ("DataclassInterface", ("call", n("getattr"), (MS_, each_key), ())),
                        ("NamedTupleInterface", ("call", n("getattr"), (MS_, each_key), ()))):
        ci = repo.cls(f"liesel.goose.interface.{cname}")
        n_simple += 1
        ex = method(repo, ci, "extract_position", own=True)
        rt_e = strip_position(evaluate(repo, ex).ret())
        if rt_e is not None:
            # reading the keys from a materialised copy (list(keys)) is the same read
            from ..core.terms import substitute
            rt_e = substitute(rt_e, {("call", n(f_), (KEYS_,), ()): KEYS_ for f_ in ("list", "tuple")})
        ok_e = (rt_e is not None and rt_e[0] == "comp" and rt_e[1] == "dict"
                and rt_e[2] == (each_key, read) and len(rt_e[3]) == 1
                and rt_e[3][0][1] == KEYS_ and not rt_e[3][0][2])
        ctx.ob("C03.R6", ex, f"{cname}.extract_position = {{key: state's entry for key, for "
                             f"every requested key}}", ok_e, detail=short(rt_e or (), 160),
               stmt=f"{cname} extract")
        from .common import single_pass_obligation
        single_pass_obligation(ctx, "C03.R6", ex, ex.params()[1], f"{cname}.extract_position")
        up = method(repo, ci, "update_state", own=True)
        ru = evaluate(repo, up)
        rt_u = ru.ret()
        writes_in = [loc for loc, _, _, _ in ru.stores if MS_ in set(subterms(loc))] + [
            t for t, _, _ in ru.calls if t[0] == "call" and (
                (t[1] == n("setattr") and t[2][:1] == (MS_,))
                or (t[1][0] == "a" and t[1][1] == MS_ and t[1][2] in (
                    "update", "__setitem__", "pop", "clear", "setdefault", "__setattr__")))]
        if cname == "DictInterface":
            fresh_ms = (("call", ("a", MS_, "copy"), (), ()), ("call", n("dict"), (MS_,), ()),
                        ("call", ("g", "copy.copy"), (MS_,), ()))
            ok_u = rt_u in (("op", "|", MS_, POS_),
                            ("dict", ((("star2",), MS_), (("star2",), POS_)))) or (
                rt_u is not None and rt_u[0] == "mut" and rt_u[1] in fresh_ms
                and rt_u[2] == "update" and rt_u[3] == (POS_,) and not rt_u[4])
        elif cname == "NamedTupleInterface":
            ok_u = rt_u == ("call", ("a", MS_, "_replace"), (), (("**", POS_),))
        else:
            cp = ("call", ("g", "copy.copy"), (MS_,), ())
            item = ("iter", ("call", ("a", POS_, "items"), (), ()))
            sets = [(t, cond) for t, _, cond in ru.calls if t[0] == "call" and t[1] == n("setattr")]
            want = ("call", n("setattr"), (cp, ("proj", item, 0), ("proj", item, 1)), ())
            has = ("call", n("hasattr"), (cp, ("proj", item, 0)), ())
            ok_u = (rt_u == cp and len(sets) == 1 and sets[0][0] == want
                    and all(a[0] == "inloop" or (a == has and pol) for a, pol in sets[0][1])
                    and all(any(a == has and not pol for a, pol in rc) for rc, _, _ in ru.raises))
        ctx.ob("C03.R6", up, f"{cname}.update_state returns a new state: the input with "
                             f"exactly the position's entries replaced (position wins)", ok_u,
               detail=short(rt_u or (), 160), stmt=f"{cname} update")
        ctx.ob("C03.R6", up, f"{cname}.update_state never writes its input state",
               not writes_in, detail="; ".join(short(w, 60) for w in writes_in[:2]),
               stmt=f"{cname} writes input")
        lp_ = method(repo, ci, "log_prob", own=True)
        ctx.ob("C03.R6", lp_, f"{cname}.log_prob = the user's function applied to the given "
                              f"state", evaluate(repo, lp_).ret() == (
                                  "call", ("a", SELF, "_log_prob_fn"), (MS_,), ()),
               stmt=f"{cname} log_prob")
    ctx.require_min("plain-container interfaces", n_simple, 3)

    # ---- shared mechanisms: the neighbour's rules run as obligations of this property
    ctx.include("C01", "C03.R5", only=None)
    ctx.rule("R5", "shared mechanisms, run as obligations of this property: update_state relies on the model's cache coherence (C01): no value survives from an earlier call.")


def _norm_body(fnode):
    body = [s for s in fnode.body if not (isinstance(s, ast.Expr) and isinstance(
        s.value, ast.Constant) and isinstance(s.value.value, str))]
    return [ast.dump(s, annotate_fields=False, include_attributes=False) for s in body]
