"""
Equivalence driver for the C09 twin patches.

Run from the worktree root with PYTHONPATH pointing at the worktree:

    PYTHONPATH=$PWD /venv/bin/python _twin/<name>/equiv.py

Prints one line per experiment with a sha256 digest of all numerical results
(bytes of the arrays, so bit-level differences show up) and of the messages of
the exceptions that were provoked on purpose.
"""

import dataclasses
import hashlib
import logging
import warnings
from typing import NamedTuple

import jax
import jax.numpy as jnp
import numpy as np
import tensorflow_probability.substrates.jax.distributions as tfd

import liesel.goose as gs
import liesel.model as lsl
from liesel.goose.epoch import EpochConfig, EpochType
from liesel.goose.kernel_sequence import KernelSequence
from liesel.goose.mh import mh_step

warnings.filterwarnings("ignore")
logging.disable(logging.CRITICAL)


def digest(tree) -> str:
    h = hashlib.sha256()
    leaves, treedef = jax.tree_util.tree_flatten(tree)
    h.update(str(treedef).encode())
    for leaf in leaves:
        arr = np.asarray(leaf)
        h.update(str(arr.dtype).encode())
        h.update(str(arr.shape).encode())
        h.update(arr.tobytes())
    return h.hexdigest()[:24]


def report(name: str, tree) -> None:
    print(f"{name:45s} {digest(tree)}")


def report_exc(name: str, fn) -> None:
    try:
        fn()
    except Exception as e:  # noqa: BLE001
        print(f"{name:45s} {type(e).__name__}: {str(e)[:200]}")
    else:
        print(f"{name:45s} no exception")


# --------------------------------------------------------------------------------
# models
# --------------------------------------------------------------------------------


def liesel_model():
    key = jax.random.PRNGKey(7)
    xk, ek = jax.random.split(key)
    x = jax.random.normal(xk, (40,))
    yv = 1.0 + 0.5 * x + 0.7 * jax.random.normal(ek, (40,))

    b0 = lsl.param(0.0, lsl.Dist(tfd.Normal, loc=0.0, scale=10.0), name="b0")
    b1 = lsl.param(0.0, lsl.Dist(tfd.Normal, loc=0.0, scale=10.0), name="b1")
    log_sigma = lsl.param(
        0.0, lsl.Dist(tfd.Normal, loc=0.0, scale=3.0), name="log_sigma"
    )
    xobs = lsl.obs(x, name="x")
    mu = lsl.Var(lsl.Calc(lambda a, b, x: a + b * x, b0, b1, xobs), name="mu")
    sigma = lsl.Var(lsl.Calc(jnp.exp, log_sigma), name="sigma")
    y = lsl.obs(yv, lsl.Dist(tfd.Normal, loc=mu, scale=sigma), name="y")
    return lsl.GraphBuilder().add(y).build_model()


def dict_log_prob(state):
    lp = tfd.Normal(state["a"], jnp.exp(state["ls"])).log_prob(state["obs"]).sum()
    lp += tfd.Normal(0.0, 5.0).log_prob(state["a"])
    lp += tfd.Normal(0.0, 2.0).log_prob(state["ls"])
    lp += tfd.Normal(0.0, 1.0).log_prob(state["c"]).sum()
    return lp


def dict_state():
    return {
        "a": jnp.array(0.3),
        "ls": jnp.array(-0.2),
        "c": jnp.array([0.1, -0.4, 0.9]),
        "obs": jnp.linspace(-1.0, 2.0, 11),
    }


# --------------------------------------------------------------------------------
# engine runs
# --------------------------------------------------------------------------------


def run_engine(model_iface, init_state, kernels, track, seed, chains=2):
    builder = gs.EngineBuilder(seed=seed, num_chains=chains)
    builder.set_model(model_iface)
    builder.set_initial_values(init_state)
    for k in kernels:
        builder.add_kernel(k)
    builder.set_duration(warmup_duration=200, posterior_duration=60)
    builder.positions_included = list(track)
    builder.show_progress = False
    engine = builder.build()
    engine.sample_all_epochs()
    results = engine.get_results()
    samples = results.get_posterior_samples()
    infos = {}
    for name, ti in results.get_posterior_transition_infos().items():
        infos[name] = {
            "error_code": ti.error_code,
            "acceptance_prob": ti.acceptance_prob,
            "position_moved": ti.position_moved,
        }
    return samples, infos


def liesel_runs():
    model = liesel_model()

    def gibbs_b0(prng_key, model_state):
        # draws from a fixed normal around the current value of another block;
        # reads a derived quantity (sigma) from the state it is handed
        sig = model_state["sigma_value"].value
        b1 = model_state["b1_value"].value
        draw = 1.0 - 0.1 * b1 + 0.2 * sig * jax.random.normal(prng_key)
        return {"b0": draw}

    track = [
        "b0",
        "b1",
        "log_sigma",
        "mu",
        "sigma",
        "_model_log_prob",
        "_model_log_lik",
        "_model_log_prior",
    ]

    configs = {
        "rw+gibbs+nuts": lambda: [
            gs.RWKernel(["b1"]),
            gs.GibbsKernel(["b0"], gibbs_b0),
            gs.NUTSKernel(["log_sigma"]),
        ],
        "hmc+rw+rw": lambda: [
            gs.HMCKernel(["b0", "b1"]),
            gs.RWKernel(["log_sigma"], initial_step_size=5.0),
        ],
        "iwls+gibbs(order swapped)": lambda: [
            gs.GibbsKernel(["b0"], gibbs_b0),
            gs.IWLSKernel(["b1", "log_sigma"]),
        ],
        "rw huge step (mostly rejected)": lambda: [
            gs.RWKernel(["b0"], initial_step_size=1e3, da_gamma=1e-9),
            gs.RWKernel(["b1"], initial_step_size=1e-4, da_gamma=1e-9),
            gs.RWKernel(["log_sigma"]),
        ],
    }

    for name, mk in configs.items():
        for seed in (1, 2):
            samples, infos = run_engine(
                gs.LieselInterface(model), model.state, mk(), track, seed
            )
            report(f"liesel/{name}/seed{seed}/samples", samples)
            report(f"liesel/{name}/seed{seed}/infos", infos)

            # coherence of the derived quantities with the stored parameters
            mu = samples["b0"][..., None] + samples["b1"][..., None] * model.vars[
                "x"
            ].value
            ok = bool(
                jnp.allclose(mu, samples["mu"], atol=1e-5)
                and jnp.allclose(
                    jnp.exp(samples["log_sigma"]), samples["sigma"], atol=1e-5
                )
            )
            print(f"{'liesel/' + name + '/seed' + str(seed) + '/coherent':45s} {ok}")


def dict_runs():
    def gibbs_c(prng_key, model_state):
        return {"c": model_state["a"] + jax.random.normal(prng_key, (3,))}

    def proposal(key, model_state, step_size):
        ls = model_state["ls"]
        new = ls + step_size * jax.random.normal(key) + 0.05
        # deliberately asymmetric correction so log_correction matters
        return gs.MHProposal({"ls": new}, log_correction=0.1 * (ls - new))

    for seed in (3, 4):
        kernels = [
            gs.RWKernel(["a"]),
            gs.MHKernel(["ls"], proposal, da_tune_step_size=True),
            gs.GibbsKernel(["c"], gibbs_c),
        ]
        samples, infos = run_engine(
            gs.DictInterface(dict_log_prob),
            dict_state(),
            kernels,
            ["a", "ls", "c"],
            seed,
            chains=3,
        )
        report(f"dict/rw+mh+gibbs/seed{seed}/samples", samples)
        report(f"dict/rw+mh+gibbs/seed{seed}/infos", infos)


# --------------------------------------------------------------------------------
# direct calls: KernelSequence
# --------------------------------------------------------------------------------


def kernel_sequence_direct():
    iface = gs.DictInterface(dict_log_prob)

    def gibbs_c(prng_key, model_state):
        return {"c": model_state["a"] + jax.random.normal(prng_key, (3,))}

    def mk():
        ks = [
            gs.RWKernel(["a"]),
            gs.GibbsKernel(["c"], gibbs_c),
            gs.NUTSKernel(["ls"]),
        ]
        for i, k in enumerate(ks):
            k.set_model(iface)
            k.identifier = f"kernel_{i:02d}"
        return ks

    kernels = mk()
    kseq = KernelSequence(kernels)
    print(f"{'kseq/get_kernels is list':45s} {type(kseq.get_kernels()).__name__}")
    print(
        f"{'kseq/get_kernels same objects':45s} "
        f"{all(a is b for a, b in zip(kseq.get_kernels(), kernels))}"
    )
    print(
        f"{'kseq/get_kernels is a copy of the input':45s} "
        f"{kseq.get_kernels() is not kernels}"
    )
    print(
        f"{'kseq/get_kernels stable identity':45s} "
        f"{kseq.get_kernels() is kseq.get_kernels()}"
    )

    mstate = dict_state()
    key = jax.random.PRNGKey(11)
    kstates = kseq.init_states(key, mstate)
    report("kseq/init_states", kstates)

    for etype, label in (
        (EpochType.FAST_ADAPTATION, "fast"),
        (EpochType.SLOW_ADAPTATION, "slow"),
        (EpochType.POSTERIOR, "posterior"),
    ):
        epoch = EpochConfig(etype, 4, 1, None).to_state(0, 0)
        kstates = kseq.start_epoch(key, kstates, mstate, epoch)
        report(f"kseq/{label}/start_epoch", kstates)
        all_states = []
        for i in range(4):
            epoch.time_in_epoch += 1
            sub = jax.random.fold_in(key, i)
            out = jax.jit(kseq.transition)(sub, kstates, mstate, epoch)
            out_nojit = kseq.transition(sub, kstates, mstate, epoch)
            report(f"kseq/{label}/transition{i}/nojit", dataclasses.asdict(out_nojit))
            mstate, kstates = out.model_state, out.kernel_states
            all_states.append(mstate)
            report(f"kseq/{label}/transition{i}/jit", dataclasses.asdict(out))
            print(
                f"{'kseq/' + label + '/transition' + str(i) + '/infos order':45s} "
                f"{list(out.infos)}"
            )
        kstates = kseq.end_epoch(key, kstates, mstate, epoch)
        report(f"kseq/{label}/end_epoch", kstates)
        if etype != EpochType.POSTERIOR:
            history = jax.tree_util.tree_map(lambda *xs: jnp.stack(xs), *all_states)
            tout = kseq.tune(key, kstates, mstate, epoch, history)
            kstates = tout.kernel_states
            report(f"kseq/{label}/tune", dataclasses.asdict(tout))
            print(f"{'kseq/' + label + '/tune infos order':45s} {list(tout.infos)}")
            tuning_infos = tout.infos

    for th, label in ((None, "none"), (tuning_infos, "history")):
        wout = kseq.end_warmup(key, kstates, mstate, th)
        report(f"kseq/end_warmup/{label}", dataclasses.asdict(wout))
        print(
            f"{'kseq/end_warmup/' + label + '/codes':45s} "
            f"{ {k: int(v) for k, v in wout.error_codes.items()} }"
        )
        print(
            f"{'kseq/end_warmup/' + label + '/type':45s} "
            f"{type(wout).__name__} {type(wout.kernel_states).__name__}"
        )

    report_exc(
        "kseq/end_warmup/missing history key",
        lambda: kseq.end_warmup(key, kstates, mstate, {"kernel_00": None}),
    )

    # constructor errors
    def empty_identifier():
        ks = mk()
        ks[1].identifier = ""
        # repr of a kernel contains an address; only the type matters here
        try:
            KernelSequence(ks)
        except RuntimeError as e:
            raise RuntimeError(str(e).split(" object at ")[0]) from None

    def duplicate_identifier():
        ks = mk()
        ks[2].identifier = ks[0].identifier
        KernelSequence(ks)

    report_exc("kseq/empty identifier", empty_identifier)
    report_exc("kseq/duplicate identifier", duplicate_identifier)
    report_exc("kseq/tuple input", lambda: KernelSequence(tuple(mk())))
    empty = KernelSequence([])
    report(
        "kseq/empty sequence transition",
        dataclasses.asdict(
            empty.transition(
                key, [], mstate, EpochConfig(EpochType.POSTERIOR, 1, 1, None).to_state(0, 0)
            )
        ),
    )
    report("kseq/empty sequence init", empty.init_states(key, mstate))

    # kernel without a model
    def no_model():
        k = gs.RWKernel(["a"])
        k.identifier = "k"
        print(f"{'mixin/has_model before':45s} {k.has_model()}")
        k.model

    report_exc("mixin/no model", no_model)
    k = gs.RWKernel(["a", "c"])
    k.set_model(iface)
    print(f"{'mixin/has_model after':45s} {k.has_model()} {k.model is iface}")
    report("mixin/position", k.position(dict_state()))
    report(
        "mixin/log_prob_fn",
        k.log_prob_fn(dict_state())({"a": jnp.array(1.5), "c": jnp.ones(3)}),
    )
    report(
        "mixin/grad log_prob_fn",
        jax.grad(k.log_prob_fn(dict_state()))({"a": jnp.array(1.5), "c": jnp.ones(3)}),
    )


# --------------------------------------------------------------------------------
# direct calls: mh_step and Gibbs transition
# --------------------------------------------------------------------------------


def mh_direct():
    iface = gs.DictInterface(dict_log_prob)
    state = dict_state()
    proposals = {
        "better": {"a": jnp.array(0.5)},
        "much worse": {"a": jnp.array(40.0)},
        "slightly worse": {"a": jnp.array(0.9)},
        "nan": {"a": jnp.array(jnp.nan)},
        "inf": {"a": jnp.array(jnp.inf)},
        "same": {"a": state["a"]},
        "two keys": {"a": jnp.array(0.45), "ls": jnp.array(-0.1)},
    }
    for pname, prop in proposals.items():
        for corr in (0.0, -0.7, 3.0, jnp.nan, jnp.inf, -jnp.inf):
            res = []
            for s in range(6):
                key = jax.random.PRNGKey(100 + s)
                info, new = mh_step(key, iface, prop, state, corr)
                info_j, new_j = jax.jit(mh_step, static_argnums=1)(
                    key, iface, prop, state, corr
                )
                res.append(
                    (dataclasses.asdict(info), new, dataclasses.asdict(info_j), new_j)
                )
            report(f"mh_step/{pname}/corr={corr}", res)
        info, new = mh_step(jax.random.PRNGKey(0), iface, prop, state)
        print(
            f"{'mh_step/' + pname + '/default corr':45s} "
            f"code={int(info.error_code)} acc={float(info.acceptance_prob)!r} "
            f"moved={bool(info.position_moved)} "
            f"types={type(info).__name__},{info.acceptance_prob.dtype},"
            f"{info.position_moved.dtype}"
        )
        print(f"{'mh_step/' + pname + '/input state untouched':45s} "
              f"{digest(state) == digest(dict_state())}")

    # Liesel model: accepted and rejected outcomes keep derived nodes coherent
    model = liesel_model()
    li = gs.LieselInterface(model)
    mstate = model.state
    for pname, prop in {
        "accept": {"b0": jnp.array(0.8)},
        "reject": {"b0": jnp.array(500.0)},
        "nan": {"b1": jnp.array(jnp.nan)},
    }.items():
        info, new = mh_step(jax.random.PRNGKey(5), li, prop, mstate)
        report(f"mh_step/liesel/{pname}", (dataclasses.asdict(info), new))
        new_pos = li.extract_position(["b0", "b1", "mu", "sigma"], new)
        report(f"mh_step/liesel/{pname}/position", new_pos)

    # Gibbs transition, direct
    def tfn(prng_key, model_state):
        return {"b0": model_state["sigma_value"].value + jax.random.normal(prng_key)}

    g = gs.GibbsKernel(["b0"], tfn)
    g.set_model(li)
    g.identifier = "g"
    epoch = EpochConfig(EpochType.POSTERIOR, 1, 1, None).to_state(0, 0)
    kstate = g.init_state(jax.random.PRNGKey(1), mstate)
    out = g.transition(jax.random.PRNGKey(2), kstate, mstate, epoch)
    report("gibbs/transition", dataclasses.asdict(out))
    print(
        f"{'gibbs/transition types':45s} {type(out).__name__} {type(out.info).__name__} "
        f"{out.kernel_state is kstate} {out.info.acceptance_prob!r} "
        f"{out.info.position_moved!r} {out.info.error_code!r}"
    )
    report("gibbs/tune", dataclasses.asdict(g.tune(jax.random.PRNGKey(2), kstate, mstate, epoch)))
    report("gibbs/end_warmup", dataclasses.asdict(g.end_warmup(jax.random.PRNGKey(2), kstate, mstate, None)))

    def bad_tfn(prng_key, model_state):
        return {"does_not_exist": 1.0}

    gbad = gs.GibbsKernel(["b0"], bad_tfn)
    gbad.set_model(li)
    report_exc(
        "gibbs/unknown key",
        lambda: gbad.transition(jax.random.PRNGKey(2), kstate, mstate, epoch),
    )
    gnone = gs.GibbsKernel(["b0"], tfn)
    report_exc(
        "gibbs/no model",
        lambda: gnone.transition(jax.random.PRNGKey(2), kstate, mstate, epoch),
    )


# --------------------------------------------------------------------------------
# direct calls: interfaces
# --------------------------------------------------------------------------------


@dataclasses.dataclass
class DCState:
    x: jnp.ndarray
    loc: jnp.ndarray
    scale: jnp.ndarray


class NTState(NamedTuple):
    x: jnp.ndarray
    loc: jnp.ndarray
    scale: jnp.ndarray


def interfaces_direct():
    def lp(s):
        return tfd.Normal(s.loc, s.scale).log_prob(s.x)

    dc = gs.DataclassInterface(lp)
    s = DCState(jnp.array(0.0), jnp.array(0.5), jnp.array(2.0))
    s2 = dc.update_state({"x": jnp.array(1.0), "scale": jnp.array(3.0)}, s)
    report("dataclass/update", (dataclasses.asdict(s2), dataclasses.asdict(s)))
    print(f"{'dataclass/update is new object':45s} {s2 is not s} {type(s2).__name__}")
    report("dataclass/log_prob", (dc.log_prob(s), dc.log_prob(s2)))
    report("dataclass/extract", dc.extract_position(["x", "loc"], s2))
    report("dataclass/empty update", dataclasses.asdict(dc.update_state({}, s)))
    report_exc(
        "dataclass/unknown key",
        lambda: dc.update_state({"x": jnp.array(9.0), "nope": 1.0}, s),
    )
    # keys before the failing key are set on the copy only; the input is unchanged
    report("dataclass/input after failure", dataclasses.asdict(s))
    report_exc("dataclass/unknown key first", lambda: dc.update_state({"nope": 1.0, "x": 2.0}, s))
    report_exc("dataclass/extract unknown", lambda: dc.extract_position(["nope"], s))

    nt = gs.NamedTupleInterface(lp)
    n = NTState(jnp.array(0.0), jnp.array(0.5), jnp.array(2.0))
    n2 = nt.update_state({"x": jnp.array(1.0)}, n)
    report("namedtuple/update", (n2._asdict(), n._asdict()))
    print(f"{'namedtuple/update type':45s} {type(n2).__name__} {n2 is not n}")
    report("namedtuple/log_prob", (nt.log_prob(n), nt.log_prob(n2)))
    report("namedtuple/extract", nt.extract_position(["x", "loc"], n2))
    report_exc("namedtuple/unknown key", lambda: nt.update_state({"nope": 1.0}, n))

    di = gs.DictInterface(dict_log_prob)
    d = dict_state()
    d2 = di.update_state({"a": jnp.array(2.0), "new": jnp.array(1.0)}, d)
    report("dict/update", (d2, d))
    report("dict/log_prob", (di.log_prob(d), di.log_prob(d2)))
    report_exc("dict/extract unknown", lambda: di.extract_position(["nope"], d))

    model = liesel_model()
    li = gs.LieselInterface(model)
    st = model.state
    report("liesel/log_prob", li.log_prob(st))
    # by var name, by node name, derived var, mixed
    report(
        "liesel/extract",
        li.extract_position(["b0", "b1_value", "mu", "sigma_value", "_model_log_prob"], st),
    )
    report_exc("liesel/extract unknown", lambda: li.extract_position(["nope"], st))
    st2 = li.update_state({"b0": jnp.array(0.4), "log_sigma_value": jnp.array(0.3)}, st)
    report("liesel/update", st2)
    report("liesel/update input untouched", st)
    print(f"{'liesel/update outdated flags':45s} "
          f"{sorted(k for k, v in st2.items() if v.outdated)}")
    report("liesel/update log_prob", li.log_prob(st2))
    st3 = li.update_state({}, st2)
    report("liesel/empty update", st3)
    report_exc("liesel/update unknown", lambda: li.update_state({"nope": 1.0}, st))
    # the interface is usable after the failure and works on the state it is handed
    report("liesel/update after failure", li.update_state({"b1": jnp.array(-1.0)}, st))
    jitted = jax.jit(li.update_state)({"b1": jnp.array(-1.0)}, st)
    report("liesel/update jitted", jitted)
    # user's model object is not touched by the interface
    report("liesel/user model state", model.state)
    for cls in (gs.LieselInterface, gs.DictInterface, gs.DataclassInterface,
                gs.NamedTupleInterface):
        names = [n for n in vars(cls) if not n.startswith("__")]
        print(f"{'api/' + cls.__name__:45s} {sorted(names)}")


if __name__ == "__main__":
    interfaces_direct()
    mh_direct()
    kernel_sequence_direct()
    dict_runs()
    liesel_runs()
