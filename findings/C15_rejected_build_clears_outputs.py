"""
C15 / C01 -- a REJECTED attempt to build a second model over a node of a live model
edits that node.

Model.__init__ loops `node._clear_outputs(); node._set_model(self)` over all nodes.  For a
node that already belongs to a model `_set_model` raises ("... can only be part of one
model"), but `_clear_outputs()` has already run on it: the live model's node loses its
outputs.  From then on a change of that node no longer flags its dependants, and the live
model reports stale values as up to date.

Exit status 0 = the rejected build leaves the live model untouched, 1 = it was edited.
"""
import sys

import tensorflow_probability.substrates.jax.distributions as tfd

import liesel.model as lsl


def main():
    mu = lsl.param(0.0, lsl.Dist(tfd.Normal, loc=0.0, scale=1.0), name="mu")
    m1 = lsl.GraphBuilder().add(mu).build_model()
    before = {k: [o.name for o in v.outputs] for k, v in m1.nodes.items()}

    try:
        lsl.Model([m1.vars["mu"]])          # must be rejected: mu belongs to m1
        print("second build was NOT rejected")
    except RuntimeError as e:
        print("second build rejected:", str(e)[:70])

    after = {k: [o.name for o in v.outputs] for k, v in m1.nodes.items()}
    changed = {k: (before[k], after[k]) for k in before if before[k] != after[k]}
    print("outputs changed by the rejected build:", changed)

    m1.vars["mu"].value = 3.0               # auto-update is on
    cached = float(m1.log_prob)
    expected = float(tfd.Normal(0.0, 1.0).log_prob(3.0))
    print(f"log_prob of the live model after mu := 3.0: {cached:.4f}, from scratch: {expected:.4f}; "
          f"nodes reported outdated: {[n for n, nd in m1.nodes.items() if nd.outdated]}")

    bad = bool(changed) or abs(cached - expected) > 1e-4
    print("FAIL" if bad else "PASS")
    return 1 if bad else 0


if __name__ == "__main__":
    sys.exit(main())
