"""Helpers shared by the rule modules."""

from __future__ import annotations

import ast

from ..core.loader import AnchorMissing, ClassInfo, FunctionInfo, Repo
from ..core.terms import (Term, evaluate, fn_name, kw, make_inliner, n, pretty,
                          subterms)

UNIFORM = ("jax.random.uniform",)
SPLIT = ("jax.random.split",)
COND = ("jax.lax.cond",)

LIB_FACTS = {
    "uniform": "jax.random.uniform(key) has support [0, 1): 0 attainable, 1 not",
    "exp_clip": "jnp.exp: [-inf,+inf] -> [0,+inf]; jnp.clip(x, max=m) <= m; both "
                "NaN-preserving",
    "cond": "jax.lax.cond(p, t, f, *ops) evaluates t iff p",
    "dict_order": "JAX flattens dict pytrees in sorted key order (ravel_pytree, "
                  "tree_leaves, tree_map, crossing jit/vmap); dict.values()/items()/"
                  "keys(), iteration and comprehensions use insertion order",
    "blackjax": "blackjax hmc/nuts init(position, logdensity_fn) and .step preserve the "
                "position pytree structure and read inverse_mass_matrix[i] as belonging "
                "to coordinate i of ravel_pytree(position)",
    "keys": "a PRNG key must be consumed at most once; jax.random.split(k, n) yields n "
            "pairwise distinct fresh keys and consumes k",
    "gcd": "math.gcd(*xs) divides every x",
    "toposort": "networkx.topological_sort yields every edge's source before its target "
                "and raises on a cycle",
    "tfd_td": "tfd.TransformedDistribution(d, T) is the law of T.forward(X), X~d; "
              ".bijector returns T; tfb.Invert(b).forward = b.inverse and vice versa",
    "gamma": "b / Gamma(a, 1) is InverseGamma(a, b); jax.random.categorical(key, "
             "logits=l) draws i with probability proportional to exp(l_i)",
    "pickle": "pickle/dill round-trip objects whose __getstate__/__setstate__ are inverse",
    "scan": "jax.lax.scan(f, init, xs) calls f(carry, x) once per leading-axis element "
            "of xs, in order, threading the carry",
    "vmap": "jax.vmap(f, in_axes)(*args) maps f over axis in_axes[i] of args[i]; None "
            "broadcasts the argument",
}


def is_call(t: Term, *names: str) -> bool:
    if not (isinstance(t, tuple) and t and t[0] == "call"):
        return False
    f = fn_name(t[1]) or ""
    return any(f == nm or f.endswith("." + nm) for nm in names)


def find_calls(t: Term, *names: str) -> list[Term]:
    return [x for x in subterms(t) if is_call(x, *names)]


def cond_parts(t: Term):
    """(pred, true_fn, false_fn, operands) of a jax.lax.cond call term."""
    if not is_call(t, "jax.lax.cond"):
        return None
    pred = kw(t, "pred", 0)
    tf = kw(t, "true_fun", 1)
    ff = kw(t, "false_fun", 2)
    ops = t[2][3:]
    # cond(not p, A, B) selects like cond(p, B, A)
    while pred is not None and (is_call(pred, "jax.numpy.logical_not", "numpy.logical_not")
                                or (pred[0] == "u" and pred[1] in ("not", "~"))):
        pred = pred[2][0] if pred[0] == "call" else pred[2]
        tf, ff = ff, tf
    return pred, tf, ff, ops


def thunk_value(repo: Repo, f: Term, args: tuple = ()) -> Term | None:
    """Value returned by calling a closure term with no (or bound) arguments."""
    if f is None:
        return None
    if f[0] == "lambda":
        params, body = f[1], f[2]
        if len(args) == len(params):
            from ..core.terms import substitute
            return substitute(body, {n(p): a for p, a in zip(params, args)})
        if not params:
            return body
        return None
    if f[0] == "fn":
        fi = repo.functions.get(f[1])
        if fi is None:
            return None
        return evaluate(repo, fi).ret()
    return None


def method(repo: Repo, ci: ClassInfo, name: str, kind=None, own=False) -> FunctionInfo:
    fi = ci.own_method(name, kind) if own else repo.lookup_method(ci, name, kind)
    if fi is None:
        raise AnchorMissing(f"method {ci.qualname}.{name} not found")
    return fi


def eval_method(repo: Repo, ci: ClassInfo, name: str, inline=True, depth=3, kind=None):
    fi = method(repo, ci, name, kind)
    inl = make_inliner(repo, self_class=ci) if inline else None
    return fi, evaluate(repo, fi, inline=inl, inline_depth=depth)


def short(t: Term, limit: int = 160) -> str:
    s = pretty(t)
    return s if len(s) <= limit else s[: limit - 3] + "..."


def strip_casts(t: Term) -> Term:
    """Drop value-preserving wrappers."""
    while is_call(t, "typing.cast") and len(t[2]) == 2:
        t = t[2][1]
    return t


def kernel_classes(repo: Repo) -> dict[str, ClassInfo]:
    """The built-in kernel classes, discovered structurally: classes of
    liesel.goose that define ``error_book`` and a transition method."""
    out = {}
    for q, ci in repo.classes.items():
        if not q.startswith("liesel.goose."):
            continue
        if ci.class_attr("error_book") is None:
            continue
        if repo.lookup_method(ci, "transition") is None:
            continue
        if ci.module.name == "liesel.goose.types":
            continue
        out[ci.name] = ci
    return out


def stmt_of(fi: FunctionInfo, pred) -> list[ast.stmt]:
    return [s for s in ast.walk(fi.node) if isinstance(s, ast.stmt) and pred(s)]


# --------------------------------------------------------------------------------------
# closures made in a loop
# --------------------------------------------------------------------------------------
#: callables that invoke the closure they are given before they return, so the closure
#: cannot outlive the iteration that made it (frozen from the package: Option.map/map_or
#: in goose/engine.py and goose/summary_m.py; the builtins are the usual suspects)
IMMEDIATE_CONSUMERS = {"map_or", "map", "sorted", "min", "max", "filter", "any", "all",
                       "tree_map", "sum", "next", "reduce"}


def late_bound_closures(tree: ast.AST) -> list[tuple[ast.AST, ast.AST, list[str]]]:
    """-> [(loop, closure, captured names)]: closures (lambda / def) created in a loop body
    that read a name (re)bound by that loop WITHOUT binding it at creation (default
    argument) and that are not consumed on the spot.  Python looks such names up when the
    closure RUNS: every closure made by the loop then sees the last iteration's value."""
    out = []
    for loop in ast.walk(tree):
        if not isinstance(loop, (ast.For, ast.While)):
            continue
        bound: set[str] = set()
        if isinstance(loop, ast.For):
            bound |= {m.id for m in ast.walk(loop.target) if isinstance(m, ast.Name)}
        parents: dict[ast.AST, ast.AST] = {}
        for st in loop.body:
            for nd in ast.walk(st):
                for ch in ast.iter_child_nodes(nd):
                    parents[ch] = nd
                tgts = []
                if isinstance(nd, ast.Assign):
                    tgts = nd.targets
                elif isinstance(nd, (ast.AnnAssign, ast.AugAssign, ast.NamedExpr)):
                    tgts = [nd.target]
                elif isinstance(nd, (ast.With,)):
                    tgts = [i.optional_vars for i in nd.items if i.optional_vars]
                for t in tgts:
                    bound |= {m.id for m in ast.walk(t) if isinstance(m, ast.Name)}
        for st in loop.body:
            for nd in ast.walk(st):
                if not isinstance(nd, (ast.Lambda, ast.FunctionDef)):
                    continue
                a = nd.args
                params = {x.arg for x in a.args + a.kwonlyargs + a.posonlyargs}
                params |= {x.arg for x in (a.vararg, a.kwarg) if x}
                body = nd.body if isinstance(nd.body, list) else [nd.body]
                local = {m.id for b in body for m in ast.walk(b)
                         if isinstance(m, ast.Name) and isinstance(m.ctx, ast.Store)}
                used = {m.id for b in body for m in ast.walk(b)
                        if isinstance(m, ast.Name) and isinstance(m.ctx, ast.Load)}
                cap = sorted((used - params - local) & bound)
                if not cap:
                    continue
                if isinstance(nd, ast.Lambda):
                    par = parents.get(nd)
                    # called on the spot: (lambda ...)(...)
                    if isinstance(par, ast.Call) and par.func is nd:
                        continue
                    if isinstance(par, ast.keyword):
                        par = parents.get(par)
                    if isinstance(par, ast.Call):
                        f = par.func
                        nm = f.attr if isinstance(f, ast.Attribute) else getattr(f, "id", "")
                        if nm in IMMEDIATE_CONSUMERS:
                            continue
                        # jax.vmap(lambda ...)(xs): transformed and applied on the spot
                        gp = parents.get(par)
                        if isinstance(gp, ast.Call) and gp.func is par:
                            continue
                else:
                    # a def whose name is only ever CALLED inside this iteration
                    uses = [m for s2 in loop.body for m in ast.walk(s2)
                            if isinstance(m, ast.Name) and m.id == nd.name
                            and isinstance(m.ctx, ast.Load)]
                    if uses and all(isinstance(parents.get(u), ast.Call)
                                    and parents[u].func is u for u in uses):
                        continue
                out.append((loop, nd, cap))
    return out


_LATE_BINDING_WITNESS = """
def make(groups):
    ks = []
    for g in groups:
        ks.append(lambda s: g.value(s))
    for g in groups:
        ks.append(lambda s, g=g: g.value(s))
    for g in groups:
        x = opt.map(lambda d: d[g])
    return ks
"""


def late_binding_obligations(ctx, rule: str, modules: list[str], what: str) -> None:
    """no closure that outlives its loop iteration reads a variable of that loop"""
    w = late_bound_closures(ast.parse(_LATE_BINDING_WITNESS))
    assert len(w) == 1 and w[0][2] == ["g"], "late-binding detector lost its witness"
    seen = 0
    for mname in modules:
        mi = ctx.repo.module(mname)
        bad = late_bound_closures(mi.tree)
        seen += sum(isinstance(x, (ast.For, ast.While)) for x in ast.walk(mi.tree))
        for loop, cl, cap in bad:
            owner = next((f for f in ctx.repo.functions.values() if f.module is mi
                          and f.node.lineno <= cl.lineno <= (f.node.end_lineno or 0)
                          and f.node is not cl), mi)
            ctx.ob(rule, owner, f"{what}: a closure made in a loop does not read the "
                                f"loop's variables when it runs later (they then all hold the "
                                f"LAST iteration's value)", False, node=cl,
                   detail=f"closure at line {cl.lineno} reads {', '.join(cap)} of the loop at "
                          f"line {loop.lineno} by reference",
                   stmt="late-bound " + ast.unparse(cl)[:120])
    ctx.ob(rule, modules[0], f"{what}: no closure created in a loop captures that loop's "
                             f"variables by reference ({seen} loops in {len(modules)} modules)",
           True, facts={"loops": seen, "modules": modules})


# --------------------------------------------------------------------------------------
# a parameter documented as "an iterable" is traversed once
# --------------------------------------------------------------------------------------
_MATERIALISE = {"list", "tuple", "sorted", "set", "frozenset", "dict"}


def max_traversals(fnode: ast.FunctionDef, param: str) -> int:
    """Upper bound (2 = "more than once") of how often `param` is read on one path through
    the function before it is re-bound to a materialised copy (p = list(p))."""
    class Done(Exception):
        pass

    def uses(e) -> int:
        if e is None:
            return 0
        # identity tests (`p is None`) and type inspections do not traverse
        harmless = set()
        for x in ast.walk(e):
            if isinstance(x, ast.Compare) and all(isinstance(o, (ast.Is, ast.IsNot)) for o in x.ops):
                harmless |= {id(y) for y in [x.left] + x.comparators}
            if isinstance(x, ast.Call) and isinstance(x.func, ast.Name) \
                    and x.func.id in ("isinstance", "type", "id", "callable"):
                harmless |= {id(y) for y in x.args}
        return sum(isinstance(x, ast.Name) and x.id == param and isinstance(x.ctx, ast.Load)
                   and id(x) not in harmless for x in ast.walk(e))

    def seq(stmts) -> tuple[int, bool]:
        """(reads on the worst path, parameter materialised / path ended)"""
        total = 0
        for st in stmts:
            k, stop = one(st)
            total += k
            if stop:
                return total, True
        return total, False

    def one(st) -> tuple[int, bool]:
        if isinstance(st, ast.Assign) and len(st.targets) == 1 \
                and isinstance(st.targets[0], ast.Name) and st.targets[0].id == param:
            v = st.value
            if isinstance(v, ast.Call) and isinstance(v.func, ast.Name) \
                    and v.func.id in _MATERIALISE:
                return uses(v), True
            return uses(v), True        # re-bound to something else: no longer the argument
        if isinstance(st, ast.If):
            a, sa = seq(st.body)
            b, sb = seq(st.orelse)
            return uses(st.test) + max(a, b), sa and sb
        if isinstance(st, (ast.For, ast.While)):
            head = uses(st.iter) if isinstance(st, ast.For) else uses(st.test)
            b, _ = seq(st.body)
            o, so = seq(st.orelse)
            return head + (2 if b else 0) + o, so
        if isinstance(st, ast.Try):
            a, _ = seq(st.body)
            h = max([seq(x.body)[0] for x in st.handlers] or [0])
            o, _ = seq(st.orelse)
            f, _ = seq(st.finalbody)
            return a + h + o + f, False
        if isinstance(st, ast.With):
            w = sum(uses(i.context_expr) for i in st.items)
            b, sb = seq(st.body)
            return w + b, sb
        if isinstance(st, (ast.Return, ast.Raise)):
            return uses(st), True
        if isinstance(st, (ast.FunctionDef, ast.ClassDef)):
            return (2 if uses(st) else 0), False
        return uses(st), False
    return min(seq(fnode.body)[0], 2)


def single_pass_obligation(ctx, rule: str, fi, param: str, what: str) -> None:
    k = max_traversals(fi.node, param)
    ctx.ob(rule, fi, f"{what}: the argument `{param}` may be any iterable (also a one-shot "
                     f"generator), so it is traversed at most once before being materialised",
           k <= 1, detail=f"`{param}` is read {'more than once' if k > 1 else str(k) + ' time(s)'} "
                          f"on one path", stmt=f"{param} traversed more than once")


TRANSPARENT_DECORATORS = {"staticmethod", "classmethod", "property", "abstractmethod",
                          "abc.abstractmethod", "usedocs", "wraps", "functools.wraps",
                          "overload", "typing.overload", "no_type_check", "in_model_method",
                          "in_model_getter", "no_model_method", "no_model_setter"}


def fresh_result_obligation(ctx, rule: str, fi, what: str) -> None:
    """A function whose contract is stated for EVERY call and which returns mutable objects
    must compute its result on every call: a memoising decorator (`functools.lru_cache`,
    `functools.cache`, a home-made `memoize`) hands the first call's objects to every later
    caller, so an edit of one result changes what the next call returns.  A decorator that
    is not known to be transparent is an unproven obligation, not a violation."""
    decs = fi.decorators()
    memo = [d for d in decs if any(k in d.lower() for k in ("cache", "memo"))]
    other = [d for d in decs if d not in memo and d.split(".")[-1] not in
             {x.split(".")[-1] for x in TRANSPARENT_DECORATORS}]
    ctx.ob(rule, fi, f"{what}: every call computes its own result (no memoising decorator; "
                     f"the returned objects are mutable and belong to the caller)",
           not memo, detail=f"decorators {decs}", stmt=f"{fi.qualname} memoised by {memo}")
    if other and not memo:
        ctx.ob(rule, fi, f"{what}: decorators are known to be transparent",
               False, detail=f"unproven: unknown decorator(s) {other}",
               stmt=f"{fi.qualname} decorated by {other}")


def alternatives(t: Term, depth: int = 0) -> list[Term]:
    """The values a term can take, one per branch: joins at the top and in the direct
    arguments of a call are expanded (f(phi(c, a, b), x) has the alternatives f(a, x) and
    f(b, x)); `undef` arms (a branch that raised) are dropped.  Lets a rule state WHAT the
    alternatives are without caring where the branch was written."""
    if not isinstance(t, tuple) or not t or depth > 6:
        return [t]
    if t[0] in ("phi", "ifexp") and len(t) == 4:
        out = []
        for arm in (t[2], t[3]):
            if arm and arm[0] == "undef":
                continue
            out.extend(alternatives(arm, depth + 1))
        return out
    if t[0] == "call" and len(t) == 4:
        for i, a in enumerate(t[2]):
            if isinstance(a, tuple) and a and a[0] in ("phi", "ifexp"):
                out = []
                for alt in alternatives(a, depth + 1):
                    out.extend(alternatives((t[0], t[1], t[2][:i] + (alt,) + t[2][i + 1:], t[3]),
                                            depth + 1))
                return out
    return [t]


def fn_parts(repo: Repo, t: Term, closure: dict | None = None):
    """(parameter names, returned term) of a function VALUE, whether it is written as a
    lambda or as a (local / module-level) def -- or None."""
    if not isinstance(t, tuple) or not t:
        return None
    if t[0] == "lambda":
        return [p.lstrip("*") for p in t[1]], t[2]
    if t[0] in ("fn", "g"):
        fi = repo.functions.get(t[1])
        if fi is None:
            return None
        return ([p.lstrip("*") for p in fi.pos_params()],
                evaluate(repo, fi, closure=closure or {}).ret())
    return None


_CALLERS_CACHE: dict = {}


def owners(repo: Repo, fi: FunctionInfo, depth: int = 0) -> set[str]:
    """The functions KNOWN to the rules (baseline list) on whose behalf `fi` runs: `fi`
    itself when the rules know it, otherwise the known functions that call it (a helper
    extracted from a tabled function inherits that function's entry in who-may-do tables).
    A new function nobody calls stands for itself."""
    from ..core.terms import baseline_functions
    base = baseline_functions()
    root = fi
    while root.parent is not None:
        root = root.parent
    if root.qualname in base or depth > 3:
        return {fi.qualname if fi is root else fi.qualname}
    key = id(repo)
    if key not in _CALLERS_CACHE:
        idx: dict[str, list[FunctionInfo]] = {}
        for g in repo.functions.values():
            if isinstance(g.node, ast.Lambda):
                continue
            # (calls written in a nested def belong to that def, not to its parent)
            stack = list(ast.iter_child_nodes(g.node))
            while stack:
                x = stack.pop()
                if isinstance(x, (ast.FunctionDef, ast.AsyncFunctionDef, ast.Lambda)):
                    continue
                stack.extend(ast.iter_child_nodes(x))
                if isinstance(x, ast.Call):
                    f = x.func
                    nm = f.attr if isinstance(f, ast.Attribute) else getattr(f, "id", None)
                    if nm:
                        idx.setdefault(nm, []).append(g)
        _CALLERS_CACHE.clear()
        _CALLERS_CACHE[key] = idx
    out: set[str] = set()
    # (a helper the loader pasted into its callers is no longer called by name there)
    for caller_q, helper_q in getattr(repo, "inlined_helpers", []):
        if helper_q == root.qualname and caller_q in repo.functions:
            gr = repo.functions[caller_q]
            while gr.parent is not None:
                gr = gr.parent
            out |= owners(repo, gr, depth + 1) if gr.qualname not in base else {caller_q}
    for g in _CALLERS_CACHE[key].get(root.name, []):
        if g is root or g.qualname == root.qualname:
            continue
        # (a method is called from its class; a module-level helper may be shared by
        # several modules of the package)
        if root.cls is not None and not (g.module is root.module and (
                g.cls is root.cls or g.cls is None)):
            continue
        gr = g
        while gr.parent is not None:
            gr = gr.parent
        out |= owners(repo, gr, depth + 1) if gr.qualname not in base else {g.qualname}
    return out or {fi.qualname}


# --------------------------------------------------------------------------------------
# joins compared as decision functions
# --------------------------------------------------------------------------------------
def _cond_atoms(cnd: Term, out: list) -> None:
    if cnd[0] == "u" and cnd[1] == "not":
        _cond_atoms(cnd[2], out)
    elif cnd[0] == "bool":
        for x in cnd[2]:
            _cond_atoms(x, out)
    elif cnd[0] == "path":
        for a, _ in cnd[1]:
            _cond_atoms(a, out)
    elif cnd not in out:
        out.append(cnd)


def _cond_value(cnd: Term, asg: dict) -> bool:
    if cnd[0] == "u" and cnd[1] == "not":
        return not _cond_value(cnd[2], asg)
    if cnd[0] == "bool":
        vals = [_cond_value(x, asg) for x in cnd[2]]
        return all(vals) if cnd[1] == "and" else any(vals)
    if cnd[0] == "path":
        return all(_cond_value(a, asg) == bool(p) for a, p in cnd[1])
    return asg[cnd]


def decision_table(t: Term, limit: int = 8):
    """A term built from joins (phi / conditional expressions), read as a FUNCTION from the
    truth values of its condition atoms to the value it yields: {assignment: leaf}.  Two
    terms with the same table compute the same thing, however their branches are nested,
    ordered, negated or merged.  None when there are too many atoms."""
    atoms: list = []

    def collect(x):
        if isinstance(x, tuple) and x and x[0] in ("phi", "ifexp") and len(x) == 4:
            _cond_atoms(x[1], atoms)
            collect(x[2])
            collect(x[3])
    collect(t)
    if len(atoms) > limit:
        return None
    atoms.sort(key=repr)

    def leaf(x, asg):
        while isinstance(x, tuple) and x and x[0] in ("phi", "ifexp") and len(x) == 4:
            x = x[2] if _cond_value(x[1], asg) else x[3]
        return x
    import itertools
    table = {}
    for bits in itertools.product((False, True), repeat=len(atoms)):
        asg = dict(zip(atoms, bits))
        table[tuple(sorted(((repr(a), v) for a, v in asg.items())))] = leaf(t, asg)
    return atoms, table


def same_decision(t1: Term, t2: Term) -> bool:
    """Both terms yield the same value under every truth assignment of their condition
    atoms (atoms of either term; an atom one of them does not test simply does not matter
    to it)."""
    if t1 == t2:
        return True
    if t1 is None or t2 is None:
        return False
    a1, a2 = [], []
    for t, acc in ((t1, a1), (t2, a2)):
        d = decision_table(t)
        if d is None:
            return False
        acc.extend(d[0])
    atoms = sorted({*a1, *a2}, key=repr)
    if len(atoms) > 10:
        return False
    import itertools

    def leaf(x, asg):
        while isinstance(x, tuple) and x and x[0] in ("phi", "ifexp") and len(x) == 4:
            x = x[2] if _cond_value(x[1], asg) else x[3]
        return x
    for bits in itertools.product((False, True), repeat=len(atoms)):
        asg = dict(zip(atoms, bits))
        if leaf(t1, asg) != leaf(t2, asg):
            return False
    return True


def leaf_under(t: Term, asg: dict) -> Term:
    """The value a join-built term yields under a truth assignment of its condition atoms
    (atoms missing from `asg` count as False)."""
    class _D(dict):
        def __missing__(self, k):
            return False
    a = _D(asg)
    while isinstance(t, tuple) and t and t[0] in ("phi", "ifexp") and len(t) == 4:
        t = t[2] if _cond_value(t[1], a) else t[3]
    return t


def map_leaves(t: Term, f) -> Term:
    """Apply f to the leaves of a join tree."""
    if isinstance(t, tuple) and t and t[0] in ("phi", "ifexp") and len(t) == 4:
        return (t[0], t[1], map_leaves(t[2], f), map_leaves(t[3], f))
    return f(t)


def collects_kernel_keys(t: Term, kernels_field: Term) -> bool:
    """`t` contains the list of the position keys of ALL kernels in `kernels_field`:
    written as a loop with `extend` (a `mut` term) or as the comprehension
    [key for ker in kernels for key in ker.position_keys] that loop stands for."""
    for x in subterms(t):
        if x[0] == "mut" and x[2] == "extend" and x[3] and x[3][0][0] == "a" \
                and x[3][0][2] == "position_keys" and x[3][0][1] == ("iter", kernels_field):
            return True
        if x[0] == "comp" and x[1] == "list" and len(x[3]) == 2:
            g1, g2 = x[3]
            src = ("a", ("iter", kernels_field), "position_keys")
            if g1[1] == kernels_field and not g1[2] and g2[1] == src and not g2[2] \
                    and x[2] == ("iter", src):
                return True
    return False


def literal_of(repo: Repo, mi, e: ast.AST, depth: int = 0):
    """ast.literal_eval that also follows names: a module-level name (here or imported from
    another module of the package) bound to a literal, `dict(NAME)` / `NAME.copy()` of one,
    and names used as keys / values inside the literal.  Raises ValueError if not literal."""
    if depth > 5:
        raise ValueError("too deep")

    def resolve_name(name: str):
        if name in mi.assigns:
            return mi, mi.assigns[name]
        q = repo.resolve_in(mi, name)
        if q:
            mod, _, nm = q.rpartition(".")
            m2 = repo.modules.get(mod)
            if m2 is not None and nm in m2.assigns:
                return m2, m2.assigns[nm]
        raise ValueError(f"unresolved name {name}")

    class Sub(ast.NodeTransformer):
        def visit_Name(self, nd):
            m2, v = resolve_name(nd.id)
            return ast.Constant(value=literal_of(repo, m2, v, depth + 1))

        def visit_Call(self, nd):
            f = nd.func
            if isinstance(f, ast.Name) and f.id == "dict" and len(nd.args) == 1 and not nd.keywords:
                return ast.Constant(value=dict(literal_of(repo, mi, nd.args[0], depth + 1)))
            if isinstance(f, ast.Attribute) and f.attr == "copy" and not nd.args:
                return ast.Constant(value=literal_of(repo, mi, f.value, depth + 1))
            raise ValueError("call in literal")
    import copy as _copy
    tree = Sub().visit(_copy.deepcopy(e))

    def build(nd):
        if isinstance(nd, ast.Constant):
            return nd.value
        if isinstance(nd, ast.Dict):
            return {build(k): build(v) for k, v in zip(nd.keys, nd.values)}
        if isinstance(nd, (ast.Tuple, ast.List)):
            return type(())(build(x) for x in nd.elts) if isinstance(nd, ast.Tuple) \
                else [build(x) for x in nd.elts]
        if isinstance(nd, ast.UnaryOp) and isinstance(nd.op, ast.USub):
            return -build(nd.operand)
        return ast.literal_eval(nd)
    return build(tree)
