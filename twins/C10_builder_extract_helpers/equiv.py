"""
Deterministic exerciser for the goose engine builder / engine / kernel sequence.

Run from the worktree root with PYTHONPATH pointing at the worktree:

    PYTHONPATH=$PWD python _twin/<name>/equiv.py

Prints one line per scenario with a sha256 digest over every array in the
sampling results (positions, transition infos incl. the PRNG keys every kernel
call received, tuning infos, kernel states, generated quantities), the
exceptions raised by invalid setups and the warnings logged by the builder.
"""

import hashlib
import logging
from dataclasses import dataclass
from typing import ClassVar

import jax
import jax.numpy as jnp
import numpy as np

import liesel.goose as gs
from liesel.goose.engine import Engine
from liesel.goose.epoch import EpochConfig, EpochType
from liesel.goose.kernel_sequence import KernelSequence
from liesel.goose.pytree import register_dataclass_as_pytree, stack_leaves

# --------------------------------------------------------------------------
# logging capture (messages only; no line numbers / function names)
# --------------------------------------------------------------------------


class _Capture(logging.Handler):
    def __init__(self):
        super().__init__(level=logging.WARNING)
        self.messages = []

    def emit(self, record):
        self.messages.append(f"{record.name}:{record.levelname}:{record.getMessage()}")


CAPTURE = _Capture()
_lg = logging.getLogger("liesel")
_lg.addHandler(CAPTURE)
_lg.setLevel(logging.WARNING)
_lg.propagate = False


# --------------------------------------------------------------------------
# instrumented kernel: records every key it receives
# --------------------------------------------------------------------------


@register_dataclass_as_pytree
@dataclass
class RecState:
    init_key: jax.Array
    start_key: jax.Array
    end_key: jax.Array
    tune_key: jax.Array
    warm_key: jax.Array
    n_start: int
    n_end: int
    n_tune: int
    n_warm: int
    scale: float


@register_dataclass_as_pytree
@dataclass
class RecTransInfo:
    error_code: int
    acceptance_prob: float
    position_moved: int
    key: jax.Array
    time: int

    def minimize(self):
        return gs.kernel.DefaultTransitionInfo(
            self.error_code, self.acceptance_prob, self.position_moved
        )


@register_dataclass_as_pytree
@dataclass
class RecTuneInfo:
    error_code: int
    time: int
    key: jax.Array


class RecKernel:
    error_book: ClassVar[dict[int, str]] = {0: "no errors", 7: "seven"}
    needs_history: ClassVar[bool] = False
    identifier: str = ""

    def __init__(self, position_keys, warm_error=0, needs_history=False):
        self.position_keys = tuple(position_keys)
        self._model = None
        self._warm_error = warm_error
        if needs_history:
            self.needs_history = True  # type: ignore

    def __repr__(self):
        return f"RecKernel({self.position_keys!r})"

    def set_model(self, model):
        self._model = model

    def has_model(self):
        return self._model is not None

    def init_state(self, prng_key, model_state):
        z = jnp.zeros_like(prng_key)
        pos = self._model.extract_position(self.position_keys, model_state)
        s = sum(jnp.sum(v) for v in pos.values())
        return RecState(prng_key, z, z, z, z, 0, 0, 0, 0, 0.1 + 0.0 * s)

    def start_epoch(self, prng_key, kernel_state, model_state, epoch):
        kernel_state.start_key = prng_key
        kernel_state.n_start = kernel_state.n_start + 1
        return kernel_state

    def end_epoch(self, prng_key, kernel_state, model_state, epoch):
        kernel_state.end_key = prng_key
        kernel_state.n_end = kernel_state.n_end + 1
        return kernel_state

    def transition(self, prng_key, kernel_state, model_state, epoch):
        pos = self._model.extract_position(self.position_keys, model_state)
        keys = jax.random.split(prng_key, len(pos) + 1)
        new = {}
        for i, (k, v) in enumerate(pos.items()):
            eps = jax.random.normal(keys[i], jnp.shape(v))
            new[k] = 0.9 * v + kernel_state.scale * eps
        u = jax.random.uniform(keys[-1])
        new_ms = self._model.update_state(new, model_state)
        info = RecTransInfo(0, u, 1, prng_key, epoch.time)
        return gs.kernel.TransitionOutcome(info, kernel_state, new_ms)

    def tune(self, prng_key, kernel_state, model_state, epoch, history):
        kernel_state.tune_key = prng_key
        kernel_state.n_tune = kernel_state.n_tune + 1
        bump = jax.random.uniform(prng_key) * 0.01
        if history is not None:
            for v in history.values():
                bump = bump + 0.001 * jnp.mean(v)
        kernel_state.scale = kernel_state.scale + bump
        return gs.kernel.TuningOutcome(
            RecTuneInfo(0, epoch.time, prng_key), kernel_state
        )

    def end_warmup(self, prng_key, kernel_state, model_state, tuning_history):
        kernel_state.warm_key = prng_key
        kernel_state.n_warm = kernel_state.n_warm + 1
        if tuning_history is not None:
            kernel_state.scale = kernel_state.scale + 1e-3 * jnp.sum(
                tuning_history.time
            )
        return gs.kernel.WarmupOutcome(self._warm_error, kernel_state)


@register_dataclass_as_pytree
@dataclass
class KeyQuant:
    error_code: int
    result: tuple


class KeyQuantGen:
    error_book: ClassVar[dict[int, str]] = {0: "no errors"}

    def __init__(self, identifier):
        self.identifier = identifier
        self.set_model_calls = 0

    def set_model(self, model):
        self.set_model_calls += 1

    def has_model(self):
        return False

    def generate(self, prng_key, model_state, epoch):
        return KeyQuant(
            0, (prng_key, jax.random.normal(prng_key), model_state["x"], epoch.time)
        )


# --------------------------------------------------------------------------
# helpers
# --------------------------------------------------------------------------


def log_prob(ms):
    return -0.5 * jnp.sum(ms["x"] ** 2) - 0.5 * jnp.sum(ms["y"] ** 2) - ms["z"] ** 2


def model():
    return gs.DictInterface(log_prob)


def state(shift=0.0):
    return {
        "x": jnp.array([1.0, -2.0, 0.5]) + shift,
        "y": jnp.array(0.25) + shift,
        "z": jnp.array(3.0),
    }


def digest(tree) -> str:
    h = hashlib.sha256()
    leaves, treedef = jax.tree_util.tree_flatten(tree)
    h.update(str(treedef).encode())
    for leaf in leaves:
        a = np.asarray(leaf)
        h.update(str(a.dtype).encode())
        h.update(str(a.shape).encode())
        h.update(np.ascontiguousarray(a).tobytes())
    return h.hexdigest()[:20]


def unopt(opt):
    return opt.unwrap() if opt.is_some() else None


def results_digest(res) -> dict:
    out = {}
    out["pos"] = digest(unopt(res.positions.combine_all()))
    out["ti"] = digest(unopt(res.transition_infos.combine_all()))
    tun = res.tuning_infos.unwrap().get()
    out["tune"] = digest(unopt(tun))
    ks = unopt(res.kernel_states)
    out["ks"] = digest(unopt(ks.combine_all())) if ks is not None else None
    gq = unopt(res.generated_quantities)
    out["gq"] = digest(unopt(gq.combine_all())) if gq is not None else None
    out["cls"] = sorted((k, v.__name__) for k, v in res.kernel_classes.unwrap().items())
    out["bypos"] = sorted(res.kernels_by_pos_key.unwrap().items())
    return out


def epochs_custom():
    return [
        EpochConfig(EpochType.INITIAL_VALUES, 1, 1, None),
        EpochConfig(EpochType.FAST_ADAPTATION, 12, 1, None),
        EpochConfig(EpochType.SLOW_ADAPTATION, 6, 2, None),
        EpochConfig(EpochType.BURNIN, 6, 1, None),
        EpochConfig(EpochType.POSTERIOR, 18, 3, None),
        EpochConfig(EpochType.POSTERIOR, 6, 1, None),
    ]


def jit_add(key, val):
    return val + jax.random.uniform(key, jnp.shape(val), val.dtype, -1.0, 1.0)


def jit_mul(key, val):
    return val * (1.0 + jax.random.normal(key, jnp.shape(val)))


def make_builder(
    seed,
    num_chains,
    *,
    kernels=(("x",), ("y",)),
    jitter=None,
    multi=False,
    init=None,
    qgens=0,
    store_ks=False,
    minimize=False,
    epochs=None,
    duration=None,
    engine_seed=None,
    included=(),
    excluded=(),
    needs_history=False,
    warm_error=0,
    identifiers=None,
):
    b = gs.EngineBuilder(seed=seed, num_chains=num_chains)
    b.show_progress = False
    b.set_model(model())
    if init is None:
        init = state()
    b.set_initial_values(init, multiple_chains=multi)
    for i, pk in enumerate(kernels):
        k = RecKernel(list(pk), warm_error=warm_error, needs_history=needs_history)
        if identifiers is not None:
            k.identifier = identifiers[i]
        b.add_kernel(k)
    for i in range(qgens):
        b.add_quantity_generator(KeyQuantGen(f"q{i}"))
    if jitter is not None:
        b.set_jitter_fns(jitter)
    if epochs is not None:
        b.set_epochs(epochs)
    elif duration is not None:
        b.set_duration(*duration[0], **duration[1])
    if engine_seed is not None:
        b.set_engine_seed(engine_seed)
    b.store_kernel_states = store_ks
    b.minimize_transition_infos = minimize
    b.positions_included.extend(included)
    b.positions_excluded.extend(excluded)
    return b


def run(label, **kw):
    CAPTURE.messages.clear()
    b = make_builder(**kw)
    eng = b.build()
    first_state = digest(eng._model_states)
    seeds = digest(eng._seeds)
    eng.sample_all_epochs()
    res = eng.get_results()
    d = results_digest(res)
    d["init_states"] = first_state
    d["seeds"] = seeds
    d["carry_key"] = digest(eng._prng_key)
    d["final_ms"] = digest(eng._model_states)
    d["final_ks"] = digest(eng._kernel_states)
    d["ids"] = [k.identifier for k in b.kernels]
    d["poskeys"] = list(eng._position_keys)
    d["log"] = list(CAPTURE.messages)
    print(f"[{label}]")
    for k in sorted(d):
        print(f"   {k}: {d[k]}")
    return res, eng, b


def expect_error(label, fn):
    CAPTURE.messages.clear()
    try:
        fn()
    except BaseException as e:  # noqa
        print(f"[{label}] {type(e).__name__}: {str(e)[:300]}")
    else:
        print(f"[{label}] no error")
    if CAPTURE.messages:
        print(f"   log: {CAPTURE.messages}")


# --------------------------------------------------------------------------
# scenarios
# --------------------------------------------------------------------------


def main():
    import liesel

    # location independent check that *some* liesel was imported
    print("liesel imported:", hasattr(liesel, "__file__"))

    # 1 -- int seed vs key seed, replicated state, no jitter
    r_int, e_int, _ = run("int-seed", seed=11, num_chains=3, epochs=epochs_custom())
    r_key, e_key, _ = run(
        "key-seed", seed=jax.random.PRNGKey(11), num_chains=3, epochs=epochs_custom()
    )
    print(
        "int==key:",
        digest(unopt(r_int.positions.combine_all()))
        == digest(unopt(r_key.positions.combine_all())),
    )

    # 2 -- jitter on all / some keys, with quantity generators, kernel states
    full = dict(
        seed=5,
        num_chains=4,
        jitter={"x": jit_add, "y": jit_mul},
        qgens=2,
        store_ks=True,
        epochs=epochs_custom(),
        included=["z"],
    )
    r_a, e_a, _ = run("jitter-full-a", **full)
    r_b, e_b, _ = run("jitter-full-b", **full)
    print(
        "rerun identical:",
        results_digest(r_a) == results_digest(r_b),
    )
    run(
        "jitter-partial",
        seed=5,
        num_chains=4,
        jitter={"y": jit_add},
        minimize=True,
        qgens=1,
        epochs=epochs_custom(),
        excluded=["y"],
    )
    run(
        "jitter-extra-key",
        seed=6,
        num_chains=2,
        jitter={"z": jit_add, "x": jit_mul},
        epochs=epochs_custom(),
        included=["z", "y"],
        excluded=["x"],
    )
    run("jitter-empty", seed=6, num_chains=2, jitter={}, epochs=epochs_custom())

    # 3 -- per-chain initial states (multiple_chains=True) incl. perturbation
    per_chain = stack_leaves([state(0.0), state(1.0), state(-3.0)])
    r_m, e_m, _ = run(
        "multi-init",
        seed=3,
        num_chains=3,
        multi=True,
        init=per_chain,
        jitter={"x": jit_add},
        qgens=1,
        store_ks=True,
        epochs=epochs_custom(),
    )
    per_chain2 = stack_leaves([state(0.0), state(1.0), state(50.0)])
    r_m2, e_m2, _ = run(
        "multi-init-perturbed",
        seed=3,
        num_chains=3,
        multi=True,
        init=per_chain2,
        jitter={"x": jit_add},
        qgens=1,
        store_ks=True,
        epochs=epochs_custom(),
    )
    p1 = unopt(r_m.positions.combine_all())
    p2 = unopt(r_m2.positions.combine_all())
    print(
        "chains 0,1 unaffected:",
        all(bool(jnp.array_equal(p1[k][:2], p2[k][:2])) for k in p1),
    )
    print("first sample chain x:", np.asarray(p1["x"][:, 0]).tolist())
    run(
        "multi-init-nojitter",
        seed=3,
        num_chains=3,
        multi=True,
        init=per_chain,
        epochs=epochs_custom(),
    )

    # 4 -- single chain, single kernel for several keys, set_duration path
    run(
        "one-chain-stan",
        seed=0,
        num_chains=1,
        kernels=(("x", "y"),),
        duration=((200, 50), dict(term_duration=25, thinning_posterior=5)),
        jitter={"x": jit_add, "y": jit_add},
        qgens=1,
    )
    run(
        "stan-thin-warmup",
        seed=2**31 - 1,
        num_chains=2,
        duration=((200, 20), dict(thinning_warmup=4)),
        store_ks=True,
    )

    # 5 -- engine seed overrides
    run("engine-seed-int", seed=1, num_chains=2, engine_seed=99, epochs=epochs_custom())
    run(
        "engine-seed-key",
        seed=1,
        num_chains=2,
        engine_seed=jax.random.PRNGKey(99),
        epochs=epochs_custom(),
    )
    run(
        "engine-seed-multi",
        seed=1,
        num_chains=2,
        engine_seed=jax.random.split(jax.random.PRNGKey(7), 2),
        epochs=epochs_custom(),
        jitter={"x": jit_add},
    )

    # 6 -- history for tuning, warmup error codes, preset identifiers, 3 kernels
    run(
        "history+warm-error",
        seed=8,
        num_chains=2,
        kernels=(("x",), ("y",), ("z",)),
        needs_history=True,
        warm_error=7,
        identifiers=["", "mine", ""],
        epochs=epochs_custom(),
        qgens=3,
        store_ks=True,
        minimize=True,
    )

    # 7 -- no posterior epoch / only initial values
    run(
        "no-posterior",
        seed=4,
        num_chains=2,
        epochs=[
            EpochConfig(EpochType.INITIAL_VALUES, 1, 1, None),
            EpochConfig(EpochType.FAST_ADAPTATION, 4, 1, None),
            EpochConfig(EpochType.BURNIN, 10, 1, None),
        ],
        qgens=1,
    )

    # 8 -- stepwise use of the engine and direct Engine construction
    CAPTURE.messages.clear()
    b = make_builder(seed=21, num_chains=2, epochs=epochs_custom(), qgens=1)
    eng = b.build()
    steps = []
    while not eng.is_sampling_done():
        eng.sample_next_epoch()
        steps.append(digest(eng._prng_key))
    eng.append_epoch(EpochConfig(EpochType.POSTERIOR, 12, 2, None))
    eng.sample_next_epoch()
    steps.append(digest(eng._prng_key))
    print("[stepwise]", steps, results_digest(eng.get_results()))
    expect_error("no-active-epoch", lambda: eng.current_epoch)
    expect_error("no-more-epochs", eng.sample_next_epoch)

    m = model()
    kers = [RecKernel(["x"]), RecKernel(["y"])]
    for i, k in enumerate(kers):
        k.set_model(m)
        k.identifier = f"k{i}"
    direct = Engine(
        jax.random.split(jax.random.PRNGKey(4), 3),
        stack_leaves([state(), state(1.0), state(2.0)]),
        KernelSequence(kers),
        epochs_custom(),
        3,
        m,
        None,
        quantity_generators=[KeyQuantGen("g")],
        show_progress=False,
    )
    k1 = direct._split_prng_key(4)
    k2 = direct._split_prng_key_one()
    print("[split]", k1.shape, k2.shape, digest((k1, k2, direct._prng_key)))
    direct.sample_all_epochs()
    print("[direct]", results_digest(direct.get_results()), direct._position_keys)
    expect_error("bad-duration", lambda: _bad_duration(m))

    # traced program of one jitted sampling chunk (same primitives, same order)
    CAPTURE.messages.clear()
    bj = make_builder(
        seed=13,
        num_chains=2,
        epochs=epochs_custom(),
        qgens=2,
        store_ks=True,
        jitter={"x": jit_add},
    )
    ej = bj.build()
    ej.sample_next_epoch()  # initial values
    ej._start_epoch()
    ej._kernel_start_epoch()
    jaxpr = jax.make_jaxpr(
        jax.vmap(
            ej._sample_many, in_axes=(0, None, 0, 0), out_axes=(None, 0, 0, 0, 0, 0, 0)
        )
    )(ej._split_prng_key(3), ej.current_epoch, ej._kernel_states, ej._model_states)
    txt = str(jaxpr)
    print("[jaxpr]", len(txt.splitlines()), hashlib.sha256(txt.encode()).hexdigest()[:20])

    # kernel sequence called directly (outside vmap/jit)
    ks = KernelSequence(kers)
    key = jax.random.PRNGKey(17)
    ms = state()
    st = ks.init_states(key, ms)
    ep = epochs_custom()[1].to_state(1, 1)
    st = ks.start_epoch(key, st, ms, ep)
    out = ks.transition(key, st, ms, ep)
    tun = ks.tune(key, out.kernel_states, out.model_state, ep, None)
    st2 = ks.end_epoch(key, tun.kernel_states, out.model_state, ep)
    w1 = ks.end_warmup(key, st2, out.model_state, None)
    w2 = ks.end_warmup(key, st2, out.model_state, tun.infos)
    print(
        "[kernel-sequence]",
        digest((st, out, tun, st2, w1, w2)),
        type(w1).__name__,
        list(out.infos),
        list(tun.infos),
        w1.error_codes.keys() == w2.error_codes.keys(),
        ks.get_kernels() is ks._kernels,
    )
    expect_error(
        "kseq-empty-ident", lambda: KernelSequence([RecKernel(["x"]), RecKernel(["y"])])
    )

    def dup_ident():
        a, b2 = RecKernel(["x"]), RecKernel(["y"])
        a.identifier = b2.identifier = "same"
        KernelSequence([a, b2])

    expect_error("kseq-dup-ident", dup_ident)
    print("[kseq-zero]", KernelSequence([]).get_kernels())

    # 9 -- invalid setups: order and type of the exceptions
    expect_error("seed-float", lambda: gs.EngineBuilder(seed=1.5, num_chains=2))
    expect_error("seed-none", lambda: gs.EngineBuilder(seed=None, num_chains=2))
    expect_error(
        "seed-npint", lambda: gs.EngineBuilder(seed=np.int64(3), num_chains=2)
    )
    expect_error("seed-bool", lambda: print("   ", digest(make_builder(seed=True, num_chains=2, epochs=epochs_custom()).build()._seeds)))
    expect_error(
        "dup-poskeys",
        lambda: make_builder(
            seed=1, num_chains=2, kernels=(("x",), ("x",)), epochs=epochs_custom()
        ).build(),
    )
    expect_error(
        "dup-poskeys-bad-seed",
        lambda: make_builder(
            seed=1,
            num_chains=2,
            kernels=(("x",), ("x",)),
            epochs=epochs_custom(),
            engine_seed=jax.random.split(jax.random.PRNGKey(7), 5),
        ).build(),
    )
    expect_error(
        "bad-seed-shape",
        lambda: make_builder(
            seed=1,
            num_chains=2,
            epochs=epochs_custom(),
            engine_seed=jax.random.split(jax.random.PRNGKey(7), 5),
        ).build(),
    )

    def dup_qg_and_bad_seed():
        b = make_builder(
            seed=1,
            num_chains=2,
            epochs=epochs_custom(),
            engine_seed=jax.random.split(jax.random.PRNGKey(7), 5),
        )
        b.add_quantity_generator(KeyQuantGen("q"))
        b.add_quantity_generator(KeyQuantGen("q"))
        b.build()

    expect_error("dup-qg+bad-seed", dup_qg_and_bad_seed)

    def dup_qg():
        b = make_builder(seed=1, num_chains=2, epochs=epochs_custom())
        b.add_quantity_generator(KeyQuantGen("q"))
        b.add_quantity_generator(KeyQuantGen("q"))
        b.build()

    expect_error("dup-qg", dup_qg)

    def no_model():
        b = gs.EngineBuilder(seed=1, num_chains=2)
        b.set_epochs(epochs_custom())
        b.set_initial_values(state())
        b.add_kernel(RecKernel(["x"]))
        b.build()

    expect_error("no-model", no_model)

    def no_state():
        b = gs.EngineBuilder(seed=1, num_chains=2)
        b.set_epochs(epochs_custom())
        b.set_model(model())
        k = RecKernel(["x"])
        b.add_kernel(k)
        try:
            b.build()
        finally:
            print("   kernel after failed build:", k.identifier, k.has_model())

    expect_error("no-state", no_state)

    def no_epochs():
        b = gs.EngineBuilder(seed=1, num_chains=2)
        b.set_model(model())
        b.set_initial_values(state())
        b.add_kernel(RecKernel(["x"]))
        b.build()

    expect_error("no-epochs", no_epochs)
    expect_error(
        "jitter-unknown-key",
        lambda: make_builder(
            seed=1, num_chains=2, epochs=epochs_custom(), jitter={"nope": jit_add}
        ).build(),
    )
    expect_error(
        "multi-wrong-chains",
        lambda: make_builder(
            seed=1,
            num_chains=2,
            epochs=epochs_custom(),
            multi=True,
            init=per_chain,
        )
        .build()
        .sample_all_epochs(),
    )
    expect_error(
        "multi-wrong-chains-jitter",
        lambda: make_builder(
            seed=1,
            num_chains=2,
            epochs=epochs_custom(),
            multi=True,
            init=per_chain,
            jitter={"x": jit_add},
        ).build(),
    )
    expect_error(
        "zero-chains",
        lambda: gs.EngineBuilder(seed=1, num_chains=0).set_initial_values(state()),
    )

    # 10 -- builder accessors / truthiness of multiple_chains
    b = gs.EngineBuilder(seed=jax.random.PRNGKey(3), num_chains=2)
    print(
        "[builder-keys]",
        digest((b._prng_key, b._engine_key, b._jitter_key, b.engine_seed)),
    )
    b.set_initial_values(state(), multiple_chains=0)
    d0 = digest(b.model_state.unwrap())
    b.set_initial_values(per_chain, multiple_chains="yes")
    d1 = digest(b.model_state.unwrap())
    print("[set-initial-values]", d0, d1, b.model_state.unwrap() is per_chain)
    b.set_engine_seed(np.int32(5))
    d2 = digest(b.engine_seed)
    b.set_engine_seed(jnp.array(5))
    print("[set-engine-seed]", d2, digest(b.engine_seed))
    # building twice from the same builder
    b2 = make_builder(
        seed=9, num_chains=2, epochs=epochs_custom(), jitter={"x": jit_add}, qgens=1
    )
    e1, e2 = b2.build(), b2.build()
    e1.sample_all_epochs()
    e2.sample_all_epochs()
    print(
        "[build-twice]",
        results_digest(e1.get_results()) == results_digest(e2.get_results()),
        [q.set_model_calls for q in b2.quantity_generators],
    )


def _bad_duration(m):
    k = RecKernel(["x"])
    k.set_model(m)
    k.identifier = "k"
    e = Engine(
        jax.random.split(jax.random.PRNGKey(4), 2),
        stack_leaves([state(), state()]),
        KernelSequence([k]),
        [
            EpochConfig(EpochType.INITIAL_VALUES, 1, 1, None),
            EpochConfig(EpochType.BURNIN, 10, 1, None),
        ],
        4,
        m,
        ["x"],
        show_progress=False,
    )
    e.sample_all_epochs()


if __name__ == "__main__":
    main()
