"""
Deterministic equivalence driver for the recorded-chain code of liesel.goose
(chain.py, engine.py, builder.py).

Run it from the root of a liesel checkout, e.g.

    PYTHONPATH=$PWD python _twin/<name>/equiv.py > out.txt

It prints one line per observed quantity (shape, dtype, sha256 of the raw bytes),
per raised exception (type + message) and per captured log record, and finally one
digest over everything. The path of the checkout is never hard-coded; only the
basename of ``liesel.__file__`` relative to the package is printed.
"""

from __future__ import annotations

import hashlib
import logging
import os
import re
import warnings
from dataclasses import dataclass
from typing import ClassVar

os.environ.setdefault("JAX_PLATFORMS", "cpu")
warnings.filterwarnings("ignore")

import jax  # noqa: E402
import jax.numpy as jnp  # noqa: E402
import numpy as np  # noqa: E402

import liesel  # noqa: E402
from liesel.goose.builder import EngineBuilder  # noqa: E402
from liesel.goose.chain import (  # noqa: E402
    EpochChainManager,
    ListChain,
    ListEpochChain,
)
from liesel.goose.engine import Engine, SamplingResults  # noqa: E402
from liesel.goose.epoch import EpochConfig, EpochState, EpochType  # noqa: E402
from liesel.goose.interface import DictInterface  # noqa: E402
from liesel.goose.kernel import (  # noqa: E402
    DefaultTransitionInfo,
    DefaultTuningInfo,
    TransitionMixin,
    TransitionOutcome,
    TuningOutcome,
    WarmupOutcome,
)
from liesel.goose.kernel_sequence import KernelSequence  # noqa: E402
from liesel.goose.pytree import (  # noqa: E402
    register_dataclass_as_pytree,
    stack_leaves,
)

LINES: list[str] = []


def emit(line: str) -> None:
    line = re.sub(r"0x[0-9a-fA-F]+", "0x?", line)
    LINES.append(line)
    print(line)


def leaf_line(x) -> str:
    if x is None:
        return "None"
    a = np.asarray(x)
    h = hashlib.sha256(np.ascontiguousarray(a).tobytes()).hexdigest()[:16]
    return f"{a.shape} {a.dtype} {h}"


def dump(tag: str, tree) -> None:
    """Prints structure and every leaf of a pytree."""
    leaves, treedef = jax.tree_util.tree_flatten(tree)
    emit(f"{tag} :: treedef={treedef}")
    for i, leaf in enumerate(leaves):
        emit(f"{tag} :: leaf[{i}] {leaf_line(leaf)}")


def dump_values(tag: str, x) -> None:
    emit(f"{tag} :: values {np.asarray(x).tolist()}")


def attempt(tag: str, fn):
    """Calls ``fn`` and reports either its result marker or the exception."""
    try:
        return fn()
    except BaseException as exc:  # noqa: BLE001
        emit(f"{tag} :: raised {type(exc).__name__}: {exc}")
        return None


class ListHandler(logging.Handler):
    def __init__(self):
        super().__init__(level=logging.DEBUG)
        self.records: list[str] = []

    def emit(self, record):  # noqa: A003
        self.records.append(f"{record.name} {record.levelname} {record.getMessage()}")


HANDLER = ListHandler()
_lg = logging.getLogger("liesel")
_lg.setLevel(logging.DEBUG)
_lg.addHandler(HANDLER)
_lg.propagate = False


def flush_logs(tag: str) -> None:
    for rec in HANDLER.records:
        emit(f"{tag} :: log {rec}")
    HANDLER.records.clear()


# ---------------------------------------------------------------------------
# deterministic kernel and quantity generator
# ---------------------------------------------------------------------------


@register_dataclass_as_pytree
@dataclass
class CountState:
    total_transitions: int
    total_adaptive_transitions: int
    epoch_counter: int
    tune_counter: int
    warmup_finalized: bool

    @staticmethod
    def default() -> "CountState":
        return CountState(0, 0, 0, 0, False)


@register_dataclass_as_pytree
@dataclass
class CountTuningInfo(DefaultTuningInfo):
    pass


@register_dataclass_as_pytree
@dataclass
class CountTransInfo(DefaultTransitionInfo):
    extra: float = 1.0


class CountKernel(TransitionMixin[CountState, CountTransInfo]):
    """
    Writes ``epoch_counter * 10000 + time_in_epoch + c / 8`` into its position keys
    (``c`` is a chain specific constant of the model state). With ``use_key`` it adds
    a standard normal draw from its random key. Every fifth transition reports error
    code 1 if ``with_errors``.
    """

    error_book: ClassVar[dict[int, str]] = {0: "no errors", 1: "fifth"}
    needs_history: ClassVar[bool] = False
    identifier: str = ""

    def __init__(self, position_keys, use_key=False, with_errors=False, history=False):
        self._model = None
        self.position_keys = tuple(position_keys)
        self.use_key = use_key
        self.with_errors = with_errors
        if history:
            self.needs_history = True  # type: ignore
        self.history_shapes: list = []

    @property
    def model(self):
        if self._model is None:
            raise RuntimeError("Model interface not set")
        return self._model

    def set_model(self, model):
        self._model = model

    def has_model(self) -> bool:
        return self._model is not None

    def init_state(self, prng_key, model_state):
        return CountState.default()

    def start_epoch(self, prng_key, kernel_state, model_state, epoch):
        kernel_state.epoch_counter += 1
        return kernel_state

    def end_epoch(self, prng_key, kernel_state, model_state, epoch):
        return kernel_state

    def _standard_transition(self, prng_key, kernel_state, model_state, epoch):
        kernel_state.total_transitions += 1
        position = self.model.extract_position(self.position_keys, model_state)
        base = kernel_state.epoch_counter * 10000 + epoch.time_in_epoch
        for pkey in position.keys():
            val = jnp.zeros_like(position[pkey]) + base + model_state["c"] / 8
            if self.use_key:
                val = val + jax.random.normal(prng_key, jnp.shape(val))
            position[pkey] = jnp.asarray(val, dtype=position[pkey].dtype)
        new_model_state = self.model.update_state(position, model_state)
        code = 0
        if self.with_errors:
            code = jnp.asarray(epoch.time_in_epoch % 5 == 4, dtype=jnp.int32)
        info = CountTransInfo(code, 1.0, 1)
        return TransitionOutcome(info, kernel_state, new_model_state)

    def _adaptive_transition(self, prng_key, kernel_state, model_state, epoch):
        outcome = self._standard_transition(prng_key, kernel_state, model_state, epoch)
        outcome.kernel_state.total_adaptive_transitions += 1
        return outcome

    def tune(self, prng_key, kernel_state, model_state, epoch, history):
        kernel_state.tune_counter += 1
        if history is not None:
            self.history_shapes.append(
                sorted((k, tuple(v.shape)) for k, v in history.items())
            )
        info = CountTuningInfo(error_code=0, time=epoch.time)
        return TuningOutcome(info, kernel_state)

    def end_warmup(self, prng_key, kernel_state, model_state, tuning_history):
        kernel_state.warmup_finalized = True
        return WarmupOutcome(0, kernel_state)


@register_dataclass_as_pytree
@dataclass
class Quant:
    error_code: int
    result: tuple


class QuantGen:
    error_book: ClassVar[dict[int, str]] = {0: "no errors"}

    def __init__(self, identifier):
        self.identifier = identifier

    def set_model(self, model):
        pass

    def has_model(self) -> bool:
        return False

    def generate(self, prng_key, model_state, epoch):
        u = jax.random.normal(prng_key)
        return Quant(0, (u, model_state["x"] * 2, epoch.time))


def log_prob(ms):
    return -0.5 * jnp.sum(ms["x"] ** 2) - 0.5 * jnp.sum(ms["y"] ** 2)


def make_model_states(num_chains: int):
    states = []
    for c in range(num_chains):
        states.append(
            {
                "x": jnp.asarray(1.0 + c),
                "y": jnp.asarray([-1.0, 0.5 * c, 2.0]),
                "z": jnp.asarray([[1.0 * c, 2.0], [3.0, 4.0]]),
                "c": jnp.asarray(float(c)),
            }
        )
    return stack_leaves(states)


def ec(type_, duration, thinning=1):
    return EpochConfig(type_, duration, thinning, None)


IV = EpochType.INITIAL_VALUES
FA = EpochType.FAST_ADAPTATION
SA = EpochType.SLOW_ADAPTATION
BU = EpochType.BURNIN
PO = EpochType.POSTERIOR


# ---------------------------------------------------------------------------
# part 1: ListChain / ListEpochChain / EpochChainManager
# ---------------------------------------------------------------------------


def make_chunk(start: int, size: int, chains: int = 2):
    t = np.arange(start, start + size, dtype=np.float32)
    a = np.stack([t + 1000 * c for c in range(chains)])  # (chain, time)
    return {
        "a": jnp.asarray(a),
        "b": (
            jnp.asarray(a[..., None] * np.ones(3, np.float32)),
            jnp.asarray(a.astype(np.int32)),
        ),
    }


def chain_part() -> None:
    emit("== chains")
    lc: ListChain = ListChain()
    emit(f"listchain empty :: {lc.get()!r} append-> {lc.append(make_chunk(0, 1))!r}")
    dump("listchain one", lc.get().unwrap())
    lc.append(make_chunk(1, 4))
    dump("listchain two", lc.get().unwrap())
    dump("listchain again", lc.get().unwrap())
    emit(f"listchain chunks {len(lc._chunks_list)}")

    schedules = [
        (12, 3, [4, 4, 4]),
        (12, 5, [4, 4, 4]),
        (12, 4, [1] * 12),
        (12, 4, [2, 2, 2, 2, 2, 2]),
        (10, 3, [10]),
        (10, 7, [5, 5]),
        (9, 2, [3, 1, 5]),
        (9, 9, [3, 3, 3]),
        (6, 10, [3, 3]),
        (6, 1, [3, 3]),
        (1, 2, [1]),
        (15, 2, [5, 5, 5]),
        (15, 6, [5, 5, 5]),
    ]
    for duration, th, chunks in schedules:
        for apply in (True, False):
            tag = f"epochchain d={duration} th={th} chunks={chunks} apply={apply}"
            chn: ListEpochChain = ListEpochChain(ec(PO, duration, th), apply)
            rets = []
            start = 1
            for size in chunks:
                rets.append(chn.append(make_chunk(start, size)))
                start += size
            emit(
                f"{tag} :: rets={rets} counter={chn._states_counter} "
                f"nchunks={len(chn._chunks_list)} epoch={chn.epoch}"
            )
            opt = chn.get()
            if opt.is_none():
                emit(f"{tag} :: empty {opt!r}")
            else:
                dump(tag, opt.unwrap())
                dump_values(tag + " a", opt.unwrap()["a"])

    # manager
    def build_manager(apply: bool) -> EpochChainManager:
        m: EpochChainManager = EpochChainManager(apply_thinning=apply)
        cfgs = [
            ec(IV, 1, 1),
            ec(FA, 6, 4),
            ec(BU, 3, 5),  # nothing survives thinning
            ec(PO, 8, 2),
            ec(PO, 4, 1),
            ec(PO, 6, 3),
        ]
        start = 0
        for cfg in cfgs:
            m.advance_epoch(cfg)
            emit(f"manager current {m.current_epoch} {m.get_current_epoch()}")
            if cfg.type == IV:
                m.append(make_chunk(start, 1))
                start += 1
                continue
            csize = 2 if cfg.duration % 2 == 0 else 3
            for _ in range(cfg.duration // csize):
                m.append(make_chunk(start, csize))
                start += csize
        return m

    for apply in (True, False):
        m = build_manager(apply)
        tag = f"manager apply={apply}"
        emit(f"{tag} :: epochs {list(m.get_epochs())}")
        emit(f"{tag} :: current is last {m.get_current_chain() is m._chains[-1]}")
        emit(f"{tag} :: specific {m.get_specific_chain(1) is m._chains[1]}")
        emit(f"{tag} :: nchunks before {[len(c._chunks_list) for c in m._chains]}")

        calls: list = []

        def pred_post(cfg, calls=calls, m=m):
            calls.append((int(cfg.type), [len(c._chunks_list) for c in m._chains]))
            return cfg.type == PO

        res = m.combine_filtered(pred_post)
        dump(tag + " filtered posterior", res.unwrap())
        dump_values(tag + " filtered posterior a", res.unwrap()["a"])
        emit(f"{tag} :: predicate calls {calls}")
        emit(f"{tag} :: nchunks after {[len(c._chunks_list) for c in m._chains]}")

        res = m.combine_filtered(lambda cfg: False)
        emit(f"{tag} :: filtered none {res!r}")
        res = m.combine_filtered(lambda cfg: cfg.type == BU)
        if res.is_none():
            emit(f"{tag} :: filtered burnin {res!r}")
        else:
            dump(tag + " filtered burnin", res.unwrap())
        res = m.combine_filtered(lambda cfg: cfg.thinning > 2)
        dump_values(tag + " filtered thinning>2 a", res.unwrap()["a"])
        res = m.combine_filtered(lambda cfg: 1)  # truthy non-bool
        dump_values(tag + " filtered truthy a", res.unwrap()["a"])

        res = m.combine_all()
        dump(tag + " all", res.unwrap())
        dump_values(tag + " all a", res.unwrap()["a"])

        for nums in ([0], [3, 1], [5, 5], [2], [], [-1, 0], (4, 3), range(1, 4)):
            res = m.combine(nums)
            if res.is_none():
                emit(f"{tag} :: combine {list(nums)} {res!r}")
            else:
                dump_values(f"{tag} combine {list(nums)} a", res.unwrap()["a"])
                dump(f"{tag} combine {list(nums)}", res.unwrap())

        attempt(tag + " combine out of range", lambda m=m: m.combine([1, 17, 2]))
        attempt(tag + " combine bad index", lambda m=m: m.combine(["a"]))

        seen: list = []

        def pred_raises(cfg, seen=seen):
            seen.append(int(cfg.type))
            if cfg.type == PO:
                raise KeyError("boom")
            return True

        attempt(tag + " predicate raises", lambda m=m: m.combine_filtered(pred_raises))
        emit(f"{tag} :: predicate raises seen {seen}")
        emit(f"{tag} :: nchunks final {[len(c._chunks_list) for c in m._chains]}")

    empty: EpochChainManager = EpochChainManager()
    emit(f"manager empty :: all {empty.combine_all()!r}")
    emit(f"manager empty :: filtered {empty.combine_filtered(lambda c: True)!r}")
    emit(f"manager empty :: combine {empty.combine([])!r}")
    attempt("manager empty current", lambda: empty.current_epoch)
    attempt("manager empty append", lambda: empty.append(make_chunk(0, 1)))
    empty.advance_epoch(ec(PO, 4, 2))
    emit(f"manager one empty epoch :: all {empty.combine_all()!r}")

    # error inside thinning: chunk without a time axis / without leaves
    thin: ListEpochChain = ListEpochChain(ec(PO, 4, 2), True)
    attempt("epochchain no leaves", lambda: thin.append({}))
    attempt("epochchain 1d leaf", lambda: thin.append({"a": jnp.arange(3.0)}))
    nothin: ListEpochChain = ListEpochChain(ec(PO, 4, 2), False)
    emit(f"epochchain no leaves unthinned :: {nothin.append({})!r}")
    emit(f"epochchain counter after errors {thin._states_counter}")


# ---------------------------------------------------------------------------
# part 2: engine end-to-end
# ---------------------------------------------------------------------------


def dump_results(tag: str, res: SamplingResults, engine: Engine) -> None:
    dump(tag + " samples", attempt(tag + " samples", res.get_samples))
    dump(
        tag + " posterior samples",
        attempt(tag + " posterior samples", res.get_posterior_samples),
    )
    samples = attempt(tag + " samples", res.get_samples)
    if samples is not None and "x" in samples:
        dump_values(tag + " samples x", samples["x"])
    post = attempt(tag + " posterior samples", res.get_posterior_samples)
    if post is not None and "x" in post:
        dump_values(tag + " posterior x", post["x"])
    dump(tag + " infos all", res.transition_infos.combine_all().value)
    dump(
        tag + " infos posterior",
        attempt(tag + " infos posterior", res.get_posterior_transition_infos),
    )
    emit(f"{tag} :: kernel_states some {res.kernel_states.is_some()}")
    if res.kernel_states.is_some():
        dump(tag + " kernel states", res.kernel_states.unwrap().combine_all().value)
        dump(
            tag + " kernel states posterior",
            res.kernel_states.unwrap().combine_filtered(lambda c: c.type == PO).value,
        )
    emit(f"{tag} :: generated some {res.generated_quantities.is_some()}")
    if res.generated_quantities.is_some():
        gq = res.generated_quantities.unwrap()
        dump(tag + " generated", gq.combine_all().value)
        dump(tag + " generated post", gq.combine_filtered(lambda c: c.type == PO).value)
    emit(f"{tag} :: full model states {res.full_model_states!r}")
    dump(tag + " tuning infos", res.tuning_infos.unwrap().get().value)
    tt = attempt(tag + " tuning times", res.get_tuning_times)
    emit(f"{tag} :: tuning times {None if tt is None else leaf_line(tt.value)}")
    for ponly in (False, True):
        el = attempt(f"{tag} error log {ponly}", lambda: res.get_error_log(ponly))
        if el is None or el.is_none():
            emit(f"{tag} :: error log posterior_only={ponly} {el!r}")
        else:
            for k, v in el.unwrap().items():
                emit(
                    f"{tag} :: error log posterior_only={ponly} {k} {v.kernel_ident} "
                    f"{v.kernel_cls.map(lambda c: c.__name__)!r} "
                    f"{np.asarray(v.transition).tolist()} {leaf_line(v.error_codes)}"
                )
    emit(f"{tag} :: kernel classes {res.kernel_classes.map(lambda d: {k: v.__name__ for k, v in d.items()})!r}")  # noqa: E501
    emit(f"{tag} :: kernels by pos {res.get_kernels_by_pos_key()}")
    for name in ("positions", "transition_infos"):
        mgr = getattr(res, name)
        emit(
            f"{tag} :: {name} per-epoch "
            f"{[(int(c.epoch.type), len(c._chunks_list)) for c in mgr._chains]}"
        )
    dump(tag + " final prng", engine._prng_key)
    dump(tag + " final model states", engine._model_states)
    dump(tag + " final kernel states", engine._kernel_states)
    emit(f"{tag} :: done {engine.is_sampling_done()} epoch {engine._epoch!r}")


def make_engine(
    num_chains,
    epochs,
    chunk,
    position_keys,
    *,
    store_ks=False,
    minimize=False,
    n_gens=0,
    use_key=False,
    with_errors=False,
    history=False,
    show_progress=False,
):
    con = DictInterface(log_prob)
    k0 = CountKernel(["x"], use_key=use_key, with_errors=with_errors, history=history)
    k1 = CountKernel(["y", "z"], use_key=False)
    for i, k in enumerate((k0, k1)):
        k.set_model(con)
        k.identifier = f"ker{i}"
    seeds = jax.random.split(jax.random.PRNGKey(7), num_chains)
    gens = [QuantGen(f"gen{i}") for i in range(n_gens)]
    eng = Engine(
        seeds,
        make_model_states(num_chains),
        KernelSequence([k0, k1]),
        epochs,
        chunk,
        con,
        position_keys,
        minimize_transition_infos=minimize,
        store_kernel_states=store_ks,
        quantity_generators=gens,
        show_progress=show_progress,
    )
    return eng, (k0, k1)


def engine_part() -> None:
    emit("== engine")
    configs = [
        # name, chains, epochs, chunk, position keys, kwargs
        (
            "basic",
            2,
            [ec(IV, 1), ec(FA, 6), ec(BU, 4), ec(PO, 8)],
            2,
            ["x"],
            dict(),
        ),
        (
            "thinned",
            3,
            [ec(IV, 1), ec(FA, 10, 3), ec(SA, 5, 2), ec(BU, 5, 5), ec(PO, 15, 5)],
            5,
            ["x", "y"],
            dict(store_ks=True, n_gens=2, with_errors=True),
        ),
        (
            "thinned chunk1",
            3,
            [ec(IV, 1), ec(FA, 10, 3), ec(SA, 5, 2), ec(BU, 5, 5), ec(PO, 15, 5)],
            1,
            ["x", "y"],
            dict(store_ks=True, n_gens=2, with_errors=True),
        ),
        (
            "nothing survives warmup",
            1,
            [ec(IV, 1), ec(BU, 4, 4), ec(BU, 6, 6), ec(PO, 6, 3), ec(PO, 6, 2)],
            2,
            None,
            dict(minimize=True, n_gens=1),
        ),
        (
            "default keys and random kernel",
            2,
            [ec(IV, 1), ec(SA, 6, 2), ec(PO, 9, 3)],
            3,
            None,
            dict(use_key=True, store_ks=True, history=True),
        ),
        (
            "tracked non-kernel keys, progress",
            2,
            [ec(IV, 1), ec(FA, 4, 1), ec(PO, 4, 2)],
            4,
            ["c", "z", "x"],
            dict(show_progress=True, minimize=True, with_errors=True),
        ),
        (
            "posterior only",
            2,
            [ec(IV, 1), ec(PO, 6, 2)],
            3,
            ["z"],
            dict(n_gens=1),
        ),
        (
            "no tracked keys, thinning fails",
            2,
            [ec(IV, 1), ec(PO, 6, 2)],
            3,
            [],
            dict(n_gens=1),
        ),
        (
            "no tracked keys, unthinned",
            2,
            [ec(IV, 1), ec(BU, 2, 1), ec(PO, 4, 1)],
            2,
            [],
            dict(store_ks=True),
        ),
    ]
    for name, chains, epochs, chunk, pkeys, kw in configs:
        tag = f"engine[{name}]"
        eng, kernels = make_engine(chains, epochs, chunk, pkeys, **kw)
        emit(f"{tag} :: position keys {list(eng._position_keys)}")
        attempt(tag + " current epoch before", lambda eng=eng: eng.current_epoch)
        attempt(tag + " sample", eng.sample_all_epochs)
        res = eng.get_results()
        dump_results(tag, res, eng)
        emit(f"{tag} :: history shapes {[k.history_shapes for k in kernels]}")
        attempt(tag + " next epoch when done", eng.sample_next_epoch)
        # continue with an appended epoch
        eng.append_epoch(ec(PO, chunk * 2, 2 if chunk % 2 == 0 or chunk == 1 else 1))
        emit(f"{tag} :: done after append {eng.is_sampling_done()}")
        attempt(tag + " sample appended", eng.sample_next_epoch)
        dump(tag + " samples after append", eng.get_results().get_samples())
        dump(
            tag + " infos after append",
            eng.get_results().transition_infos.combine_all().value,
        )
        flush_logs(tag)

    # step-wise driving and error paths
    tag = "engine[errors]"
    eng, _ = make_engine(2, [ec(IV, 1), ec(BU, 6, 2), ec(PO, 4, 2)], 4, ["x"])
    attempt(tag + " duration before start", lambda: eng._sample_for_duration(4))
    eng.sample_next_epoch()
    emit(f"{tag} :: after initial {eng._epoch!r}")
    dump(tag + " after initial samples", eng.get_results().get_samples())
    attempt(tag + " posterior before", eng.get_results().get_posterior_samples)
    attempt(tag + " bad chunk", eng.sample_next_epoch)  # 6 % 4 != 0
    emit(f"{tag} :: epoch still active {eng._epoch is not None}")
    attempt(tag + " start while active", eng.sample_next_epoch)
    attempt(tag + " too long", lambda: eng._sample_for_duration(8))
    attempt(tag + " partial", lambda: eng._sample_for_duration(4))
    dump(tag + " partial samples", eng.get_results().get_samples())
    emit(f"{tag} :: time left {eng.current_epoch.time_left()}")
    attempt(tag + " rest too long", lambda: eng._sample_for_duration(4))
    dump(tag + " final prng", eng._prng_key)
    flush_logs(tag)

    tag = "engine[zero chunk]"
    eng, _ = make_engine(1, [ec(IV, 1), ec(PO, 4, 2)], 0, ["x"])
    eng.sample_next_epoch()
    attempt(tag, eng.sample_next_epoch)
    flush_logs(tag)

    # chunk independence for key-ignoring kernels
    ref = None
    for chunk in (1, 2, 3, 6):
        eng, _ = make_engine(
            2,
            [ec(IV, 1), ec(FA, 6, 2), ec(PO, 12, 3)],
            chunk,
            ["x", "y"],
            store_ks=True,
        )
        eng.sample_all_epochs()
        r = eng.get_results()
        cur = jax.tree_util.tree_map(
            np.asarray,
            (
                r.get_samples(),
                r.get_posterior_samples(),
                r.transition_infos.combine_all().unwrap(),
                r.kernel_states.unwrap().combine_all().unwrap(),
            ),
        )
        if ref is None:
            ref = cur
            dump("engine[chunking] reference", cur)
        same = jax.tree_util.tree_all(
            jax.tree_util.tree_map(lambda a, b: np.array_equal(a, b), ref, cur)
        )
        emit(f"engine[chunking] chunk={chunk} equal to chunk=1: {same}")
    flush_logs("engine[chunking]")


# ---------------------------------------------------------------------------
# part 3: builder
# ---------------------------------------------------------------------------


def make_builder(
    num_chains=2,
    epochs=None,
    *,
    seed=3,
    kernels=None,
    gens=(),
    jitter=None,
    model=True,
    state=True,
    multiple=True,
):
    b = EngineBuilder(seed=seed, num_chains=num_chains)
    b.show_progress = False
    if epochs is None:
        epochs = [ec(IV, 1), ec(FA, 6, 2), ec(BU, 9, 3), ec(PO, 12, 4)]
    b.set_epochs(epochs)
    if model:
        b.set_model(DictInterface(log_prob))
    if state:
        if multiple:
            b.set_initial_values(make_model_states(num_chains), multiple_chains=True)
        else:
            single = jax.tree_util.tree_map(lambda v: v[0], make_model_states(1))
            b.set_initial_values(single)
    if kernels is None:
        kernels = [CountKernel(["x"]), CountKernel(["y", "z"])]
    for k in kernels:
        b.add_kernel(k)
    for g in gens:
        b.add_quantity_generator(g)
    if jitter is not None:
        b.set_jitter_fns(jitter)
    return b


def builder_part() -> None:
    emit("== builder")

    def run(tag, b):
        eng = attempt(tag + " build", b.build)
        flush_logs(tag + " build")
        if eng is None:
            emit(
                f"{tag} :: kernels after failed build "
                f"{[(k.identifier, k.has_model()) for k in b.kernels]}"
            )
            return None
        emit(
            f"{tag} :: chunk {eng._jitted_sample_duration} keys "
            f"{list(eng._position_keys)} seeds {leaf_line(eng._seeds)} "
            f"idents {[k.identifier for k in b.kernels]} "
            f"flags {eng._store_kernel_states} {eng._minimize_transition_infos} "
            f"{eng._show_progress} gens {[g.identifier for g in eng._quantity_generators]}"  # noqa: E501
        )
        emit(
            f"{tag} :: builder lists after build incl={b.positions_included} "
            f"excl={b.positions_excluded}"
        )
        dump(tag + " initial model states", eng._model_states)
        attempt(tag + " sample", eng.sample_all_epochs)
        dump_results(tag, eng.get_results(), eng)
        flush_logs(tag)
        return eng

    run("builder[default]", make_builder())

    b = make_builder(3, [ec(IV, 1), ec(FA, 10, 5), ec(BU, 15, 3), ec(PO, 20, 10)])
    b.positions_included = ["c", "z"]
    b.positions_excluded = ["y", "c", "not there"]
    b.store_kernel_states = True
    run("builder[included/excluded]", b)

    b = make_builder(2, gens=[QuantGen("g0"), QuantGen("g1")], multiple=False)
    b.positions_included = ["x", "c", "c"]  # duplicates stay duplicates
    b.minimize_transition_infos = True
    run("builder[duplicated included]", b)

    b = make_builder(2, [ec(IV, 1), ec(PO, 7, 7)])
    b.positions_excluded = ["x", "y", "z"]
    run("builder[all excluded, single epoch]", b)

    b = make_builder(2, [ec(IV, 1), ec(FA, 4, 1), ec(PO, 6, 3)])
    b.positions_included = ("c",)  # type: ignore
    b.positions_excluded = {"z"}  # type: ignore
    run("builder[tuple/set lists]", b)

    jit = {
        "x": lambda key, cv: cv + jax.random.uniform(key, cv.shape),
        "z": lambda key, cv: cv - jax.random.uniform(key, cv.shape),
    }
    run("builder[jitter, missing y]", make_builder(2, jitter=jit))
    jit_all = dict(jit)
    jit_all["y"] = lambda key, cv: cv * 2
    run("builder[jitter all]", make_builder(3, jitter=jit_all))

    named = [CountKernel(["x"]), CountKernel(["y"]), CountKernel(["z"])]
    named[1].identifier = "custom"
    run("builder[named kernel]", make_builder(2, kernels=named))

    # error paths
    run(
        "builder[duplicate pos key]",
        make_builder(2, kernels=[CountKernel(["x", "y"]), CountKernel(["y"])]),
    )
    run(
        "builder[duplicate generator]",
        make_builder(2, gens=[QuantGen("g"), QuantGen("h"), QuantGen("g")]),
    )
    run("builder[no model]", make_builder(2, model=False))
    run("builder[no state]", make_builder(2, state=False))
    b = make_builder(2)
    b.set_engine_seed(jax.random.split(jax.random.PRNGKey(0), 3))
    run("builder[wrong seeds]", b)
    b = make_builder(2)
    b.set_engine_seed(jax.random.split(jax.random.PRNGKey(0), 2))
    run("builder[multi seeds]", b)
    b = make_builder(2)
    b.set_engine_seed(11)
    run("builder[int engine seed]", b)
    b = make_builder(2)
    b.positions_included = None  # type: ignore
    run("builder[included None]", b)
    b = make_builder(2)
    b.positions_excluded = None  # type: ignore
    run("builder[excluded None]", b)
    b = make_builder(2, [ec(IV, 1)])
    run("builder[only initial epoch]", b)
    b = EngineBuilder(seed=1, num_chains=2)
    attempt("builder[no epochs] build", b.build)
    b = make_builder(2, kernels=[])
    run("builder[no kernels]", b)
    b = make_builder(2)
    b.set_duration(150, 50, term_duration=25, thinning_posterior=5, thinning_warmup=5)
    emit(f"builder[set_duration] :: epochs {b.epochs}")
    run("builder[set_duration]", b)


def main() -> None:
    pkg = os.path.dirname(os.path.abspath(liesel.__file__))
    emit(f"liesel imported from cwd checkout: {pkg == os.path.join(os.getcwd(), 'liesel')}")  # noqa: E501
    chain_part()
    engine_part()
    builder_part()
    digest = hashlib.sha256("\n".join(LINES).encode()).hexdigest()
    print(f"TOTAL LINES {len(LINES)}")
    print(f"DIGEST {digest}")


if __name__ == "__main__":
    main()
