#!/usr/bin/env python3
"""
Prepares a round of independent BEHAVIOUR-PRESERVING changes (the negative control of the
seeding rounds): a scratch worktree and a prompt per property.  The sub-agent sees only the
property record; it must produce realistic maintainer commits that keep the property (and all
observable behaviour) intact.  Every check must stay silent on them.
usage: python3-vt tools/make_twin_round.py /tmp/tw1 [C01 ...]
"""
import json
import os
import subprocess
import sys

HERE = os.path.dirname(os.path.dirname(os.path.abspath(__file__)))
root = sys.argv[1]
props = {}
for line in open(os.path.join(HERE, "properties.jsonl")):
    d = json.loads(line)
    props[d["id"]] = d
want = sys.argv[2:] or sorted(props)
os.makedirs(root, exist_ok=True)

TEMPLATE = """You are working in a scratch git worktree of the Python library "liesel" (a JAX-based probabilistic programming framework with a cached DAG model graph, and "Goose", a modular MCMC engine) at {wt}. Python interpreter: /venv/bin/python. There is no network. Work ONLY inside {wt} (never modify /repo or /verif or any other directory; do not look into /verif). Do not use `git stash` (the stash is shared between worktrees).

IMPORTANT: the installed `liesel` package points at /repo, so always run with `cd {wt} && PYTHONPATH={wt} /venv/bin/python ...` and verify once with `PYTHONPATH={wt} /venv/bin/python -c 'import liesel; print(liesel.__file__)'` that the worktree's copy is imported.

Here is a semantic property that the library satisfies (JSON record; "anchors" point at the code that makes it hold):

{record}

TASK: act as a careful MAINTAINER. Produce THREE different, realistic commits that touch the code this property rests on (the anchored functions, their helpers or their callers) and that are strictly BEHAVIOUR-PRESERVING: for every input, call sequence and configuration the library computes exactly what it computed before (same values, same exceptions, same side effects on user objects), so the property above keeps holding. Think of what maintainers really do to such code:
  - extract a block into a private helper method/function, or inline a small helper;
  - rename local variables or private helpers (and all their uses);
  - restructure control flow (early return instead of nested if, `if/else` swapped with the condition negated, a loop instead of a comprehension or vice versa, a guard clause moved to the top when nothing before it has an effect);
  - replace an expression by an equivalent one (`jnp.minimum(x, 1.0)` for `jnp.clip(x, max=1.0)`, `not a or not b` for `not (a and b)`, keyword arguments instead of positional ones, a temporary variable introduced or removed);
  - add type annotations, a docstring, comments, a log/debug message, an unused keyword-only parameter with a default, a `__repr__`, an assertion message;
  - move a function within its module, reorder methods, tidy imports;
  - change an iteration idiom (`enumerate` / `zip` / `range(len(...))` / `dict.items()` / tuple unpacking in the loop header), merge two adjacent loops over the same sequence or split one loop in two when the iterations are independent;
  - merge duplicated code of two sibling methods into a shared private helper or a small private base-class method; turn a private method into a module-level function (or back) and update its callers;
  - replace a chain of `if/elif` on a value by a lookup in a small dict or tuple of alternatives (or the converse), use a conditional expression, the walrus operator, `dict.get`, `any`/`all`, `sum(...)`, `functools.partial` where they express the same computation;
  - introduce a small private dataclass / NamedTuple for values that travel together inside one function, or remove one.
Prefer the LESS obvious kinds of the list (the last four bullets, helper extraction with several call sites, restructured loops) over plain renames. Each of the three commits should combine two or three such edits at the anchored code (not only cosmetic whitespace), use a DIFFERENT kind of edit than the other two, and be something you would defend in code review as "no functional change". Do not change public signatures' positional parameters, defaults that callers rely on, or numerical operation order (floating-point results must be bit-identical).

For each change, in a new directory {wt}/_twin/<short_name>/ :
  - patch.diff : output of `git diff` for liesel/ against HEAD (applicable with `git apply` from the worktree root); each patch is independent, against unmodified HEAD;
  - equiv.py : a small deterministic program that exercises the changed code paths (including the boundary cases the property mentions) and prints a digest of all results; run it on HEAD and with the patch and confirm the outputs are IDENTICAL (save both as out_head.txt / out_patched.txt). It must not hard-code the worktree path;
  - notes.md : what was edited, and the argument why no input can tell the difference.
Also run the test files that exercise the modules you changed (`cd {wt} && PYTHONPATH={wt} /venv/bin/python -m pytest -q -p no:cacheprovider tests/<...>`), and the whole suite once for one of the patches; they must pass.
When you are done, leave the worktree's liesel/ directory reverted to HEAD (`git checkout -- liesel`), keeping only the _twin/ directory. Finally report: the names of the three directories, a 2-sentence summary of each, and what you ran.
"""

for p in want:
    wt = os.path.join(root, p)
    if not os.path.isdir(wt):
        subprocess.run(["git", "-C", "/repo", "worktree", "add", "-q", "--detach", wt, "HEAD"],
                       check=True)
    open(os.path.join(root, f"{p}.prompt.md"), "w").write(
        TEMPLATE.format(wt=wt, record=json.dumps(props[p], indent=1)))
    print(p)
