#!/bin/bash
# usage: tools/twin_reasons.sh <patch.diff>  -- applies the patch to a scratch copy and prints the
# distinct (rule, text) reports of all checks with their counts (triage aid for twin rounds)
s=$(mktemp -d /dev/shm/lsa_tw_XXXXXX)
cp -r /repo/liesel "$s/liesel"
( cd "$s" && git apply -p1 "$1" ) || { echo "patch fails"; rm -rf "$s"; exit 2; }
cd /verif
for p in $(cat tools/built.txt); do
  LSA_EVIDENCE_DIR="$s" python3-vt -m lsa check "$p" --no-selftest --repo "$s" 2>&1 | grep " -- " | sed -E 's/^[^ ]+ [^ ]+ -- //' | sed -E 's/^C[0-9]+\.R[0-9]+ (\[[a-z]+\]) -- \[(C[0-9]+\.R[0-9]+)\]/\2 \1 --/' 
done | cut -c1-230 | sort | uniq -c | sort -rn
rm -rf "$s"
