"""
Intervals over the extended reals with a may-be-NaN flag, evaluated on terms.

Abstract value: (lo, hi, maynan).  Unknown constructs evaluate to TOP and make the
dependent obligation *unproven* (never silently true).
"""

from __future__ import annotations

import math

from ..core.terms import fn_name, kw

INF = math.inf
TOP = (-INF, INF, True)


def join(a, b):
    return (min(a[0], b[0]), max(a[1], b[1]), a[2] or b[2])


def const(v):
    if isinstance(v, bool):
        v = int(v)
    if isinstance(v, (int, float)):
        if isinstance(v, float) and math.isnan(v):
            return (INF, -INF, True)
        return (float(v), float(v), False)
    return TOP


class IntervalEval:
    def __init__(self, known=None):
        self.known = dict(known or {})
        self.unmodelled: list = []

    def ev(self, t):
        if t in self.known:
            return self.known[t]
        tag = t[0]
        if tag == "c":
            return const(t[1])
        if tag == "g":
            if t[1] in ("jax.numpy.inf", "numpy.inf", "math.inf"):
                return (INF, INF, False)
            if t[1] in ("jax.numpy.nan", "numpy.nan", "math.nan"):
                return (INF, -INF, True)
        if tag == "u" and t[1] == "-":
            lo, hi, nan = self.ev(t[2])
            return (-hi, -lo, nan)
        if tag == "call":
            name = fn_name(t[1]) or ""
            short = name.rsplit(".", 1)[-1]
            if name.startswith(("jax.numpy.", "numpy.", "jax.lax.", "math.")):
                if short == "exp" and len(t[2]) == 1:
                    lo, hi, nan = self.ev(t[2][0])
                    elo = 0.0 if lo == -INF else math.exp(min(lo, 700))
                    ehi = INF if hi == INF else math.exp(min(hi, 700))
                    return (elo, ehi, nan)
                if short == "clip":
                    x = self.ev(kw(t, "a", 0) or kw(t, "x", 0) or kw(t, "arr", 0))
                    lo_t = kw(t, "min", 1) or kw(t, "a_min")
                    hi_t = kw(t, "max", 2) or kw(t, "a_max")
                    lo, hi, nan = x
                    if lo_t is not None and lo_t != ("c", None):
                        b = self.ev(lo_t)
                        lo, hi = max(lo, b[0]), max(hi, b[0])
                        nan = nan or b[2]
                    if hi_t is not None and hi_t != ("c", None):
                        b = self.ev(hi_t)
                        lo, hi = min(lo, b[1]), min(hi, b[1])
                        nan = nan or b[2]
                    return (lo, hi, nan)
                if short == "minimum" and len(t[2]) == 2:
                    a, b = self.ev(t[2][0]), self.ev(t[2][1])
                    return (min(a[0], b[0]), min(a[1], b[1]), a[2] or b[2])
                if short == "maximum" and len(t[2]) == 2:
                    a, b = self.ev(t[2][0]), self.ev(t[2][1])
                    return (max(a[0], b[0]), max(a[1], b[1]), a[2] or b[2])
                if short in ("asarray", "array", "float32", "squeeze") and len(t[2]) == 1:
                    return self.ev(t[2][0])
        if tag == "proj" and t[1][0] == "tuple" and isinstance(t[2], int):
            return self.ev(t[1][1][t[2]])
        self.unmodelled.append(t)
        return TOP
