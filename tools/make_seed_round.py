#!/usr/bin/env python3
"""
Prepares one round of independent seeding: a scratch git worktree of /repo and a
self-contained prompt per property under <root>/ (outside /repo and /verif).  The prompt
carries ONLY the property record and the names / triggers of changes earlier seeders already
produced for it (so they are not repeated) -- nothing about the checks.
usage: python3-vt tools/make_seed_round.py /tmp/wt8 [C01 C05 ...]
Afterwards: start one fresh sub-agent per property with
  "Read the file <root>/<P>.prompt.md and carry out exactly the task it describes. ..."
then tools/eval_round.sh <root>, tools/confirm_seed.sh, tools/import_seeds.py <root>.
"""
import json
import os
import subprocess
import sys

HERE = os.path.dirname(os.path.dirname(os.path.abspath(__file__)))
root = sys.argv[1]
props = {}
for line in open(os.path.join(HERE, "properties.jsonl")):
    d = json.loads(line)
    props[d["id"]] = d
want = sys.argv[2:] or sorted(props)
os.makedirs(root, exist_ok=True)

earlier = {}
sd = os.path.join(HERE, "seeded")
for d in sorted(os.listdir(sd)):
    mp = os.path.join(sd, d, "meta.json")
    if os.path.isfile(mp):
        m = json.load(open(mp))
        earlier.setdefault(m["property"], []).append(
            f"- {m['name']}: {m.get('needs_to_manifest', '')[:260]}")

TEMPLATE = """You are working in a scratch git worktree of the Python library "liesel" (a JAX-based probabilistic programming framework with a cached DAG model graph, and "Goose", a modular MCMC engine) at {wt}. Python interpreter: /venv/bin/python. There is no network. Work ONLY inside {wt} (never modify /repo or /verif or any other directory; do not look into /verif). Do not use `git stash` (the stash is shared between worktrees).

IMPORTANT: the installed `liesel` package points at /repo, so always run with `cd {wt} && PYTHONPATH={wt} /venv/bin/python ...` and verify once with `PYTHONPATH={wt} /venv/bin/python -c 'import liesel; print(liesel.__file__)'` that the worktree's copy is imported.

Here is a semantic property that the library is supposed to satisfy (JSON record; "anchors" point at the code meant to make it hold):

{record}

TASK: act as a "bug seeder". Produce a change to the library source (files under {wt}/liesel/ only; do not edit tests) that BREAKS this property, while
 (a) the library still imports and compiles, and
 (b) the existing test suite still passes. The suite is `cd {wt} && PYTHONPATH={wt} /venv/bin/python -m pytest -q -p no:cacheprovider tests/` (about 3-5 minutes in total; MCMC tests are skipped by default; do not pass --run-mcmc). At minimum run every test file that exercises the modules you changed, and the whole suite once for your final patch(es).
The change must be realistic -- the kind of defect a competent developer could introduce in a refactor, an optimisation, a "simplification", a new feature or a well-meant bug fix -- and it must need something SPECIFIC to manifest: a particular interleaving or multi-step sequence of operations, an unusual input or boundary value, a particular configuration, or two cooperating sites that each look fine alone. Do NOT produce changes that ordinary use would expose at once (e.g. crashing on the first call, or breaking the documented examples).

Earlier seeders already produced the changes listed below for this property. Do NOT repeat them or close variants of them (same code site AND same mechanism); look for something they did not think of:
{earlier}

Where to look this time: {angle}

Please produce TWO different changes if you can (different mechanisms / different code sites), each independent of the other (each a separate patch against the unmodified HEAD).

Deliverables, for each change, in a new directory {wt}/_seed/<short_name>/ :
  - patch.diff : output of `git diff` for liesel/ against HEAD, applicable with `git apply` from the worktree root;
  - demo.py (or test_demo.py) : a small self-contained program (or pytest test) that FAILS (non-zero exit status / failing assertion) when the change is applied and PASSES on the unmodified code. It must run in under 2 minutes on CPU, must be deterministic, and must not hard-code the worktree path (it is run with PYTHONPATH pointing at another copy). Run it both ways and record the outputs;
  - notes.md : which clause of the property it breaks, what it needs in order to manifest, which existing tests you ran with the change applied and their result, and the demo outputs with and without the change.
When you are done, leave the worktree's liesel/ directory reverted to HEAD (`git checkout -- liesel`), keeping only the _seed/ directory. Finally report: the names of the seed directories, a 2-3 sentence summary of each change, and confirmation of what you ran.
"""

ANGLE = os.environ.get("SEED_ANGLE") or (
    "code the property depends on but that lies OUTSIDE the anchored lines or files (callers, "
    "helpers, base classes, defaults, the builder / interface layer, data classes, pytree "
    "registration, properties and setters); changes of evaluation order, of which object is "
    "shared or copied, of what is cached and when the cache is invalidated; new optional "
    "parameters or fast paths that are right for the common case only.")

for p in want:
    wt = os.path.join(root, p)
    if not os.path.isdir(wt):
        subprocess.run(["git", "-C", "/repo", "worktree", "add", "-q", "--detach", wt, "HEAD"],
                       check=True)
    text = TEMPLATE.format(wt=wt, record=json.dumps(props[p], indent=1),
                           earlier="\n".join(earlier.get(p, ["(none)"])), angle=ANGLE)
    open(os.path.join(root, f"{p}.prompt.md"), "w").write(text)
    print(p, len(earlier.get(p, [])), "earlier seeds listed")
