"""
C15 -- built models are complete, acyclic, uniquely named, frozen, and round-trip.
"""

from __future__ import annotations

import ast

from ..core.cfg import CFG, ENTRY, EXIT, RAISE
from ..core.terms import (c, evaluate, fn_name, kw, make_inliner, n, pretty, subterms)
from .c01 import wiring_obligations
from .common import LIB_FACTS, is_call, method, short

NODES = "liesel.model.nodes"
MODEL = "liesel.model.model"
SELF = n("self")
STATE_FIELDS = {"_value", "_outdated"}
GUARDS = {"no_model_method", "no_model_setter"}
MUTATING = {"update", "pop", "popitem", "clear", "setdefault", "append", "extend", "insert",
            "remove", "sort", "reverse", "add", "discard"}
# public mutators that are deliberately not frozen, one line of reason each
FREEZE_EXCEPTIONS = {
    f"{NODES}.Var.auto_transform#setter": "metadata consumed at build time only",
    f"{NODES}.Var.role#setter": "free-text metadata, not part of the graph",
    f"{NODES}.Node.flag_outdated": "cache state, guarded by in_model_method",
}


def _leave_inl(repo, mc):
    """pop / copy may delegate to private helpers of the model (release, detach): inline
    them so that the rules see the effects wherever they are written."""
    return make_inliner(repo, self_class=mc, allow=lambda f: f.cls is not None
                        and f.cls.qualname == mc.qualname and f.name.startswith("_")
                        and not f.name.startswith("__"))


def check(ctx):
    repo = ctx.repo
    ctx.rule("R1", "every public method / property setter of Node, Var and their subclasses "
                   "that writes a structural field is guarded by no_model_method / "
                   "no_model_setter; the guards raise before calling the wrapped function "
                   "iff the object belongs to a model.")
    ctx.rule("R2", "_all_nodes_and_vars is a worklist closure over all_input_nodes() and the "
                   "nodes of every variable, de-duplicated by identity.")
    ctx.rule("R3", "reserved-name and duplicate-name checks precede model construction / "
                   "wiring; generated names never collide with existing ones.")
    ctx.rule("R4", "outputs are wired as the inverse of inputs and updates are ordered "
                   "topologically (shared with C01.R5).")
    ctx.rule("R5", "pop_nodes_and_vars and copy_nodes_and_vars both detach every node from "
                   "the model and drop the model-owned '_model*' nodes; pop empties the "
                   "model's containers.")
    ctx.rule("R8", "inputs that build_model attaches to user nodes (seed nodes) are detached "
                   "again by pop_nodes_and_vars / copy_nodes_and_vars, so that popped or "
                   "copied nodes can be built into a model again.")
    ctx.rule("R9", "build_model edits only a private copy of the builder, and that copy "
                   "does not share its node / variable lists with the original.")
    ctx.rule("R6", "pickling replaces exactly the weak model reference and restores it; "
                   "save_model / load_model use the same serializer in binary mode.")
    ctx.rule("R7", "a node / variable can belong to one model / variable only: the owner "
                   "check precedes the store.")
    ctx.trust(LIB_FACTS["toposort"], LIB_FACTS["pickle"])
    ctx.undecided("identical behaviour after pop/rebuild, deep copy and save/load round "
                  "trips (value-level)")

    # ------------------------------------------------------------------ R1
    node = repo.cls(f"{NODES}.Node")
    var = repo.cls(f"{NODES}.Var")
    classes = [node] + repo.subclasses(node) + [var] + repo.subclasses(var)
    guarded, checked = 0, 0
    # container-typed private fields (mutating method calls on them change structure)
    containers = set()
    for ci in classes:
        ini = ci.own_method("__init__")
        if ini is None:
            continue
        for loc, val, _, _ in evaluate(repo, ini).stores:
            if loc[0] == "a" and loc[1] == SELF and (
                    val[0] in ("dict", "list", "set") or (val[0] == "comp" and val[1] in (
                        "dict", "list", "set")) or is_call(val, "dict", "list", "set")):
                containers.add(loc[2])
    for ci in classes:
        for mname, fis in sorted(ci.methods.items()):
            for fi in fis:
                if mname.startswith("_"):
                    continue
                decs = fi.decorators()
                is_setter = any(d.endswith(".setter") for d in decs)
                is_getter = "property" in decs
                if is_getter:
                    continue
                key = fi.qualname + ("#setter" if is_setter else "")
                r = evaluate(repo, fi)
                writes = []
                for loc, val, nd, cond in r.stores:
                    if loc[0] == "a" and loc[1] == SELF and loc[2].startswith("_") \
                            and loc[2] not in STATE_FIELDS:
                        writes.append(loc[2])
                for t, nd, cond in r.calls:
                    f = t[1]
                    if t[0] == "call" and f[0] == "a" and f[2] in MUTATING and f[1][0] == "a" \
                            and f[1][1] == SELF and f[1][2] in containers:
                        writes.append(f"{f[1][2]}.{f[2]}()")
                if not writes:
                    continue
                checked += 1
                g = [d for d in decs if d in GUARDS]
                if key in FREEZE_EXCEPTIONS:
                    ctx.ob("C15.R1", fi, f"tabled exception: {FREEZE_EXCEPTIONS[key]}", True,
                           nontrivial=False)
                    continue
                guarded += bool(g)
                ctx.ob("C15.R1", fi, f"public mutator of structural field(s) "
                                     f"{sorted(set(writes))} is guarded against use inside a "
                                     f"model", bool(g),
                       detail=f"decorators {decs}", stmt=f"unguarded {key}",
                       facts={"writes": sorted(set(writes)), "decorators": decs})
    ctx.require_min("public structural mutators examined", checked, 12)
    # public methods that mutate only through other public (guarded) members are fine;
    # the guards themselves:
    for gname in sorted(GUARDS):
        gfi = repo.func(f"{NODES}.{gname}")
        w = gfi.nested("wrapped")
        cfg = CFG(w.node)
        rw = evaluate(repo, w, closure={"fn": n("fn")})
        ifs = [s for s in cfg.stmts if isinstance(s, ast.If)]
        ok = False
        if len(ifs) == 1 and ast.unparse(ifs[0].test) == "self.model" and any(
                isinstance(b, ast.Raise) for b in ifs[0].body):
            calls = [(t, cond, nd) for t, nd, cond in rw.calls if t[1] == n("fn")]
            ok = (len(calls) == 1 and (("a", SELF, "model"), False) in calls[0][1]
                  and calls[0][0][2][:1] == (SELF,)
                  and len(rw.raises) == 1 and (("a", SELF, "model"), True) in rw.raises[0][0])
        ctx.ob("C15.R1", w, f"{gname}: raises when self.model is set, and only otherwise "
                            f"calls the wrapped function (the object is left unchanged)", ok,
               stmt=f"{gname} guard")
    mprop = method(repo, node, "model", "getter", own=True)
    ctx.ob("C15.R1", mprop, "Node.model dereferences the weak model reference",
           evaluate(repo, mprop).ret() == ("call", ("a", SELF, "_model"), (), ()))

    # ------------------------------------------------------------------ R2
    gb = repo.cls(f"{MODEL}.GraphBuilder")
    anv = method(repo, gb, "_all_nodes_and_vars", own=True)
    ra = evaluate(repo, anv)
    wl = [lp for lp in ra.loops if lp["cond"] is not None]
    ok = False
    detail = ""
    if len(wl) == 1:
        lp = wl[0]
        pops = [t for t, _, _ in lp["calls"] if t[1][0] == "a" and t[1][2] == "pop"]
        exts = [t for t, _, cond in lp["calls"] if t[1][0] == "a" and t[1][2] == "extend"]
        if len(pops) == 1:
            nd = pops[0]
            want_in = ("call", ("a", nd, "all_input_nodes"), (), ())
            want_var = ("a", ("a", nd, "var"), "nodes")
            has_in = any(t[2] == (want_in,) for t in exts)
            has_var = any(t[2] == (want_var,) for t in exts)
            dedupe = any(a[0] == "cmp" and a[1] == "in" and a[2] == nd
                         for t, _, cond in lp["calls"] for a, p in cond)
            ok = has_in and has_var and dedupe
            # exact guards: a node is expanded / recorded iff not yet recorded; its variable
            # iff it has one that is not yet recorded; the two records are what is returned
            apps = [(t, [(a, p) for a, p in cond if a[0] != "inloop"])
                    for t, _, cond in lp["calls"] if t[1][0] == "a" and t[1][2] == "append"]
            rec_n = [(t, g) for t, g in apps if t[2] == (nd,)]
            rec_v = [(t, g) for t, g in apps if t[2] == (("a", nd, "var"),)]
            guards_ok = False
            if len(rec_n) == 1 and len(rec_v) == 1:
                seen_n, seen_v = rec_n[0][0][1][1], rec_v[0][0][1][1]
                g_n = [(("cmp", "in", nd, seen_n), False)]
                g_v = g_n + [(("a", nd, "var"), True),
                             (("cmp", "in", ("a", nd, "var"), seen_v), False)]
                ext_in = [[(a, p) for a, p in cond if a[0] != "inloop"]
                          for t, _, cond in lp["calls"] if t[1][0] == "a"
                          and t[1][2] == "extend" and t[2] == (want_in,)]
                ext_var = [[(a, p) for a, p in cond if a[0] != "inloop"]
                           for t, _, cond in lp["calls"] if t[1][0] == "a"
                           and t[1][2] == "extend" and t[2] == (want_var,)]
                rt_ = ra.ret()
                guards_ok = (rec_n[0][1] == g_n and rec_v[0][1] == g_v and ext_in == [g_n]
                             and ext_var == [g_v] and rt_ is not None and rt_[0] == "tuple"
                             and len(rt_[1]) == 2
                             and rt_[1][0][:2] == ("loop", seen_n[1])
                             and rt_[1][1][:2] == ("loop", seen_v[1]))
            ok = ok and guards_ok
            detail = f"inputs pushed={has_in}, variable's nodes pushed={has_var}, " \
                     f"dedupe={dedupe}, guards and result={guards_ok}"
    ctx.ob("C15.R2", anv, "the worklist pushes node.all_input_nodes() and node.var.nodes "
                          "for every popped node and skips nodes already collected", ok,
           detail=detail, stmt="closure worklist " + detail)
    start = ra.loops[0]["before"] if ra.loops else {}
    rt = ra.ret()
    seeds_ok = any(is_call(t, "extend") or (t[1][0] == "a" and t[1][2] == "extend"
                                            and t[2] and (t[2][0][0] == "comp" or t[2][0] == (
                                                "a", ("iter", ("a", SELF, "vars")), "nodes")))
                   for t, _, _ in ra.calls)
    user_apps = {}
    for t, _, cond in ra.calls:
        if t[1][0] == "a" and t[1][2] == "append" and t[2] and t[2][0][0] == "a" \
                and t[2][0][1] == SELF and t[2][0][2].startswith("log_"):
            user_apps[t[2][0][2]] = [(a, p_) for a, p_ in cond if a[0] != "inloop"]
    ctx.ob("C15.R2", anv, "the worklist starts from the added nodes, the nodes of the added "
                          "variables and the user-supplied model nodes (each of the three "
                          "appended when it is set)", seeds_ok
           and user_apps == {a_: [(("a", SELF, a_), True)] for a_ in (
               "log_lik_node", "log_prior_node", "log_prob_node")},
           detail=str({k: [pretty(a)[:30] for a, _ in v] for k, v in user_apps.items()}),
           stmt="worklist seeds")

    # ------------------------------------------------------------------ R3
    bm = method(repo, gb, "build_model", own=True)
    cfg = CFG(bm.node)
    rb = evaluate(repo, bm)
    reserved = [s for s in cfg.stmts if isinstance(s, ast.If)
                and "startswith('_model')" in ast.unparse(s.test)
                and any(isinstance(b, ast.Raise) for b in s.body)]
    builds = [s for s in cfg.stmts if isinstance(s, ast.Assign) and "Model(" in ast.unparse(s.value)]
    loops = [s for s in cfg.stmts if isinstance(s, ast.For)
             and reserved and any(x is reserved[0] for x in ast.walk(s))]
    ok = (len(reserved) == 1 and len(builds) == 1 and len(loops) == 1
          and cfg.dominates(loops[0], builds[0]))
    trav0 = ("proj", ("call", ("a", SELF, "_all_nodes_and_vars"), (), ()), 0)
    ok = ok and any(
        any(a[0] == "call" and a[1][0] == "a" and a[1][2] == "startswith"
            and a[1][1] == ("a", ("iter", trav0), "name") and p for a, p in rc)
        for rc, _, _ in rb.raises)
    ctx.ob("C15.R3", bm, "user nodes named '_model*' are rejected for ALL collected nodes "
                         "before the model is constructed", ok, stmt="reserved names")
    dsn = method(repo, gb, "_do_set_missing_names", own=True)
    rd = evaluate(repo, dsn)
    ok = False
    if len(rd.loops) >= 2:
        inner = [lp for lp in rd.loops if lp["cond"] is not None]
        ok = (len(inner) == 1 and inner[0]["cond"][0] == "cmp" and inner[0]["cond"][1] == "in"
              and any(t[1][0] == "a" and t[1][2] == "append" for t, _, _ in rd.calls))
    ctx.ob("C15.R3", dsn, "a generated name is re-drawn while it collides with an existing or "
                          "previously generated name", ok, stmt="name generation")
    mc = repo.cls(f"{MODEL}.Model")
    init = method(repo, mc, "__init__", own=True)
    icfg = CFG(init.node)
    raises = [s for s in icfg.stmts if isinstance(s, ast.If)
              and ast.unparse(s.test) == "dups" and any(isinstance(b, ast.Raise) for b in s.body)]
    wiring = [s for s in icfg.stmts if isinstance(s, ast.For) and "_set_model" in ast.unparse(s)]
    ok = len(raises) == 3 and len(wiring) == 1 and all(icfg.dominates(r, wiring[0]) for r in raises)
    n_dup = len(raises)
    if not ok:
        # the three checks may live in a helper that is called three times: in evaluation
        # order, three "Duplicate <kind> names" rejections precede the first claim of a node
        r_init = evaluate(repo, init)
        dup_ticks = [r_init.raises.ticks[i_] for i_, (cd, exc, _) in enumerate(r_init.raises)
                     if "Duplicate" in pretty(exc)]
        kinds = {k_ for (cd, exc, _) in r_init.raises for k_ in ("node", "variable", "group")
                 if "Duplicate" in pretty(exc) and k_ in pretty(exc)}
        claim = [r_init.calls.ticks[i_] for i_, (t_, _, _) in enumerate(r_init.calls)
                 if t_[0] == "call" and t_[1][0] == "a" and t_[1][2] == "_set_model"]
        n_dup = len(dup_ticks)
        ok = (len(dup_ticks) == 3 and kinds == {"node", "variable", "group"} and claim
              and max(dup_ticks) < min(claim))
    ctx.ob("C15.R3", init, "duplicate node, variable and group names raise before any node is "
                           "attached to the model", ok,
           detail=f"{n_dup} duplicate checks, {len(wiring)} wiring loop", stmt="duplicates")
    ri = evaluate(repo, init)
    cnt = [t for t, _, _ in ri.calls if is_call(t, "collections.Counter")]
    ok = len(cnt) == 3 and all(t[2] and t[2][0][0] == "comp"
                               and t[2][0][2][0] == "a" and t[2][0][2][2] == "name" for t in cnt)
    ctx.ob("C15.R3", init, "duplicates are detected by counting the names of the "
                           "de-duplicated objects", ok)

    # names are completed before anything derives a name from them (seed nodes are called
    # _model_<node name>_seed)
    order = [(t[1][2], t[1][1]) for t, _, _ in rb.calls if t[0] == "call" and t[1][0] == "a"
             and t[1][2] in ("_set_missing_names", "_add_model_seed_nodes")]
    names_ = [o[0] for o in order]
    ctx.ob("C15.R3", bm, "missing names are set before the seed nodes (named after their "
                         "node) are created", names_ == ["_set_missing_names",
                                                         "_add_model_seed_nodes"],
           detail=str(names_), stmt="naming order " + str(names_))

    mcalls = [t for t, _, _ in rb.calls if is_call(t, f"{MODEL}.Model")]
    ok_m = (len(mcalls) == 1 and kw(mcalls[0], "grow", 1) == c(False)
            and kw(mcalls[0], "copy", 2) == n("copy"))
    ctx.ob("C15.R5", bm, "build_model hands its `copy` argument to Model (copy=True builds "
                         "from a deep copy, leaving the user's nodes free) and does not "
                         "grow the already complete graph again", ok_m,
           detail=short(mcalls[0], 120) if mcalls else "no Model(...) call",
           stmt="Model call " + (pretty(mcalls[0])[:100] if mcalls else ""))

    # ------------------------------------------------------------------ R9
    # build_model works on a private copy of the builder whose node / var lists are new
    # list objects, so the model nodes it adds never reach the user's builder
    gbcopy = ("call", ("a", SELF, "copy"), (), ())
    helpers = [t for t, _, _ in rb.calls if t[0] == "call" and t[1][0] == "a"
               and (t[1][2].startswith("_add_model") or t[1][2] == "_set_missing_names")]
    ctx.ob("C15.R9", bm, "naming and the model-owned nodes are applied to a copy of the "
                         "builder (gb = self.copy()), never to the user's builder",
           len(helpers) >= 5 and all(t[1][1] == gbcopy for t in helpers),
           detail=str(sorted({pretty(t[1][1]) for t in helpers})), stmt="builder copy used")
    cpm = method(repo, gb, "copy", own=True)
    rcp = evaluate(repo, cpm)
    rtc = rcp.ret()
    fresh_obj = rtc is not None and is_call(rtc, f"{MODEL}.GraphBuilder")
    lists_ok = False
    if fresh_obj:
        st = {loc[2]: val for loc, val, _, _ in rcp.stores if loc[0] == "a" and loc[1] == rtc}

        def fresh_list(v, fld):
            src = ("a", SELF, fld)
            return v in (("call", ("a", src, "copy"), (), ()),
                         ("call", ("n", "list"), (src,), ()),
                         ("list", (("star", src),)))
        lists_ok = fresh_list(st.get("nodes", ()), "nodes") and fresh_list(st.get("vars", ()),
                                                                            "vars")
    ctx.ob("C15.R9", cpm, "GraphBuilder.copy() returns a NEW builder whose nodes / vars are "
                          "new list objects (a shallow object copy would share the lists, and "
                          "build_model(copy=True) would leave '_model*' nodes in the user's "
                          "builder)", fresh_obj and lists_ok,
           detail=f"returns {short(rtc or ())}; fresh lists: {lists_ok}",
           stmt="builder copy " + pretty(rtc or ())[:100])

    # ------------------------------------------------------------------ R4
    wiring_obligations(ctx, "C15.R4")

    # ------------------------------------------------------------------ R5
    pop = method(repo, mc, "pop_nodes_and_vars", own=True)
    cp = method(repo, mc, "copy_nodes_and_vars", own=True)
    for fi in (pop, cp):
        r = evaluate(repo, fi, inline=_leave_inl(repo, mc), inline_depth=2)
        un = [t for t, _, cond in r.calls if t[1][0] == "a" and t[1][2] == "_unset_model"]
        ok_un = len(un) == 1 and un[0][1][1][0] == "iter"
        rt = r.ret()
        ok_f = False
        if rt is not None and rt[0] == "tuple" and rt[1][0][0] == "comp":
            comp = rt[1][0]
            conds = comp[3][0][2]
            ok_f = len(conds) == 1 and conds[0][0] == "u" and conds[0][1] == "not" and \
                conds[0][2][0] == "call" and conds[0][2][1][2] == "startswith" and \
                conds[0][2][2] == (c("_model"),)
        ctx.ob("C15.R5", fi, "every node is detached (_unset_model) and the model-owned "
                             "'_model*' nodes are dropped from the result", ok_un and ok_f,
               detail=f"unset={ok_un} filter={ok_f}", stmt=f"{fi.name} detach/filter")
    for fi in (pop, cp):
        r = evaluate(repo, fi, inline=_leave_inl(repo, mc), inline_depth=2)
        rt = r.ret()
        srcs = []
        if rt is not None and rt[0] == "tuple" and len(rt[1]) == 2:
            for comp in rt[1]:
                # the node dict is filtered (comprehension), the variable dict returned as is
                srcs.append(comp[3][0][1] if comp[0] == "comp" and len(comp[3]) == 1 else comp)
        def from_field(t, fld):
            base = t
            if base[0] == "call" and base[1][0] == "a" and base[1][2] == "items":
                base = base[1][1]
            if fi is pop:
                return base == ("call", ("a", ("a", SELF, fld), "copy"), (), ())
            dc = ("call", ("g", "copy.deepcopy"), (("tuple", (("a", SELF, "_nodes"),
                                                               ("a", SELF, "_vars"))),), ())
            return base == ("proj", dc, 0 if fld == "_nodes" else 1)
        ctx.ob("C15.R5", fi, "the first returned dict is built from the model's nodes, the "
                             "second from its variables", len(srcs) == 2
               and from_field(srcs[0], "_nodes") and from_field(srcs[1], "_vars"),
               detail=str([short(x, 60) for x in srcs]), stmt=f"{fi.name} sources")
    rp = evaluate(repo, pop, inline=_leave_inl(repo, mc), inline_depth=2)
    cleared = sorted(t[1][1][2] for t, _, _ in rp.calls if t[1][0] == "a" and t[1][2] == "clear"
                     and t[1][1][0] == "a" and t[1][1][1] == SELF)
    need = {"_nodes", "_vars", "_node_graph", "_var_graph", "_sorted_nodes"}
    ctx.ob("C15.R5", pop, "pop empties the model's node / variable / graph / order "
                          "containers", need <= set(cleared), detail=str(cleared),
           stmt=f"cleared {cleared}")
    rc = evaluate(repo, cp, inline=_leave_inl(repo, mc), inline_depth=2)
    dc = [t for t, _, _ in rc.calls if is_call(t, "copy.deepcopy")]
    ok = len(dc) == 1 and dc[0][2] == (("tuple", (("a", SELF, "_nodes"), ("a", SELF, "_vars"))),)
    ctx.ob("C15.R5", cp, "copy works on one joint deep copy of nodes and variables (shared "
                         "structure preserved, original untouched)", ok)
    cpy = [(val, cond) for loc, val, _, cond in ri.stores
           if loc == ("a", SELF, "_nodes") and any(is_call(x, "copy.deepcopy") for x in subterms(val))]
    ctx.ob("C15.R5", init, "Model(copy=True) deep-copies nodes and variables jointly before "
                           "attaching them -- exactly when copy is requested", len(cpy) >= 1
           and all([(a, p_) for a, p_ in cond
                    if (a, not p_) not in {rc[-1] for rc, _, _ in ri.raises if rc}]
                   == [(n("copy"), True)] for _, cond in cpy),
           detail=str([[pretty(a)[:30] + "=" + str(p_) for a, p_ in cond] for _, cond in cpy]),
           stmt="copy guard")
    # ... and everything the model keeps is derived from the (possibly copied) dicts: a
    # graph or an order computed from the nodes as they came in would consist of the
    # ORIGINALS when copy=True
    from ..core.terms import substitute
    first = {}
    for loc, val, _, cond in ri.stores:
        if loc in (("a", SELF, "_nodes"), ("a", SELF, "_vars")):
            first.setdefault(loc[2], val)
    kept = [(loc[2], val, nd) for loc, val, nd, _ in ri.stores if loc[0] == "a" and loc[1] == SELF
            and loc[2] not in ("_nodes", "_vars", "_auto_update")]
    pre = [v for v in first.values() if v is not None]
    stale = []
    for attr, val, nd in kept:
        # occurrences of the pre-copy dict that are NOT inside the copy-or-not selection
        holes = {}
        for x in subterms(val):
            if x[0] == "phi" and x[1] == n("copy") and any(p_ in set(subterms(x[3])) or p_ == x[3]
                                                           for p_ in pre):
                holes[x] = ("c", "<nodes-or-copies>")
        rest = substitute(val, holes) if holes else val
        inner = set(subterms(rest))
        # (whatever is derived from the argument outside that selection is the originals)
        if any(p_ in inner for p_ in pre) or n(init.pos_params()[1]) in inner:
            stale.append((attr, nd))
    ctx.ob("C15.R5", init, "every graph / order / list the model keeps is computed from "
                           "self._nodes / self._vars AFTER the optional deep copy (with "
                           "copy=True nothing refers to the caller's originals)",
           not stale and len(kept) >= 5, detail=f"from the originals: {[a for a, _ in stale]}; "
                                                 f"{len(kept)} kept attributes",
           node=stale[0][1] if stale else None,
           stmt="computed before the copy: " + ", ".join(a for a, _ in stale))

    # ---- structure can only be changed through the guarded mutators: no getter hands out
    # the internal mutable container itself
    leaks = []
    n_getters = 0
    for ci in classes + [mc]:
        for mname, fis in sorted(ci.methods.items()):
            for fi in fis:
                if "property" not in fi.decorators() and "in_model_getter" not in fi.decorators():
                    continue
                rt_g = evaluate(repo, fi).ret()
                n_getters += 1
                if rt_g is not None and rt_g[0] == "a" and rt_g[1] == SELF and (
                        rt_g[2] in containers or (ci is mc and rt_g[2] in ("_nodes", "_vars"))):
                    leaks.append((fi, rt_g[2]))
    ctx.ob("C15.R1", node, "property getters return immutable views or copies of the "
                           "structural containers (inputs as tuples, mappings as "
                           "MappingProxyType), never the internal dict / list itself",
           not leaks, detail="; ".join(f"{fi.qualname} returns self.{f}" for fi, f in leaks[:3]),
           node=leaks[0][0].node if leaks else None,
           stmt="getter leaks " + ", ".join(sorted(f"{fi.name}:{f}" for fi, f in leaks)))
    ctx.require_min("property getters examined", n_getters, 20)

    # ---- a FOREIGN node handed to a variable (new dist / value node) is checked for model
    # membership before the variable touches it: a rejected assignment leaves it unchanged
    n_foreign = 0
    for sname in ("dist_node", "value_node"):
        sfi = var.own_method(sname, "setter")
        if sfi is None:
            continue
        n_foreign += 1
        pname = [a for a in sfi.params() if a != "self"][0]
        body = sfi.node.body

        def touches(st):
            out = []
            for x in ast.walk(st):
                if isinstance(x, (ast.Assign, ast.AugAssign, ast.AnnAssign)):
                    tg = x.targets if isinstance(x, ast.Assign) else [x.target]
                    for t_ in tg:
                        if isinstance(t_, ast.Attribute) and isinstance(t_.value, ast.Name) \
                                and t_.value.id == pname:
                            out.append(x)
                elif isinstance(x, ast.Call) and isinstance(x.func, ast.Attribute) \
                        and isinstance(x.func.value, ast.Name) and x.func.value.id == pname \
                        and x.func.attr.startswith(("_set", "_unset", "set_", "add_", "_add",
                                                    "_clear", "update")):
                    out.append(x)
            return out

        def is_guard(st):
            return (isinstance(st, ast.If) and any(isinstance(b, ast.Raise) for b in st.body)
                    and any(isinstance(x, ast.Attribute) and x.attr == "model"
                            and isinstance(x.value, ast.Name) and x.value.id == pname
                            for x in ast.walk(st.test))
                    and not isinstance(st.test, ast.UnaryOp))
        g_idx = [i for i, st in enumerate(body) if is_guard(st)]
        m_idx = [(i, t_) for i, st in enumerate(body) for t_ in touches(st)]
        rebinds = [i for i, st in enumerate(body) for x in ast.walk(st)
                   if isinstance(x, ast.Assign) and any(isinstance(t_, ast.Name) and t_.id == pname
                                                        for t_ in x.targets)]
        ok_g = bool(g_idx) and bool(m_idx) and all(i > g_idx[0] for i, _ in m_idx) \
            and all(i < g_idx[0] for i in rebinds)
        first = min(m_idx, key=lambda z: z[0])[1] if m_idx else None
        ctx.ob("C15.R1", sfi, f"Var.{sname} setter: the node handed in is checked for model "
                              f"membership (and rejected) before the variable writes "
                              f"anything to it", ok_g,
               detail=f"guard at statement {g_idx}, first write to the foreign node at "
                      f"statement {[i for i, _ in m_idx][:1]}", node=first,
               stmt=f"{sname} setter touches the foreign node before the membership check")
    ctx.require_min("Var setters that adopt a foreign node", n_foreign, 2)

    # ---- duplicate names are rejected by the Model constructor itself
    from ..domains import concrete as _cc
    dup_kinds = {}
    for rc, ex, nd in ri.raises:
        if not rc:
            continue
        atom, pol = rc[-1]
        if not (pol and atom[0] == "comp" and atom[1] == "list" and len(atom[3]) == 1):
            continue
        tgt, it, conds = atom[3][0]
        if not (it[0] == "call" and it[1][0] == "a" and it[1][2] == "items"
                and is_call(it[1][1], "collections.Counter") and len(conds) == 1):
            continue
        cnt_arg = it[1][1][2][0] if it[1][1][2] else None
        named = cnt_arg is not None and cnt_arg[0] == "comp" and cnt_arg[2][0] == "a" \
            and cnt_arg[2][2] == "name"
        vterm = ("proj", ("iter", it), 1)
        try:
            sel = {v for v in range(1, 6) if _cc.evaluate(conds[0], {vterm: v})}
        except _cc.Unmodelled:
            sel = None
        kind = "Var" if any(is_call(x, "isinstance") and x[2][1:] == (("g", f"{NODES}.Var"),)
                            for x in subterms(cnt_arg or ())) else (
            "Node" if any(is_call(x, "isinstance") and x[2][1:] == (("g", f"{NODES}.Node"),)
                          for x in subterms(cnt_arg or ())) else "other")
        dup_kinds[kind] = (named and atom[2] == ("proj", ("iter", it), 0)
                           and sel == {2, 3, 4, 5})
    ctx.ob("C15.R2", init, "Model(...) raises when a node name or a variable name occurs more "
                           "than once (the name counts are compared with > 1)",
           dup_kinds.get("Node") is True and dup_kinds.get("Var") is True,
           detail=str(dup_kinds), stmt="duplicate names " + str(dup_kinds))

    # ------------------------------------------------------------------ R8
    # build-time edits of USER nodes must be undone when the nodes leave the model
    edits = []
    for mname, fis in sorted(gb.methods.items()):
        if not mname.startswith("_add_model"):
            continue
        for fi in fis:
            r = evaluate(repo, fi)
            for t, nd, cond in r.calls:
                f = t[1]
                if t[0] == "call" and f[0] == "a" and f[2] in ("set_inputs", "add_inputs") \
                        and any(x[0] == "iter" for x in subterms(f[1])):
                    model_owned = [x for x in subterms(t) if x[0] == "fstr"
                                   and x[1] and x[1][0] == c("_model_")]
                    if model_owned:
                        edits.append((fi, t, nd))
    ctx.ob("C15.R8", gb, "build steps that attach model-owned inputs to user nodes are "
                         "known (seed inputs of seeded nodes)", len(edits) >= 1,
           detail=f"{len(edits)} edit site(s)", nontrivial=False)
    for fi_, t, nd in edits:
        # the attach side: the node keeps ALL its own inputs, and an input the user wired
        # under the same keyword wins over the model-owned one (the node graph the user
        # built is what the model must contain -- completeness and inputs/outputs inverse)
        tgt = t[1][1]
        own_pos = t[2] == (("star", ("a", tgt, "inputs")),)
        kws = [v for k, v in t[3] if k == "**"]
        own_kw = ("a", tgt, "kwinputs")

        def user_wins(v):
            # {seed: S} | node.kwinputs          (right operand wins)
            if v[0] == "op" and v[1] == "|" and v[3] == own_kw and v[2][0] == "dict":
                return True
            # {seed: S, **node.kwinputs}         (later entry wins)
            if v[0] == "dict":
                ks = [k for k, _ in v[1]]
                stars = [i for i, (k, val) in enumerate(v[1]) if k == ("star2",) and val == own_kw]
                seeds = [i for i, k in enumerate(ks) if k == c("seed")]
                return bool(stars) and bool(seeds) and max(seeds) < min(stars)
            return False
        guarded = any(a == ("cmp", "in", c("seed"), own_kw) and not p_
                      or a == ("cmp", "not in", c("seed"), own_kw) and p_ for a, p_ in
                      next((cd for u, _, cd in evaluate(repo, fi_).calls if u == t), ()))
        ok_attach = (t[1][2] == "set_inputs" and own_pos and len(kws) == 1 and not
                     [k for k, _ in t[3] if k != "**"] and user_wins(kws[0])) \
            or (t[1][2] == "add_inputs" and guarded)
        ctx.ob("C15.R8", fi_, "attaching the model-owned seed keeps every input of the node, "
                              "and a `seed` input the user wired wins over the model's "
                              "(node.set_inputs(*node.inputs, **{seed: S} | node.kwinputs))",
               ok_attach, unproven=t[1][2] not in ("set_inputs", "add_inputs"),
               detail=short(t, 220), node=nd, stmt="seed attach " + pretty(t)[:160])
        for leave in (pop, cp):
            r = evaluate(repo, leave, inline=_leave_inl(repo, mc), inline_depth=2)
            # the detachment may sit in the method or in a helper of the model class that
            # it calls with the detached nodes; what counts is a set_inputs(...) whose
            # keyword inputs are the node's own minus the model-owned `seed`, for every
            # node that leaves (after it was released from the model)
            bodies = [(leave, r)]
            for u, _, _ in r.calls:
                if u[0] == "call" and u[1][0] == "a" and u[1][1] == SELF:
                    hf = repo.lookup_method(mc, u[1][2])
                    if hf is not None and hf.qualname != leave.qualname:
                        bodies.append((hf, evaluate(repo, hf)))
            undo = []
            for hf, hr in bodies:
                for u, _, cond in hr.calls:
                    if not (u[0] == "call" and u[1][0] == "a" and u[1][2] == "set_inputs"):
                        continue
                    tgt = u[1][1]
                    kws = [v for k, v in u[3] if k == "**"]
                    keeps_rest = any(
                        v[0] == "comp" and v[1] == "dict" and len(v[3]) == 1
                        and v[3][0][1] == ("call", ("a", ("a", tgt, "kwinputs"), "items"), (), ())
                        and any(cd[0] == "u" and cd[1] == "not" and cd[2][0] == "cmp"
                                and c("seed") in cd[2][2:] for cd in v[3][0][2])
                        for v in kws)
                    positional = u[2] == (("star", ("a", tgt, "inputs")),)
                    owned_only = any("_model" in pretty(a) and p_ for a, p_ in cond)
                    if tgt[0] == "iter" and keeps_rest and positional and owned_only:
                        undo.append(u)
            unset_first = any(u[1][0] == "a" and u[1][2] == "_unset_model" for u, _, _ in r.calls)
            ctx.ob("C15.R8", leave, f"the model-owned input attached to user nodes by "
                                    f"{fi_.name} is removed again when the nodes leave the "
                                    f"model (otherwise re-building them finds a reserved "
                                    f"'_model*' node among the user nodes)",
                   bool(undo) and unset_first,
                   detail="the returned nodes keep their `seed` input pointing at the popped "
                          "model's '_model_<name>_seed' node", node=None,
                   stmt=f"seed input not detached by {leave.name}")

    # the grow path of Model.__init__ moves the COMPLETE graph of a temporary model
    # (model nodes and their wiring included) into the new model: the step that frees
    # those nodes must not detach the model-owned inputs
    tmp_model = [t for t, _, cond in ri.calls if t[0] == "call" and t[1][0] == "a"
                 and t[1][2] == "build_model" and any(a == n("grow") and p_ for a, p_ in cond)]
    rel = []
    if len(tmp_model) == 1:
        rel = [t for t, _, cond in ri.calls if t[0] == "call" and t[1][0] == "a"
               and t[1][1] == tmp_model[0] and t[1][2] != "build_model"
               and repo.lookup_method(mc, t[1][2]) is not None
               and not repo.lookup_method(mc, t[1][2]).decorators()]
    ok_rel, rel_detail = False, f"{len(rel)} release call(s)"
    if len(rel) == 1:
        rf = repo.lookup_method(mc, rel[0][1][2])
        seen_f, todo, detaches, unsets = set(), [rf], [], 0
        while todo:
            f_ = todo.pop()
            if f_.qualname in seen_f:
                continue
            seen_f.add(f_.qualname)
            for u, _, _ in evaluate(repo, f_).calls:
                if u[0] != "call" or u[1][0] != "a":
                    continue
                if u[1][2] in ("set_inputs", "add_inputs"):
                    detaches.append(f"{f_.name}: {pretty(u)[:50]}")
                if u[1][2] == "_unset_model":
                    unsets += 1
                if u[1][1] == SELF and repo.lookup_method(mc, u[1][2]) is not None:
                    todo.append(repo.lookup_method(mc, u[1][2]))
        ok_rel = not detaches and unsets >= 1
        rel_detail = f"release via {rf.name}; input edits reachable: {detaches[:2]}"
    ctx.ob("C15.R8", init, "Model(..., grow=True) frees the nodes of its temporary model "
                           "without touching their inputs (the model-owned seed inputs move "
                           "into the new model together with the seed nodes)", ok_rel,
           detail=rel_detail, stmt="grow path release " + rel_detail[:80])

    # ------------------------------------------------------------------ R6
    gs = method(repo, node, "__getstate__", own=True)
    rg = evaluate(repo, gs)
    ok = (rg.ret() is not None and len(rg.stores) == 1
          and rg.stores[0][0][0] == "s" and rg.stores[0][0][2] == c("_model")
          and rg.stores[0][1] == ("call", ("a", SELF, "_model"), (), ())
          and rg.stores[0][0][1] == ("call", ("a", ("a", SELF, "__dict__"), "copy"), (), ()))
    # the same as one dict display: {**self.__dict__, "_model": self._model()}
    ok = ok or (not rg.stores and rg.ret() == ("dict", (
        (("star2",), ("a", SELF, "__dict__")),
        (c("_model"), ("call", ("a", SELF, "_model"), (), ())))))
    ctx.ob("C15.R6", gs, "__getstate__ copies __dict__ and replaces only the weak reference "
                         "by the referenced model", ok, stmt="getstate")
    ss = method(repo, node, "__setstate__", own=True)
    rs = evaluate(repo, ss)
    st = [(val, cond) for loc, val, _, cond in rs.stores if loc == ("a", SELF, "_model")]
    upd = [t for t, _, _ in rs.calls if t == ("call", ("a", ("a", SELF, "__dict__"), "update"),
                                              (n(ss.params()[1]),), ())]
    none_m = ("cmp", "is", ("a", SELF, "_model"), c(None))
    ok = (len(upd) == 1 and len(st) == 2
          and any(v == ("call", ("g", "weakref.ref"), (("a", SELF, "_model"),), ())
                  and tuple(cd) == ((none_m, False),) for v, cd in st)
          and any(v[0] == "lambda" and v[2] == c(None) and tuple(cd) == ((none_m, True),)
                  for v, cd in st))
    ctx.ob("C15.R6", ss, "__setstate__ restores __dict__ and turns the model back into a "
                         "weak reference (or the empty reference)", ok, stmt="setstate")
    sv = repo.func(f"{MODEL}.save_model")
    ld = repo.func(f"{MODEL}.load_model")
    rsv, rld = evaluate(repo, sv), evaluate(repo, ld)
    dumps = [t for t, _, _ in rsv.calls if (fn_name(t[1]) or "").endswith(".dump")]
    loads = [t for t, _, _ in rld.calls if (fn_name(t[1]) or "").endswith(".load")]
    mods = {(fn_name(t[1]) or "").rsplit(".", 1)[0] for t in dumps + loads}
    opens_w = [t for t, _, _ in rsv.calls if is_call(t, "open")]
    opens_r = [t for t, _, _ in rld.calls if is_call(t, "open")]
    ok = (len(dumps) == 2 and len(loads) == 2 and len(mods) == 1
          and all(t[2][1] == c("wb") for t in opens_w) and all(t[2][1] == c("rb") for t in opens_r)
          and all(t[2][0] == n("model") for t in dumps))
    ctx.ob("C15.R6", sv, "save_model and load_model use the same serializer, binary write / "
                         "read modes, and dump the model itself", ok,
           detail=f"serializers {mods}", stmt=f"serializers {sorted(mods)}")

    # ------------------------------------------------------------------ R7
    for mname, field, prop in (("_set_model", "_model", "model"), ("_set_var", "_var", "var")):
        fi = method(repo, node, mname, own=True)
        r = evaluate(repo, fi)
        st = [(val, cond) for loc, val, _, cond in r.stores if loc == ("a", SELF, field)]
        ok = (len(st) == 1 and (("a", SELF, prop), False) in st[0][1]
              and len(r.raises) == 1 and (("a", SELF, prop), True) in r.raises[0][0])
        ctx.ob("C15.R7", fi, f"{mname} raises when the node already has a {prop} and stores "
                             f"the new owner only otherwise", ok, stmt=f"{mname} ownership")
    sm = method(repo, node, "_set_model", own=True)
    rsm = evaluate(repo, sm)
    ok = any(is_call(val, "weakref.ref") and val[2] == (n("model"),)
             for loc, val, _, _ in rsm.stores)
    ctx.ob("C15.R7", sm, "the model is held through a weak reference", ok)

    # ---- shared mechanisms: the neighbour's rules run as obligations of this property
    ctx.include("C14", "C15.R10", only=['C14.R2'])
    ctx.include("C01", "C15.R10", only=['C01.R6'])
    ctx.rule("R10", "shared mechanisms, run as obligations of this property: a transformed variable is not transformed again at the next build (C14.R2); targeted updates run in topological order too (C01.R6).")
