import jax, liesel.model as lsl
def f(x, seed): return x + jax.random.normal(seed)
noisy = lsl.Calc(f, lsl.Value(1.0, _name="x"), _name="noisy", _needs_seed=True)
m = lsl.Model([noisy])          # grow=True path
m.set_seed(jax.random.PRNGKey(3)); m.update()
print("kwinputs of noisy:", list(m.nodes["noisy"].kwinputs), "value:", m.nodes["noisy"].value)
assert "seed" in m.nodes["noisy"].kwinputs and m.nodes["noisy"].value is not None
print("OK")
