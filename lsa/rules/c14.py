"""
C14 -- transforming a variable preserves the model (change of variables).

Direction-parity abstract interpretation: a bijector expression has parity +1 (the
user's bijector b) or -1 (its inverse); ``Invert`` flips the parity, ``.forward``
applies the parity of its receiver, ``.inverse`` the opposite,
``TransformedDistribution(d, T).bijector`` is ``T``.  For each implementation the
triple (distribution transform, initial value map, value-node map) must be
(-1, -1, +1) on the same bijector.
"""

from __future__ import annotations

import ast

from ..core.terms import (c, evaluate, fn_name, kw, n, pretty, subterms)
from .common import LIB_FACTS, is_call, method, short

NODES = "liesel.model.nodes"
MODEL = "liesel.model.model"


class Parity:
    def __init__(self, repo, parent_res, parent_fi):
        self.repo = repo
        self.res = parent_res
        self.fi = parent_fi
        self._closure_cache = {}

    def closure_ret(self, fn_term):
        q = fn_term[1]
        if q not in self._closure_cache:
            fi = self.repo.functions.get(q)
            self._closure_cache[q] = (
                evaluate(self.repo, fi, closure=self.res.closure()).ret()
                if fi is not None else None)
        return self._closure_cache[q]

    def td_parts(self, t, depth=0):
        """(base distribution term, bijector term T) of a TransformedDistribution-valued
        term, or None."""
        if depth > 12 or not isinstance(t, tuple) or not t:
            return None
        if t[0] == "call":
            f = t[1]
            name = fn_name(f) or ""
            if name.endswith(".TransformedDistribution") or (
                    f[0] == "a" and f[2] == "TransformedDistribution"):
                d = kw(t, "distribution", 0)
                b = kw(t, "bijector", 1)
                return (d, b)
            if f[0] == "fn":
                r = self.closure_ret(f)
                return self.td_parts(r, depth + 1) if r is not None else None
            if f[0] == "a" and f[2] == "init_dist" and not t[2]:
                node = f[1]
                # Dist(F, ...) node  /  var.dist_node of Var(value, Dist(F, ...))
                dist_call = None
                if is_call(node, f"{NODES}.Dist"):
                    dist_call = node
                if dist_call is not None and dist_call[2] and dist_call[2][0][0] == "fn":
                    r = self.closure_ret(dist_call[2][0])
                    return self.td_parts(r, depth + 1) if r is not None else None
            # a call of a captured "distribution class" variable that is itself the
            # closure stored in a Dist node: transformed_distribution(*args)
            if f[0] == "a" and f[2] == "distribution":
                return None
        if t[0] in ("phi", "ifexp"):
            a, b = self.td_parts(t[2], depth + 1), self.td_parts(t[3], depth + 1)
            return a if a == b else (a or b)
        return None

    def bij(self, t, depth=0):
        """(identity term, parity) of a bijector-valued term."""
        if depth > 12:
            return (t, None)
        if t[0] == "call":
            name = fn_name(t[1]) or ""
            f = t[1]
            if name.endswith(".Invert") or (f[0] == "a" and f[2] == "Invert") or (
                    f[0] in ("phi",) and "Invert" in pretty(f)):
                ident, p = self.bij(t[2][0], depth + 1)
                return (ident, -p if p is not None else None)
        if t[0] == "a" and t[2] == "bijector":
            parts = self.td_parts(t[1])
            if parts is not None and parts[1] is not None:
                return self.bij(parts[1], depth + 1)
            return (t, None)
        if t[0] in ("phi", "ifexp"):
            a, b = self.bij(t[2], depth + 1), self.bij(t[3], depth + 1)
            if a[1] == b[1]:
                return (t, a[1])
            return (t, None)
        return (t, 1)

    def apply(self, t):
        """Parity and bijector identity of ``B.forward(x)`` / ``B.inverse(x)`` /
        a function reference ``B.forward``."""
        f = t[1] if t[0] == "call" else t
        if f[0] == "a" and f[2] in ("forward", "inverse"):
            ident, p = self.bij(f[1])
            if p is None:
                return (ident, None)
            return (ident, p if f[2] == "forward" else -p)
        return (None, None)


def _free_names(fn_node):
    """Names a nested function reads from its enclosing scope."""
    bound = {a.arg for a in fn_node.args.args + fn_node.args.kwonlyargs
             + getattr(fn_node.args, "posonlyargs", [])}
    for a in (fn_node.args.vararg, fn_node.args.kwarg):
        if a is not None:
            bound.add(a.arg)
    loads = []
    body = fn_node.body if isinstance(fn_node.body, list) else [fn_node.body]
    for st in body:
        for x in ast.walk(st):
            if isinstance(x, ast.Name):
                if isinstance(x.ctx, ast.Load):
                    loads.append(x)
                else:
                    bound.add(x.id)
            elif isinstance(x, (ast.FunctionDef, ast.ClassDef)):
                bound.add(x.name)
    return [x for x in loads if x.id not in bound]


def _node_typed(repo, t, parent_fi, node_classes, depth=0):
    if depth > 6 or not isinstance(t, tuple) or not t:
        return False
    if t[0] == "call":
        name = fn_name(t[1]) or ""
        return name in node_classes
    if t[0] == "n" and parent_fi is not None:
        for a in parent_fi.node.args.args + parent_fi.node.args.kwonlyargs:
            if a.arg == t[1] and a.annotation is not None:
                ann = ast.unparse(a.annotation).strip("'\"").split("[")[0].split("|")[0].strip()
                q = repo.resolve_in(parent_fi.module, ann)
                return q in node_classes
        return False
    if t[0] == "a":
        if t[2] in ("dist_node", "value_node", "var_value_node", "at"):
            return True
        return False
    if t[0] in ("phi", "ifexp"):
        return _node_typed(repo, t[2], parent_fi, node_classes, depth + 1) or \
            _node_typed(repo, t[3], parent_fi, node_classes, depth + 1)
    return False


def closure_purity(ctx, rule, parent_fi, parent_res, fn_term, label):
    """A function stored in a Calc/Dist node must compute from its arguments only: a
    node object captured from the enclosing scope is NOT replaced when the model is
    deep-copied (functions are copied by reference), so the copy would keep reading the
    original model."""
    repo = ctx.repo
    base_n = repo.cls(f"{NODES}.Node")
    base_v = repo.cls(f"{NODES}.Var")
    node_classes = {ci.qualname for ci in [base_n, base_v] + repo.subclasses(base_n)
                    + repo.subclasses(base_v)}
    if fn_term[0] == "fn":
        fi = repo.functions.get(fn_term[1])
        if fi is None:
            return
        fn_node = fi.node
    else:
        return
    env = parent_res.closure()
    captured = []
    for nm in _free_names(fn_node):
        t = env.get(nm.id)
        if t is None or not isinstance(t, tuple):
            continue
        if _node_typed(repo, t, parent_fi, node_classes):
            captured.append((nm, t))
    ctx.ob(rule, parent_fi, f"{label} computes from its arguments only (captures no node or "
                            f"variable object, which a deep copy of the model would not "
                            f"re-bind)", not captured,
           detail="; ".join(f"{nm.id} = {short(t, 60)}" for nm, t in captured[:3]),
           node=captured[0][0] if captured else None,
           stmt=f"{label} captures " + ", ".join(sorted({nm.id for nm, _ in captured})))


def dist_from_args(ctx, rule, parent_fi, parent_res, fn_term, label):
    """The function stored in the new Dist node is called with the CURRENT values of the
    original distribution's inputs on every update: the base distribution must be built
    from those arguments inside the function (an instance captured from the enclosing
    scope is frozen at the parameter values of transformation time)."""
    repo = ctx.repo
    if fn_term[0] != "fn" or fn_term[1] not in repo.functions:
        return
    fi = repo.functions[fn_term[1]]
    ret = evaluate(repo, fi, closure=parent_res.closure()).ret()
    tds = sorted({x for x in subterms(ret or ()) if x[0] == "call"
                  and ((fn_name(x[1]) or "").endswith(".TransformedDistribution")
                       or (x[1][0] == "a" and x[1][2] == "TransformedDistribution"))}, key=repr)
    a_ = fi.node.args
    params = [x.arg for x in a_.posonlyargs + a_.args + a_.kwonlyargs]
    params += [x.arg for x in (a_.vararg, a_.kwarg) if x]
    ok, detail = False, short(ret or (), 160)
    if len(tds) == 1:
        base = kw(tds[0], "distribution", 0)
        if base is not None:
            inner = set(subterms(base))
            uses_args = any(n(p_) in inner for p_ in params)
            ok = base[0] == "call" and uses_args
            detail = f"base distribution {short(base, 120)}"
    ctx.ob(rule, parent_fi, f"{label} builds the base distribution from its own arguments (the "
                            f"current parameter values), not from an instance made at "
                            f"transformation time", ok, detail=detail,
           stmt=f"{label} base distribution " + pretty(kw(tds[0], 'distribution', 0) or ())[:100]
           if len(tds) == 1 else f"{label} base distribution ?")


def _site(ctx, fi, label, got, want_parity, ident_ref=None):
    ident, p = got
    ok = p == want_parity and (ident_ref is None or ident == ident_ref)
    names = {1: "b (forward direction)", -1: "b^-1 (inverse direction)", None: "unknown"}
    ctx.ob("C14.R1", fi, f"{label} uses {names[want_parity]}", ok, unproven=p is None,
           detail=f"found direction {names.get(p)} on bijector {short(ident or (), 80)}"
                  + ("" if ident_ref is None or ident == ident_ref else
                     f"; expected the same bijector as the distribution "
                     f"({short(ident_ref, 60)})"),
           stmt=f"{label}: parity {p}", facts={"parity": p, "bijector": pretty(ident or ())[:100]})
    return ident


def check(ctx):
    repo = ctx.repo
    ctx.rule("R1", "direction parity: the new distribution is the law of b^-1(X), the "
                   "initial value is b^-1(value), the original variable becomes b(new "
                   "variable) -- on the same bijector -- in Var.transform's two helpers and "
                   "in the deprecated GraphBuilder.transform.")
    ctx.rule("R2", "flags: the parameter flag moves to the new variable before it is "
                   "cleared, the original variable loses its distribution on every success "
                   "path, per_obs and needs_seed are copied, auto_transform is cleared "
                   "before transforming.")
    ctx.rule("R3", "build_model applies auto-transforms with the default bijector before "
                   "names are completed and before the model log-prob nodes are created.")
    ctx.trust(LIB_FACTS["tfd_td"])
    ctx.undecided("the Jacobian identity numerically (TFP's TransformedDistribution, given "
                  "the parity)")

    # ------------------------------------------------------------------ (a) instance
    fa = repo.func(f"{NODES}._transform_var_with_bijector_instance")
    ra = evaluate(repo, fa)
    pa = Parity(repo, ra, fa)
    tvar = ra.ret()
    ok = tvar is not None and is_call(tvar, f"{NODES}.Var")
    ctx.ob("C14.R1", fa, "the helper returns the new Var", ok, detail=short(tvar or ()))
    if ok:
        dist_node = kw(tvar, "distribution", 1)
        init_val = kw(tvar, "value", 0)
        parts = pa.td_parts(("call", ("a", dist_node, "init_dist"), (), ()))
        ident = None
        if parts is None:
            ctx.ob("C14.R1", fa, "the new distribution is a TransformedDistribution of the "
                                 "original one", False, unproven=True, detail=short(dist_node))
        else:
            ident = _site(ctx, fa, "distribution transform", pa.bij(parts[1]), -1)
            base = parts[0]
            ctx.ob("C14.R1", fa, "the base of the TransformedDistribution is the original "
                                 "distribution class applied to the node's inputs",
                   base is not None and base[0] == "call"
                   and base[1] == ("a", ("a", n("var"), "dist_node"), "distribution"),
                   detail=short(base or ()))
        _site(ctx, fa, "initial value of the new variable", pa.apply(init_val), -1, ident)
        ctx.ob("C14.R1", fa, "the initial value is computed from the original variable's "
                             "current value", init_val is not None and init_val[0] == "call"
               and init_val[2] == (("a", n("var"), "value"),), detail=short(init_val or ()))
        vn = [val for loc, val, _, _ in ra.stores if loc == ("a", n("var"), "value_node")]
        okv = len(vn) == 1 and is_call(vn[0], f"{NODES}.Calc") and len(vn[0][2]) == 2 \
            and vn[0][2][1] == tvar
        ctx.ob("C14.R1", fa, "the original variable becomes a Calc of the new variable",
               okv, detail=short(vn[0]) if vn else "")
        if okv:
            _site(ctx, fa, "value node of the original variable", pa.apply(vn[0][2][0]), 1,
                  ident)
        if is_call(dist_node, f"{NODES}.Dist") and dist_node[2]:
            closure_purity(ctx, "C14.R1", fa, ra, dist_node[2][0],
                           "the transformed-distribution function")
            dist_from_args(ctx, "C14.R1", fa, ra, dist_node[2][0],
                           "the transformed-distribution function (instance helper)")
        _flags_of_dist(ctx, fa, dist_node, ra)

    # ------------------------------------------------------------------ (b) class
    fb = repo.func(f"{NODES}._transform_var_with_bijector_class")
    rb = evaluate(repo, fb)
    pb = Parity(repo, rb, fb)
    tvar = rb.ret()
    ok = tvar is not None and is_call(tvar, f"{NODES}.Var")
    ctx.ob("C14.R1", fb, "the helper returns the new Var", ok, detail=short(tvar or ()))
    if ok:
        dist_node = kw(tvar, "distribution", 1)
        init_val = kw(tvar, "value", 0)
        parts = pb.td_parts(("call", ("a", dist_node, "init_dist"), (), ()))
        ident = None
        if parts is None:
            ctx.ob("C14.R1", fb, "the new distribution is a TransformedDistribution",
                   False, unproven=True, detail=short(dist_node))
        else:
            ident = _site(ctx, fb, "distribution transform", pb.bij(parts[1]), -1)
        # which bijector: the given class, or -- only when none was given -- the default
        ok_sel = False
        if ident is not None and ident[0] == "phi" and ident[1] == (
                "cmp", "is", n("bijector_cls"), c(None)):
            dflt, given = ident[2], ident[3]
            ok_sel = (given[0] == "call" and given[1] == n("bijector_cls")
                      and dflt[0] == "call" and dflt[1][0] == "a"
                      and dflt[1][2] == "experimental_default_event_space_bijector"
                      and dflt[2] == given[2] and dflt[3] == given[3])
        ctx.ob("C14.R1", fb, "the bijector is the given class applied to the bijector "
                             "arguments; the distribution's default event-space bijector is "
                             "used only when no class was given", ok_sel,
               detail=short(ident or (), 160), stmt="bijector selection")
        _site(ctx, fb, "initial value of the new variable", pb.apply(init_val), -1, ident)
        vn = [val for loc, val, _, _ in rb.stores if loc == ("a", n("var"), "value_node")]
        okv = len(vn) == 1 and is_call(vn[0], f"{NODES}.Calc") and vn[0][2] \
            and vn[0][2][0][0] == "fn" and len(vn[0][2]) >= 2 and vn[0][2][1] == tvar
        ctx.ob("C14.R1", fb, "the original variable becomes a Calc of the new variable",
               okv, detail=short(vn[0]) if vn else "")
        if okv:
            closure_purity(ctx, "C14.R1", fb, rb, vn[0][2][0],
                           "the back-transformation function")
            if is_call(dist_node, f"{NODES}.Dist") and dist_node[2]:
                closure_purity(ctx, "C14.R1", fb, rb, dist_node[2][0],
                               "the transformed-distribution function")
                dist_from_args(ctx, "C14.R1", fb, rb, dist_node[2][0],
                               "the transformed-distribution function (class helper)")
            r = pb.closure_ret(vn[0][2][0])
            _site(ctx, fb, "value node of the original variable",
                  pb.apply(r) if r is not None else (None, None), 1, ident)
            # the Calc and the Dist share the same input groups
            d_in = dist_node[2][1:] if is_call(dist_node, f"{NODES}.Dist") else None
            ctx.ob("C14.R1", fb, "the back-transformation Calc receives the same "
                                 "distribution / bijector input groups as the new Dist (so "
                                 "both build the same bijector)",
                   d_in is not None and tuple(vn[0][2][2:]) == tuple(d_in) and len(d_in) == 2,
                   detail=f"Dist inputs {[short(x, 40) for x in (d_in or ())]}; Calc inputs "
                          f"{[short(x, 40) for x in vn[0][2][2:]]}")
        _flags_of_dist(ctx, fb, dist_node, rb)

    # ------------------------------------------------------------------ (c) deprecated
    fc = repo.func(f"{MODEL}.GraphBuilder.transform")
    rc = evaluate(repo, fc)
    pc = Parity(repo, rc, fc)
    tvar = rc.ret()
    ok = tvar is not None and is_call(tvar, f"{NODES}.Var")
    ctx.ob("C14.R1", fc, "GraphBuilder.transform returns the new Var", ok,
           detail=short(tvar or ()))
    if ok:
        dist_node = kw(tvar, "distribution", 1)
        init_val = kw(tvar, "value", 0)
        parts = pc.td_parts(("call", ("a", dist_node, "init_dist"), (), ()))
        ident = None
        if parts is None:
            ctx.ob("C14.R1", fc, "the new distribution is a TransformedDistribution",
                   False, unproven=True, detail=short(dist_node))
        else:
            ident = _site(ctx, fc, "distribution transform", pc.bij(parts[1]), -1)
        _site(ctx, fc, "initial value of the new variable", pc.apply(init_val), -1, ident)
        # the deprecated method promises up-to-date inputs: it builds a throw-away local
        # model of the variable (a full sweep) before it reads the distribution / value
        i_model = [i for i, (t, _, _) in enumerate(rc.calls)
                   if is_call(t, f"{MODEL}.Model") and t[2][:1] == (("list", (n("var"),)),)]
        i_read = [i for i, (t, _, _) in enumerate(rc.calls)
                  if t[0] == "call" and t[1][0] == "a" and t[1][2] == "init_dist"]
        ctx.ob("C14.R1", fc, "GraphBuilder.transform sweeps a local model of the variable "
                             "(Model([var])) before it reads its distribution and value, so "
                             "the initial value is computed from current inputs",
               len(i_model) == 1 and i_read and i_model[0] < min(i_read),
               detail=f"Model([var]) at call #{i_model}, first init_dist at #{i_read[:1]}",
               stmt="local model sweep")
        # ... with the variable's auto-transform flag already cleared (the local build would
        # otherwise transform it a first time), and the variable ends up in the builder
        guard_atoms = {a for rc_, _, _ in rc.raises for a, _ in rc_}
        at_st = [nd.lineno for loc, val, nd, cond in rc.stores
                 if loc == ("a", n("var"), "auto_transform") and val == c(False)
                 and all(a in guard_atoms for a, _ in cond)]
        model_ln = [nd.lineno for t, nd, _ in rc.calls
                    if is_call(t, f"{MODEL}.Model") and t[2][:1] == (("list", (n("var"),)),)]
        ctx.ob("C14.R2", fc, "GraphBuilder.transform clears var.auto_transform before it builds "
                             "the local model (the build would transform the variable a first "
                             "time otherwise)", bool(at_st) and bool(model_ln)
               and min(at_st) < min(model_ln), detail=f"cleared at {at_st}, local build at {model_ln}",
               stmt="deprecated transform: auto_transform cleared first")
        adds = [t for t, _, cond in rc.calls if t == ("call", ("a", n("self"), "add"), (n("var"),), ())]
        ctx.ob("C14.R2", fc, "GraphBuilder.transform adds the variable to the builder (so the "
                             "model built later contains the new variable through it)",
               len(adds) == 1, stmt="deprecated transform: self.add(var)")
        tb = repo.func(f"{MODEL}._transform_back")
        rtb = evaluate(repo, tb)
        inner = tb.nested("fn")
        ri = evaluate(repo, inner, closure=rtb.closure()).ret()
        ok_tb = False
        if ri is not None and ri[0] == "call" and ri[1][0] == "a" and ri[1][2] == "inverse":
            recv = ri[1][1]
            ok_tb = (recv[0] == "a" and recv[2] == "bijector" and recv[1][0] == "call"
                     and recv[1][1] == ("a", ("a", n("var_transformed"), "dist_node"),
                                        "distribution")
                     and ri[2] == (n(inner.params()[0]),))
        closure_purity(ctx, "C14.R1", tb, rtb, ("fn", inner.qualname),
                       "the back-transformation function")
        if is_call(dist_node, f"{NODES}.Dist") and dist_node[2]:
            closure_purity(ctx, "C14.R1", fc, rc, dist_node[2][0],
                           "the transformed-distribution function")
            dist_from_args(ctx, "C14.R1", fc, rc, dist_node[2][0],
                           "the transformed-distribution function (deprecated method)")
        ctx.ob("C14.R1", tb, "_transform_back maps the new variable through the INVERSE of "
                             "the transformed distribution's bijector (T = b^-1, so this is "
                             "b): value node parity +1", ok_tb, detail=short(ri or ()),
               stmt="transform_back " + pretty(ri or ())[:120])
        rct = rtb.ret()
        ok_in = (rct is not None and is_call(rct, f"{NODES}.Calc")
                 and rct[2][1] == ("a", n("var_transformed"), "value_node")
                 and ("star", ("a", ("a", n("var_transformed"), "dist_node"), "inputs"))
                 in rct[2])
        ctx.ob("C14.R1", tb, "the back-transformation receives the new variable's value and "
                             "the transformed distribution's own inputs", ok_in,
               detail=short(rct or ()))
        vn = [val for loc, val, _, _ in rc.stores if loc == ("a", n("var"), "value_node")]
        ctx.ob("C14.R1", fc, "the original variable's value node becomes "
                             "_transform_back(new variable)",
               len(vn) == 1 and vn[0] == ("call", ("g", f"{MODEL}._transform_back"),
                                          (tvar,), ()), detail=short(vn[0]) if vn else "")
        # flags (deprecated method sets them through setters)
        sts = [(loc, val) for loc, val, _, _ in rc.stores]
        d_loc = lambda f: ("a", dist_node, f)  # noqa: E731
        ok_f = ((d_loc("needs_seed"), ("a", ("a", n("var"), "dist_node"), "needs_seed")) in sts
                and (d_loc("per_obs"), ("a", ("a", n("var"), "dist_node"), "per_obs")) in sts)
        ctx.ob("C14.R2", fc, "needs_seed and per_obs are copied to the new Dist (deprecated "
                             "method)", ok_f)
        _order(ctx, fc, rc, tvar, n("var"))

    # ------------------------------------------------------------------ R2 Var.transform
    var_cls = repo.cls(f"{NODES}.Var")
    tr = method(repo, var_cls, "transform", own=True)
    rt = evaluate(repo, tr)
    tv = rt.ret()
    SELF = n("self")
    _order(ctx, tr, rt, tv, SELF)
    at_store = [i for i, (loc, val, _, cond) in enumerate(rt.stores)
                if loc == ("a", SELF, "auto_transform") and val == c(False)]
    first_use = [i for i, (t, _, _) in enumerate(rt.calls)
                 if t[0] == "call" and (t[1][0] == "g" and "_transform_var_with" in t[1][1])]
    nodes_at = [nd.lineno for loc, val, nd, _ in rt.stores
                if loc == ("a", SELF, "auto_transform")]
    helper_lines = [nd.lineno for t, nd, _ in rt.calls
                    if t[0] == "call" and t[1][0] == "g" and "_transform_var_with" in t[1][1]]
    ctx.ob("C14.R2", tr, "auto_transform is cleared before the variable is transformed "
                         "(no second transformation at build time)",
           len(at_store) == 1 and helper_lines and nodes_at[0] < min(helper_lines))
    helpers = [(t, cond) for t, _, cond in rt.calls
               if t[0] == "call" and t[1][0] == "g" and "_transform_var_with" in t[1][1]]
    ok_d = False
    if len(helpers) == 2:
        by = {t[1][1].rsplit(".", 1)[-1]: (t, cond) for t, cond in helpers}
        tc = by.get("_transform_var_with_bijector_class")
        ti = by.get("_transform_var_with_bijector_instance")
        if tc and ti:
            ok_d = (tc[0][2][:2] == (SELF, n("bijector"))
                    and ("star", n("bijector_args")) in tc[0][2]
                    and ti[0][2] == (SELF, n("bijector")))
    ctx.ob("C14.R2", tr, "Var.transform dispatches to the class helper (class or default "
                         "bijector, with the bijector arguments) or the instance helper",
           ok_d, detail=str([short(t, 100) for t, _ in helpers]))
    # the caller's positional arguments after the bijector ARE the bijector's: nothing in
    # either entry point's signature may sit between `bijector` and `*args` (it would
    # silently swallow the first bijector argument), nor steal a keyword
    for efi, lead in ((tr, ["self", "bijector"]),
                      (repo.func(f"{MODEL}.GraphBuilder.transform"), ["self", "var", "bijector"])):
        a_ = efi.node.args
        pos_ = [x.arg for x in a_.posonlyargs + a_.args]
        ctx.ob("C14.R2", efi, f"signature ({', '.join(lead)}, *args, **kwargs): every further "
                              f"positional or keyword argument of the call reaches the bijector",
               pos_ == lead and a_.vararg is not None and a_.kwarg is not None
               and not a_.kwonlyargs,
               detail=f"parameters {pos_} *{getattr(a_.vararg, 'arg', None)} "
                      f"kwonly={[x.arg for x in a_.kwonlyargs]} **{getattr(a_.kwarg, 'arg', None)}",
               stmt=f"signature of {efi.name} {pos_} {[x.arg for x in a_.kwonlyargs]}")
    if ok_d:
        # which helper runs for which kind of bijector: path conditions evaluated for the
        # kinds {class with arguments, None with a default, instance without arguments}
        from .c13 import partial_eval
        BJ = n("bijector")
        is_cls = ("call", ("g", f"{NODES}.is_bijector_class"), (BJ,), ())
        is_none = ("cmp", "is", BJ, c(None))
        is_inst = [x for _, cond in helpers for a, _p in cond for x in subterms(a)
                   if is_call(x, "isinstance") and x[2][:1] == (BJ,)]
        has_args = ("bool", "or", (n("bijector_args"), n("bijector_kwargs")))
        kinds = {"class": (True, False, False, True), "default": (False, True, False, False),
                 "instance": (False, False, True, False)}
        wrong = []
        for kind, (cl_, no_, in_, ar_) in kinds.items():
            facts_ = {is_cls: cl_, is_none: no_, has_args: ar_,
                      n("bijector_args"): ar_, n("bijector_kwargs"): False,
                      ("a", SELF, "weak"): False}
            for x in is_inst:
                facts_[x] = in_
            # the default bijector exists in the 'default' scenario
            for _, cond in helpers:
                for a, _p in cond:
                    for x in subterms(a):
                        if x[0] == "cmp" and x[1] == "is" and x[3] == c(None) and x[2] != BJ:
                            facts_[x] = False
            reached = []
            for t, cond in helpers:
                v = partial_eval(("path", tuple(cond)), facts_)
                if v == c(True):
                    reached.append(t[1][1].rsplit("_", 1)[-1])
                elif v != c(False):
                    reached.append("?" + t[1][1].rsplit("_", 1)[-1])
            want = ["instance"] if kind == "instance" else ["class"]
            if reached != want:
                wrong.append(f"{kind} bijector -> {reached or 'no helper'}")
        ctx.ob("C14.R2", tr, "a bijector class (with arguments) and the default (None) go to "
                             "the class helper, an instance to the instance helper", not wrong,
               unproven=any("?" in w for w in wrong), detail="; ".join(wrong),
               stmt="dispatch conditions " + "; ".join(wrong))

    # re-wiring a variable (what the helpers do to the original variable) leaves its role
    # flags alone: Var.transform reads `self.parameter` AFTER the helper ran
    FLAGS = {"_parameter", "_observed", "_role", "_auto_transform", "parameter", "observed",
             "role", "auto_transform"}
    for sname in ("value_node", "dist_node"):
        sfi = var_cls.own_method(sname, "setter")
        if sfi is None:
            continue
        rs_ = evaluate(repo, sfi)
        wr = sorted({loc[2] for loc, _, _, _ in rs_.stores
                     if loc[0] == "a" and loc[1] == SELF and loc[2] in FLAGS})
        ctx.ob("C14.R2", sfi, f"assigning Var.{sname} writes none of the variable's role flags "
                              f"(parameter / observed / role / auto_transform)", not wr,
               detail=str(wr), stmt=f"{sname} setter writes {wr}")
    # ------------------------------------------------------------------ R3
    bm = repo.func(f"{MODEL}.GraphBuilder.build_model")
    rbm = evaluate(repo, bm)
    order = []
    for t, node, cond in rbm.calls:
        if t[0] == "call" and t[1][0] == "a" and t[1][2] in (
                "transform", "_set_missing_names", "_add_model_log_lik_node",
                "_add_model_log_prior_node", "_add_model_log_prob_node",
                "_add_model_seed_nodes"):
            order.append((t[1][2], t, cond, node.lineno))
    names = [o[0] for o in order]
    tcalls = [o for o in order if o[0] == "transform"]
    ok = (len(tcalls) == 1 and names.index("transform") < names.index("_set_missing_names")
          < names.index("_add_model_log_lik_node"))
    ctx.ob("C14.R3", bm, "auto-transforms run before names are completed and before the "
                         "model log-likelihood / prior / prob nodes are added", ok,
           detail=str(names), stmt="build order " + str(names))
    if tcalls:
        _, t, cond, _ = tcalls[0]
        # the loop leaves everything else to Var.transform: it writes neither the original
        # nor the new variable afterwards (flags were moved inside transform; writing them
        # again here would undo that)
        v_it = t[1][1]
        touched = [loc for loc, val, _, cd in rbm.stores
                   if loc[0] == "a" and (loc[1] == v_it or loc[1] == t or t in set(subterms(loc[1])))]
        touched += [c_ for c_, _, cd in rbm.calls if c_[0] == "call" and c_[1][0] == "a"
                    and c_ != t and (c_[1][1] == t or (c_[1][1][0] == "a" and c_[1][1][1] == t))]
        ctx.ob("C14.R3", bm, "after var.transform(None) the build writes nothing to the "
                             "original or the new variable (flag transfer is Var.transform's "
                             "job)", not touched,
               detail="; ".join(pretty(x)[:60] for x in touched[:3]),
               stmt="auto-transform loop writes " + "; ".join(pretty(x)[:40] for x in touched[:2]))
        at = [a for a, p in cond if a[0] == "a" and a[2] == "auto_transform" and p]
        ok = (len(at) == 1 and (kw(t, "bijector", 0) == c(None)) and t[1][1] == at[0][1]
              and t[1][1][0] == "iter")
        ctx.ob("C14.R3", bm, "every variable flagged auto_transform is transformed with its "
                             "distribution's default bijector (bijector=None)", ok,
               detail=short(t))

        # ... and "every" means every variable of the graph, however deep: the candidates
        # are the variables of the builder's recursive closure (whose completeness is
        # C15.R2), not the added ones or their direct inputs
        src = t[1][1][1] if t[1][1][0] == "iter" else None
        deep = (src is not None and src[0] == "proj" and src[2] == 1
                and src[1][0] == "call" and src[1][1][0] == "a"
                and src[1][1][2] == "_all_nodes_and_vars" and not src[1][2]
                and src[1][1][1] in (SELF, ("call", ("a", SELF, "copy"), (), ())))
        ctx.ob("C14.R3", bm, "the auto-transform candidates are ALL variables of the graph "
                             "(the recursive closure _all_nodes_and_vars()[1]), not only the "
                             "added variables or their direct inputs", deep, unproven=True,
               detail=short(src or t[1][1], 200), stmt="auto-transform candidates " + pretty(src or ())[:120])

    # ---- shared mechanisms: the neighbour's rules run as obligations of this property
    ctx.include("C01", "C14.R4", only=['C01.R8'])
    ctx.include("C18", "C14.R4", only=['C18.R2'])
    ctx.include("C02", "C14.R4", only=['C02.R1', 'C02.R4'])
    ctx.rule("R4", "shared mechanisms, run as obligations of this property: the model totals are collected from a traversal made AFTER the auto-transforms, so the original variable's old distribution is not in the model (C02.R1/R4); values read while transforming come from a swept model: only the sweep sites call node.update() (C01.R8); liesel's own bijector has consistent log-det-Jacobians (C18.R2).")


def _flags_of_dist(ctx, fi, dist_node, res):
    ok_seed = (is_call(dist_node, f"{NODES}.Dist")
               and kw(dist_node, "_needs_seed") == ("a", ("a", n("var"), "dist_node"),
                                                    "needs_seed"))
    po = [(loc, val) for loc, val, _, _ in res.stores
          if loc == ("a", dist_node, "per_obs")]
    ok_po = len(po) == 1 and po[0][1] == ("a", ("a", n("var"), "dist_node"), "per_obs")
    ctx.ob("C14.R2", fi, "needs_seed and per_obs of the original distribution are copied to "
                         "the new Dist", ok_seed and ok_po,
           detail=f"needs_seed copied={ok_seed}, per_obs copied={ok_po}",
           stmt=f"flags seed={ok_seed} per_obs={ok_po}")


def _order(ctx, fi, res, tvar, orig):
    """parameter flag moves before it is cleared; dist_node removed on success paths."""
    i_move = [i for i, (loc, val, _, _) in enumerate(res.stores)
              if loc[0] == "a" and loc[2] == "parameter" and loc[1] != orig
              and val == ("a", orig, "parameter")]
    i_clear = [i for i, (loc, val, _, _) in enumerate(res.stores)
               if loc == ("a", orig, "parameter") and val == c(False)]
    ok = len(i_move) == 1 and len(i_clear) == 1 and i_move[0] < i_clear[0]
    ctx.ob("C14.R2", fi, "the parameter flag is copied to the new variable BEFORE it is "
                         "cleared on the original one", ok,
           detail=f"copy at store #{i_move}, clear at store #{i_clear}",
           stmt=f"parameter flag order move={i_move} clear={i_clear}")
    dn = [(val, cond) for loc, val, _, cond in res.stores if loc == ("a", orig, "dist_node")]
    rets = [rc for rc, rt, _ in res.returns]
    ok = len(dn) == 1 and dn[0][0] == c(None) and all(set(dn[0][1]) <= set(rc) for rc in rets)
    ctx.ob("C14.R2", fi, "the original variable keeps no distribution of its own "
                         "(dist_node = None on every path that returns)", ok,
           detail=str([(short(v), len(cd)) for v, cd in dn]), stmt="dist_node removal")
