"""
Deterministic equivalence probe for the inverse-mass-matrix tuning path.

Run from the worktree root with PYTHONPATH pointing at the worktree:

    PYTHONPATH=$PWD /venv/bin/python _twin/<name>/equiv.py

It prints one digest line per observation. The output on HEAD and on the patched
tree must be byte-identical.
"""

import hashlib
import logging

import jax
import jax.numpy as jnp
import numpy as np

import liesel.goose as gs
from liesel.goose import mm
from liesel.goose.epoch import EpochConfig, EpochState, EpochType
from liesel.goose.kernel_sequence import KernelSequence

logging.getLogger("liesel").setLevel(logging.ERROR)


def digest(x) -> str:
    """Digest of a pytree: structure, dtypes, shapes and raw bytes."""
    leaves, treedef = jax.tree_util.tree_flatten(x)
    h = hashlib.sha256()
    h.update(str(treedef).encode())
    for leaf in leaves:
        a = np.asarray(leaf)
        h.update(str(a.dtype).encode())
        h.update(str(a.shape).encode())
        h.update(np.ascontiguousarray(a).tobytes())
    return h.hexdigest()[:20]


def show(label: str, x) -> None:
    print(f"{label}: {digest(x)}")


def attempt(label: str, fn) -> None:
    try:
        show(label, fn())
    except Exception as e:  # the exception type and text are part of the behaviour
        print(f"{label}: raised {type(e).__name__}: {str(e)[:200]}")


# ---------------------------------------------------------------------------
# 1. the tuner functions, directly
# ---------------------------------------------------------------------------

rng = np.random.default_rng(20240612)


def make_history(keys_shapes, n=40):
    return {
        k: jnp.asarray(rng.normal(size=(n, *shape)) * (1.0 + i), dtype=jnp.float32)
        for i, (k, shape) in enumerate(keys_shapes)
    }


histories = {
    "alpha_order": make_history([("a", (2,)), ("b", ()), ("c", (2, 2))]),
    "reverse_order": make_history([("z", (3,)), ("m", ()), ("a", (2,))]),
    "single_scalar": make_history([("s", ())]),
    "single_vector": make_history([("v", (4,))]),
    "two_points": make_history([("q", (2,)), ("b", ())], n=2),
    "one_point": make_history([("q", (2,)), ("b", ())], n=1),
}

for name, hist in histories.items():
    attempt(f"mm.diag[{name}]", lambda: mm.tune_inv_mm_diag(hist))
    attempt(f"mm.full[{name}]", lambda: mm.tune_inv_mm_full(hist))
    attempt(f"mm.diag.jit[{name}]", lambda: jax.jit(mm.tune_inv_mm_diag)(hist))
    attempt(f"mm.full.jit[{name}]", lambda: jax.jit(mm.tune_inv_mm_full)(hist))
    # insertion order of the dict must not matter and is part of the observation
    rev = dict(reversed(list(hist.items())))
    attempt(f"mm.diag.rev[{name}]", lambda: mm.tune_inv_mm_diag(rev))
    attempt(f"mm.full.rev[{name}]", lambda: mm.tune_inv_mm_full(rev))

attempt("mm.diag[empty]", lambda: mm.tune_inv_mm_diag({}))
attempt("mm.full[empty]", lambda: mm.tune_inv_mm_full({}))
attempt(
    "mm.diag[ragged]",
    lambda: mm.tune_inv_mm_diag({"a": jnp.zeros((3, 2)), "b": jnp.zeros((4,))}),
)

# ---------------------------------------------------------------------------
# 2. the kernels' tune method, directly (eager and under jit), with histories
#    that hold more keys than the kernel owns
# ---------------------------------------------------------------------------

DATA = np.asarray(rng.normal(size=(12,)), dtype=np.float32)


def log_prob(model_state):
    lp = -0.5 * jnp.sum((DATA[:3] - model_state["zeta"]) ** 2)
    lp += -0.5 * jnp.sum((model_state["beta"] * 0.5) ** 2)
    lp += -0.5 * (model_state["alpha"] / 3.0) ** 2
    lp += -0.5 * jnp.sum((model_state["mat"] - 1.0) ** 2)
    return lp


def initial_state():
    return {
        "zeta": jnp.zeros(3, dtype=jnp.float32),
        "beta": jnp.ones(2, dtype=jnp.float32),
        "alpha": jnp.asarray(0.5, dtype=jnp.float32),
        "mat": jnp.zeros((2, 2), dtype=jnp.float32),
    }


full_history = make_history(
    [("zeta", (3,)), ("beta", (2,)), ("alpha", ()), ("mat", (2, 2))], n=25
)


def epoch_state(epoch_type, duration=25):
    cfg = EpochConfig(epoch_type, duration, 1, None)
    return cfg.to_state(3, 100)


KERNEL_CLASSES = {"nuts": gs.NUTSKernel, "hmc": gs.HMCKernel}
KEY_ORDERS = {
    "alpha": ["alpha", "beta", "zeta"],
    "nonalpha": ["zeta", "alpha", "beta"],
    "matfirst": ["mat", "alpha"],
    "scalar": ["alpha"],
}

for kname, kcls in KERNEL_CLASSES.items():
    for oname, keys in KEY_ORDERS.items():
        for mm_diag in (True, False):
            tag = f"{kname}/{oname}/{'diag' if mm_diag else 'dense'}"
            kernel = kcls(keys, initial_step_size=0.25, mm_diag=mm_diag)
            kernel.set_model(gs.DictInterface(log_prob))
            kernel.identifier = "k"
            ms = initial_state()
            key = jax.random.PRNGKey(3)

            for etype in (
                EpochType.SLOW_ADAPTATION,
                EpochType.FAST_ADAPTATION,
                EpochType.INITIAL_VALUES,
            ):
                for hist_name, hist in (("hist", full_history), ("nohist", None)):
                    ep = epoch_state(etype)

                    def run_tune(jit: bool):
                        ks = kernel.init_state(key, ms)
                        fn = jax.jit(kernel.tune) if jit else kernel.tune
                        out = fn(key, ks, ms, ep, hist)
                        return (out.info, out.kernel_state)

                    label = f"tune[{tag}/{etype.name}/{hist_name}]"
                    attempt(label + ".eager", lambda: run_tune(False))
                    attempt(label + ".jit", lambda: run_tune(True))

            # direct calls of the private slow/fast branches; the caller's
            # history dict and kernel state object are inspected afterwards
            ks = kernel.init_state(key, ms)
            hist_in = dict(full_history)
            ep = epoch_state(EpochType.SLOW_ADAPTATION)
            out = kernel._tune_slow(key, ks, ms, ep, hist_in)
            show(f"_tune_slow[{tag}].out", (out.info, out.kernel_state))
            print(f"_tune_slow[{tag}].same_state_object: {out.kernel_state is ks}")
            print(f"_tune_slow[{tag}].caller_history_keys: {list(hist_in)}")
            show(f"_tune_slow[{tag}].caller_history", hist_in)
            out = kernel._tune_slow(key, ks, ms, ep, None)
            show(f"_tune_slow[{tag}].none", (out.info, out.kernel_state))
            out = kernel._tune_slow(key, ks, ms, ep)
            show(f"_tune_slow[{tag}].default", (out.info, out.kernel_state))

            # history lacking one of the kernel's keys
            short = {k: v for k, v in full_history.items() if k != keys[-1]}
            attempt(
                f"_tune_slow[{tag}].missing_key",
                lambda: kernel._tune_slow(
                    key, kernel.init_state(key, ms), ms, ep, short
                ).kernel_state,
            )

            # a subclass that records what history the fast tuner receives
            seen = []

            class Recording(kcls):  # type: ignore
                def _tune_fast(
                    self, prng_key, kernel_state, model_state, epoch, history=None
                ):
                    seen.append(None if history is None else list(history))
                    return super()._tune_fast(
                        prng_key, kernel_state, model_state, epoch, history
                    )

            rec = Recording(keys, initial_step_size=0.25, mm_diag=mm_diag)
            rec.set_model(gs.DictInterface(log_prob))
            rec._tune_slow(key, rec.init_state(key, ms), ms, ep, dict(full_history))
            rec._tune_slow(key, rec.init_state(key, ms), ms, ep, None)
            print(f"_tune_slow[{tag}].history_forwarded: {seen}")

# ---------------------------------------------------------------------------
# 3. kernel sequence: co-existing kernels
# ---------------------------------------------------------------------------

k1 = gs.NUTSKernel(["zeta", "alpha"], initial_step_size=0.2, mm_diag=False)
k2 = gs.HMCKernel(["mat", "beta"], initial_step_size=0.1, mm_diag=True)
for i, k in enumerate((k1, k2)):
    k.set_model(gs.DictInterface(log_prob))
    k.identifier = f"kernel_{i:02d}"
seq = KernelSequence([k1, k2])
ms = initial_state()
kss = seq.init_states(jax.random.PRNGKey(5), ms)
for etype in (EpochType.SLOW_ADAPTATION, EpochType.FAST_ADAPTATION):
    out = seq.tune(
        jax.random.PRNGKey(6), kss, ms, epoch_state(etype), dict(full_history)
    )
    show(f"kernel_sequence.tune[{etype.name}]", (out.kernel_states, out.infos))

# ---------------------------------------------------------------------------
# 4. whole engine runs: orders/shapes of position keys, diag/dense, number of
#    slow epochs, co-existing kernels, several chains
# ---------------------------------------------------------------------------


def epochs(n_slow: int):
    cfgs = [EpochConfig(EpochType.INITIAL_VALUES, 1, 1, None)]
    cfgs.append(EpochConfig(EpochType.FAST_ADAPTATION, 10, 1, None))
    for i in range(n_slow):
        cfgs.append(EpochConfig(EpochType.SLOW_ADAPTATION, 12 + 4 * i, 1, None))
    cfgs.append(EpochConfig(EpochType.FAST_ADAPTATION, 8, 1, None))
    cfgs.append(EpochConfig(EpochType.POSTERIOR, 6, 1, None))
    return cfgs


def run_engine(kernels, n_slow, num_chains=2, seed=11, included=()):
    builder = gs.EngineBuilder(seed, num_chains=num_chains)
    for k in kernels:
        builder.add_kernel(k)
    builder.set_model(gs.DictInterface(log_prob))
    builder.set_initial_values(initial_state())
    builder.set_epochs(epochs(n_slow))
    builder.store_kernel_states = True
    builder.positions_included = list(included)
    builder.show_progress = False
    engine = builder.build()
    engine.sample_all_epochs()
    results = engine.get_results()
    ks_chain = results.kernel_states.unwrap().combine_all().unwrap()
    pos = results.positions.combine_all().unwrap()
    tun = results.tuning_infos.unwrap().get().unwrap()
    return {
        "kernel_states": ks_chain,
        "positions": pos,
        "tuning": tun,
        "final_kernel_states": engine._kernel_states,
        "prng": engine._prng_key,
    }


ENGINE_CASES = {
    "nuts_nonalpha_diag_2slow": lambda: (
        [gs.NUTSKernel(["zeta", "alpha", "beta", "mat"], mm_diag=True)],
        2,
    ),
    "nuts_nonalpha_dense_1slow": lambda: (
        [gs.NUTSKernel(["zeta", "mat", "alpha", "beta"], mm_diag=False)],
        1,
    ),
    "hmc_nonalpha_dense_2slow": lambda: (
        [gs.HMCKernel(["zeta", "beta", "alpha", "mat"], mm_diag=False)],
        2,
    ),
    "mixed_two_kernels_3slow": lambda: (
        [
            gs.NUTSKernel(["zeta", "alpha"], mm_diag=False),
            gs.HMCKernel(["mat", "beta"], mm_diag=True, num_integration_steps=3),
        ],
        3,
    ),
    "nuts_partial_0slow": lambda: (
        [gs.NUTSKernel(["beta", "alpha"], mm_diag=True)],
        0,
    ),
    "rw_only_no_history_1slow": lambda: (
        [gs.RWKernel(["zeta", "alpha", "beta", "mat"])],
        1,
    ),
}

for name, make in ENGINE_CASES.items():
    kernels, n_slow = make()

    def go():
        return run_engine(kernels, n_slow)

    try:
        res = go()
    except Exception as e:
        print(f"engine[{name}]: raised {type(e).__name__}: {str(e)[:200]}")
        continue
    for part, value in res.items():
        show(f"engine[{name}].{part}", value)
    # the property itself, as a readable observation
    ks = res["kernel_states"]
    for kid, state in sorted(ks.items()) if isinstance(ks, dict) else enumerate(ks):
        if hasattr(state, "inverse_mass_matrix"):
            imm = np.asarray(state.inverse_mass_matrix)
            print(
                f"engine[{name}].imm[{kid}]: shape={imm.shape} "
                f"last={np.array2string(imm[0, -1].ravel()[:6], precision=8)}"
            )

# ---------------------------------------------------------------------------
# 5. Engine._tune_kernels called directly: no-op outside adaptation epochs,
#    error when the history is required but empty; the PRNG key consumption
#    is observed in both cases
# ---------------------------------------------------------------------------


def fresh_engine(kernels):
    builder = gs.EngineBuilder(23, num_chains=2)
    for k in kernels:
        builder.add_kernel(k)
    builder.set_model(gs.DictInterface(log_prob))
    builder.set_initial_values(initial_state())
    builder.set_epochs(epochs(1))
    builder.show_progress = False
    return builder.build()


for kname, make_kernels in {
    "nuts": lambda: [gs.NUTSKernel(["zeta", "alpha", "beta", "mat"])],
    "rw": lambda: [gs.RWKernel(["zeta", "alpha", "beta", "mat"])],
}.items():
    for etype in (
        EpochType.POSTERIOR,
        EpochType.INITIAL_VALUES,
        EpochType.BURNIN,
        EpochType.FAST_ADAPTATION,
        EpochType.SLOW_ADAPTATION,
    ):
        engine = fresh_engine(make_kernels())
        tag = f"_tune_kernels[{kname}/{etype.name}]"
        show(tag + ".prng_before", engine._prng_key)
        attempt(tag + ".call", lambda: engine._tune_kernels(epoch_state(etype)))
        show(tag + ".prng_after", engine._prng_key)
        show(tag + ".kernel_states_after", engine._kernel_states)
        attempt(tag + ".tuning_chain", lambda: engine._tuning_info_chain.get().unwrap())

        # now with an active epoch that has samples
        engine = fresh_engine(make_kernels())
        engine.sample_next_epoch()
        engine.sample_next_epoch()
        attempt(tag + ".call2", lambda: engine._tune_kernels(epoch_state(etype)))
        show(tag + ".prng_after2", engine._prng_key)
        show(tag + ".kernel_states_after2", engine._kernel_states)
        attempt(tag + ".tuning_chain2", lambda: engine._tuning_info_chain.get().unwrap())

print("done")
