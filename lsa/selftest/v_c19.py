import ast

from .runner import (V, expr, expr_is, is_assign_to, is_expr_call, replace_expr,
                     replace_stmt, stmt)

E = "liesel/goose/engine.py"
S = "liesel/goose/summary_m.py"
N = "liesel/goose/nuts.py"
H = "liesel/goose/hmc.py"
MH = "liesel/goose/mh.py"
RW = "liesel/goose/rw.py"
A = "liesel/experimental/arviz.py"

VARIANTS = [
    V("c19_code_91", "M", MH, "mh_step", *replace_expr("(-jnp.inf, 90)", "(-jnp.inf, 91)"),
      note="kernels emit an undocumented code", expect_rule="C19.R1"),
    V("c19_book_missing", "M", RW, "RWKernel",
      lambda nd: isinstance(nd, ast.AnnAssign) and ast.unparse(nd.target) == "error_book",
      lambda nd: stmt("error_book: ClassVar[dict[int, str]] = {0: 'no errors'}"),
      note="RW book lacks code 90 (summary raises KeyError / wrong message)", expect_rule="C19.R1"),
    V("c19_nuts_swapped", "M", N, "_goose_info",
      *replace_expr("_error_code(nuts_info.is_divergent, nuts_info.num_trajectory_expansions == max_treedepth)",
                    "_error_code(nuts_info.num_trajectory_expansions == max_treedepth, nuts_info.is_divergent)"),
      note="divergence reported as max tree depth and vice versa", expect_rule="C19.R1"),
    V("c19_axis0", "M", S, "_make_error_summary",
      *replace_expr("np.sum(kel.error_codes == ec, axis=1)", "np.sum(kel.error_codes == ec, axis=0)"),
      note="counts per transition instead of per chain", expect_rule="C19.R2"),
    V("c19_post_other_kernel", "M", S, "_make_error_summary",
      *replace_expr("posterior_error_log_unwrapped[kel.kernel_ident]",
                    "next(iter(posterior_error_log_unwrapped.values()))"),
      note="posterior counts of the first kernel used for all", expect_rule="C19.R2"),
    V("c19_post_ne", "M", S, "_make_error_summary",
      *replace_expr("np.sum(kel_post.error_codes == ec, axis=1)", "np.sum(kel_post.error_codes != 0, axis=1)"),
      note="posterior count of any error attributed to each code", expect_rule="C19.R2"),
    V("c19_mask_axis", "M", E, "SamplingResults.get_error_log",
      *replace_expr("np.any(tis[ker_name].error_code != 0, axis=0)", "np.any(tis[ker_name].error_code != 0, axis=1)"),
      note="mask over time instead of chains", expect_rule="C19.R2"),
    V("c19_log_all_for_post", "M", E, "SamplingResults.get_error_log",
      *replace_expr("config.type == EpochType.POSTERIOR", "config.type >= EpochType.BURNIN"),
      note="burn-in counted as posterior", expect_rule="C19.R2"),
    V("c19_warmup_sign", "M", S, "Summary._error_df",
      *replace_stmt("df['warmup'] = df['total'] - df['posterior']", "df['warmup'] = df['total']"),
      note="warm-up column holds the total", expect_rule="C19.R2"),
    V("c19_summary_same_log", "M", S, "Summary.__init__",
      *replace_expr("results.get_error_log(True)", "results.get_error_log(False)"),
      note="posterior counts computed from the overall log", expect_rule="C19.R2"),
    V("c19_pickle_text", "M", E, "SamplingResults.pkl_load",
      *replace_expr("open(path, 'rb')", "open(path, 'r')"), note="text mode on load",
      expect_rule="C19.R3"),
    V("c19_arviz_all", "M", A, "to_arviz_inference_data",
      *replace_expr("results.get_posterior_samples()", "results.get_samples()"),
      note="warm-up samples exported as posterior", expect_rule="C19.R3"),
    V("c19_hmc_code2", "M", H, "_goose_info", *replace_expr("1 * hmc_info.is_divergent", "2 * hmc_info.is_divergent"),
      note="HMC emits undocumented code 2", expect_rule="C19.R1"),
    V("c19_groupby_no_kernel", "M", S, "Summary._error_df",
      *replace_expr("df.groupby(level=[0, 1, 2, 3], observed=True).cumcount()",
                    "df.groupby(level=[1, 2, 3], observed=True).cumcount()"),
      note="chains of different kernels numbered together", expect_rule="C19.R2"),
    V("c19_setstate_append", "M", "liesel/goose/chain.py", "ListChain",
      lambda nd: isinstance(nd, ast.FunctionDef) and nd.name == "get",
      lambda nd: [nd] + stmt("def __getstate__(self):\n    return {'chunks': list(self._chunks_list)}\n"
                             "def __setstate__(self, state):\n    self._chunks_list = []\n"
                             "    for ch in state['chunks']:\n        self.append(ch)"),
      note="unpickling re-appends (and re-thins) the stored chunks", expect_rule="C19.R3"),
    V("c19_post_guard_negated", "M", S, "_make_error_summary",
      *replace_expr("posterior_error_log.is_some()", "not posterior_error_log.is_some()"),
      note="posterior counts skipped when a posterior log exists", expect_rule="C19.R2"),
    V("c19_record_swapped", "M", S, "_make_error_summary",
      *replace_expr("ErrorSummaryForOneCode(ec, error_msg, count, None)",
                    "ErrorSummaryForOneCode(ec, error_msg, None, count)"),
      note="overall count stored as posterior count", expect_rule="C19.R2"),
    V("c19_post_zero_only", "M", S, "_make_error_summary",
      lambda nd: isinstance(nd, ast.Compare) and ast.unparse(nd) == "ec == 0",
      lambda nd: expr("ec != 0"), nth=1,
      note="posterior loop keeps only code 0", expect_rule="C19.R2"),
    V("c19_none_guard_negated", "M", E, "SamplingResults.get_error_log",
      *replace_expr("opt.is_none()", "not opt.is_none()"),
      note="posterior log dropped exactly when it exists", expect_rule="C19.R2"),
    V("c19_warmup_size_adaptation_only", "M", S, "Summary.__init__",
      *replace_expr("epoch.type.is_warmup(epoch.type)", "epoch.type.is_adaptation(epoch.type)"),
      note="burn-in epochs are not counted as warm-up", expect_rule="C19.R2"),
    # ---- twins
    V("c19_t_book_order", "T", N, "NUTSKernel",
      lambda nd: isinstance(nd, ast.AnnAssign) and ast.unparse(nd.target) == "error_book",
      lambda nd: stmt("error_book: ClassVar[dict[int, str]] = {3: 'divergent transition + maximum tree depth', "
                      "2: 'maximum tree depth', 1: 'divergent transition', 0: 'no errors'}"),
      note="book entries reordered"),
    V("c19_t_tmp", "T", S, "_make_error_summary",
      *replace_stmt("occurences_per_chain = np.sum(kel.error_codes == ec, axis=1)",
                    "hits = kel.error_codes == ec\noccurences_per_chain = np.sum(hits, axis=1)"),
      note="temporary", nth=0),
]
