import ast

from .runner import (V, expr, expr_is, is_assign_to, is_expr_call, replace_expr,
                     replace_stmt, src_is, stmt)

E = "liesel/goose/engine.py"


def _replace_name(node, old, new):
    class T(ast.NodeTransformer):
        def visit_Attribute(self, n_):
            if ast.unparse(n_) == old:
                return ast.Name(id=new, ctx=ast.Load())
            return self.generic_visit(n_)
    return T().visit(node)


def _replace_stmt_in(node, old, new):
    class T(ast.NodeTransformer):
        def visit_Assign(self, n_):
            if ast.unparse(n_) == ast.unparse(ast.parse(old).body[0]):
                return ast.parse(new).body[0]
            return n_
    return T().visit(node)

K = "liesel/goose/kernel.py"
P = "liesel/goose/epoch.py"
Q = "liesel/goose/kernel_sequence.py"

VARIANTS = [
    V("c07_no_latch", "M", E, "Engine._end_warmup",
      *replace_stmt("self._warmup_has_ended = True", None),
      note="latch never set: end_warmup before every posterior epoch", expect_rule="C07.R5"),
    V("c07_tune_always", "M", E, "Engine._tune_kernels",
      lambda nd: isinstance(nd, ast.If) and "is_adaptation" in ast.unparse(nd.test),
      lambda nd: ast.If(test=ast.Constant(True), body=nd.body, orelse=nd.orelse),
      note="tuning in every epoch", expect_rule="C07.R4"),
    V("c07_tune_warmup", "M", E, "Engine._tune_kernels",
      *replace_expr("EpochType.is_adaptation(epoch.config.type)",
                    "EpochType.is_warmup(epoch.config.type)"),
      note="tuning also in burn-in", expect_rule="C07.R4"),
    V("c07_end_before_sample", "M", E, "Engine.sample_next_epoch",
      *replace_stmt("self._sample_for_duration(duration=duration)",
                    "self._end_epoch()\nself._sample_for_duration(duration=duration)"),
      note="end_epoch before the transitions"),
    V("c07_swap_dispatch", "M", K, "TransitionMixin.transition",
      lambda nd: isinstance(nd, ast.Call) and ast.unparse(nd.func) == "jax.lax.cond",
      lambda nd: ast.Call(func=nd.func, args=[nd.args[0], nd.args[2], nd.args[1]] + nd.args[3:],
                          keywords=nd.keywords),
      note="adaptive/standard swapped", expect_rule="C07.R6"),
    V("c07_swap_tune_dispatch", "M", K, "TuningMixin.tune",
      lambda nd: isinstance(nd, ast.Call) and ast.unparse(nd.func) == "jax.lax.cond",
      lambda nd: ast.Call(func=nd.func, args=[nd.args[0], nd.args[2], nd.args[1]] + nd.args[3:],
                          keywords=nd.keywords),
      note="slow/fast swapped", expect_rule="C07.R6"),
    V("c07_advance_first", "M", E, "Engine._sample_many.scan_f",
      *replace_stmt("epoch = carry.epoch", "epoch = carry.epoch\nepoch.advance_time(1)"),
      note="time advanced before the transition (and twice)", expect_rule="C07.R3"),
    V("c07_le_burnin", "M", P, "EpochType.is_adaptation",
      *replace_expr("epoch_type < EpochType.BURNIN", "epoch_type <= EpochType.BURNIN"),
      note="burn-in counted as adaptation", expect_rule="C07.R7"),
    V("c07_init_kernel_call", "M", E, "Engine.sample_next_epoch",
      *replace_stmt("self._start_epoch()", "self._start_epoch()\nself._kernel_start_epoch()"),
      note="kernel call in the initial epoch", expect_rule="C07.R1"),
    V("c07_loop_plus_one", "M", E, "Engine._sample_for_duration",
      *replace_expr("range(duration // self._jitted_sample_duration)",
                    "range(duration // self._jitted_sample_duration + 1)"),
      note="one chunk too many", expect_rule="C07.R3"),
    V("c07_no_div_guard", "M", E, "Engine._sample_for_duration",
      lambda nd: isinstance(nd, ast.If) and "%" in ast.unparse(nd.test), lambda nd: None,
      note="divisibility guard removed", expect_rule="C07.R3"),
    V("c07_history_all", "M", E, "Engine._tune_kernels",
      *replace_expr("self._position_chain.get_current_chain().get()",
                    "self._position_chain.combine_all()"),
      note="history of all epochs", expect_rule="C07.R4"),
    V("c07_warmup_not_posterior", "M", E, "Engine._start_epoch",
      *replace_expr("self.current_epoch.config.type == EpochType.POSTERIOR",
                    "self.current_epoch.config.type >= EpochType.BURNIN"),
      note="end_warmup before burn-in", expect_rule="C07.R5"),
    V("c07_ks_wrong_method", "M", Q, "KernelSequence.end_epoch",
      lambda nd: isinstance(nd, ast.Attribute) and nd.attr == "end_epoch"
      and ast.unparse(nd.value) == "kernel",
      lambda nd: ast.Attribute(value=nd.value, attr="start_epoch", ctx=ast.Load()),
      note="end_epoch dispatches to start_epoch", expect_rule="C07.R8"),
    V("c07_wrong_keys_count", "M", E, "Engine._sample_for_duration",
      *replace_expr("self._split_prng_key(self._jitted_sample_duration)",
                    "self._split_prng_key(self._jitted_sample_duration - 1)"),
      note="one key too few per chunk", expect_rule="C07.R3"),
    V("c07_time_in_epoch_not_advanced", "M", P, "EpochState.advance_time",
      *replace_stmt("self.time_in_epoch = self.time_in_epoch + by", None),
      note="within-epoch time frozen", expect_rule="C07.R3"),
    V("c07_stale_epoch", "M", E, "Engine._sample_for_duration",
      lambda nd: isinstance(nd, ast.For),
      lambda nd: stmt("epoch0 = self.current_epoch") + [ast.fix_missing_locations(
          _replace_name(nd, "self.current_epoch", "epoch0"))],
      note="epoch clock hoisted out of the chunk loop: every chunk restarts at the same time",
      expect_rule="C07.R3"),
    V("c07_seq_epoch_rebound", "M", Q, "KernelSequence.start_epoch",
      *replace_expr("kernel.start_epoch(keys[i], kernel_states[i], model_state, epoch)",
                    "kernel.start_epoch(keys[i], kernel_states[i], epoch, model_state)"),
      note="arguments swapped", expect_rule="C07.R8"),
    V("c07_seq_th_first_kernel", "M", Q, "KernelSequence.end_warmup",
      *replace_stmt("th = tuning_history[kernel.identifier]",
                    "th = tuning_history[self._kernels[0].identifier]"),
      note="every kernel gets the first kernel's tuning history", expect_rule="C07.R8"),
    V("c07_tune_result_dropped", "M", E, "Engine._tune_kernels",
      *replace_stmt("self._kernel_states = tune_output.kernel_states", None),
      note="tuned kernel states never stored", expect_rule="C07.R8"),
    V("c07_end_warmup_result_dropped", "M", E, "Engine._end_warmup",
      *replace_stmt("self._kernel_states = end_warmup_output.kernel_states", None),
      note="end_warmup results never stored", expect_rule="C07.R8"),
    V("c07_tune_infos_dropped", "M", E, "Engine._tune_kernels",
      lambda nd: isinstance(nd, ast.Expr) and "_tuning_info_chain.append" in ast.unparse(nd),
      lambda nd: None,
      note="tuning infos not recorded", expect_rule="C07.R8"),
    V("c07_tune_axes", "M", E, "Engine._tune_kernels",
      *replace_expr("(0, 0, 0, None, 0)", "(0, 0, None, None, 0)"),
      note="model states broadcast instead of mapped", expect_rule="C07.R8"),
    V("c07_seq_tune_states_dropped", "M", Q, "KernelSequence.tune",
      *replace_stmt("kstates.append(result.kernel_state)", None),
      note="tune returns no kernel states", expect_rule="C07.R8"),
    V("c07_seq_tune_old_states", "M", Q, "KernelSequence.tune",
      *replace_stmt("kstates.append(result.kernel_state)", "kstates.append(kernel_states[i])"),
      note="tune returns the old kernel states", expect_rule="C07.R8"),
    V("c07_seq_warmup_codes_dropped", "M", Q, "KernelSequence.end_warmup",
      *replace_stmt("error_codes[kernel.identifier] = result.error_code", None),
      note="end_warmup error codes lost", expect_rule="C07.R8"),
    V("c07_seq_infos_wrong_key", "M", Q, "KernelSequence.transition",
      *replace_stmt("infos[kernel.identifier] = result.info", "infos[str(i)] = result.info"),
      note="infos keyed by position instead of identifier", expect_rule="C07.R8"),
    V("c07_kernel_overrides_transition", "M", "liesel/goose/rw.py", "RWKernel",
      lambda nd: isinstance(nd, ast.FunctionDef) and nd.name == "_standard_transition",
      lambda nd: [ast.parse("def transition(self, prng_key, kernel_state, model_state, epoch):\n"
                            "    return self._adaptive_transition(prng_key, kernel_state, model_state, epoch)"
                            ).body[0], nd],
      note="a kernel bypasses the dispatcher: always adaptive", expect_rule="C07.R6"),
    V("c07_tune_skipped_short_history", "M", E, "Engine._tune_kernels",
      lambda nd: isinstance(nd, ast.Assign) and ast.unparse(nd.targets[0]) == "history"
      and "get_current_chain" in ast.unparse(nd.value),
      lambda nd: [nd] + stmt("if jax.tree_util.tree_leaves(history)[0].shape[1] < 2:\n    return"),
      note="no kernel is tuned after an adaptation epoch that recorded one draw",
      expect_rule="C07.R8"),
    V("c07_tune_extra_gate", "M", E, "Engine._tune_kernels",
      *replace_expr("EpochType.is_adaptation(epoch.config.type)",
                    "EpochType.is_adaptation(epoch.config.type) and self._history_required_for_tuning"),
      note="kernels are tuned only when some kernel needs the history", expect_rule="C07.R8"),
    V("c07_engine_shares_manager", "M", E, "Engine.__init__",
      *replace_stmt("self._epoch_manager = EpochManager(epoch_configs)",
                    "self._epoch_manager = epoch_configs if isinstance(epoch_configs, EpochManager) "
                    "else EpochManager(epoch_configs)"),
      note="an engine may share a manager (pointer, clock) with its builder", expect_rule="C07.R1"),
    V("c07_rejected_epoch_stays", "M", P, "EpochManager.append",
      lambda nd: isinstance(nd, ast.If) and "is_warmup" in ast.unparse(nd.test),
      lambda nd: stmt("self._configs.append(config)") + [nd] + stmt("self._configs.pop()"),
      note="a warm-up epoch rejected after POSTERIOR has already been scheduled",
      expect_rule="C07.R9"),
    V("c07_results_sort_kernels", "M", E, "Engine.get_results",
      *replace_stmt("kernels = self._kernel_sequence.get_kernels()",
                    "kernels = self._kernel_sequence.get_kernels()\nkernels.sort(key=lambda k: k.identifier)"),
      note="the live kernel list is reordered while the state slots stay", expect_rule="C07.R1"),
    # ---- twins
    V("c07_t_results_sorted_copy", "T", E, "Engine.get_results",
      *replace_stmt("kernels = self._kernel_sequence.get_kernels()",
                    "kernels = sorted(self._kernel_sequence.get_kernels(), key=lambda k: k.identifier)"),
      note="a sorted COPY for the result maps"),
    V("c07_t_seq_tune_comp", "T", Q, "KernelSequence.start_epoch",
      lambda nd: isinstance(nd, ast.Assign) and ast.unparse(nd.targets[0]) == "states",
      lambda nd: stmt("states = []\nfor i, kernel in enumerate(self._kernels):\n"
                      "    states.append(kernel.start_epoch(keys[i], kernel_states[i], model_state, epoch))"),
      note="comprehension written as a loop"),
    V("c07_t_split_once", "T", E, "Engine._sample_for_duration",
      lambda nd: isinstance(nd, ast.For),
      lambda nd: stmt("all_keys = self._split_prng_key(duration)") + [ast.fix_missing_locations(
          _replace_stmt_in(nd, "keys = self._split_prng_key(self._jitted_sample_duration)",
                           "keys = all_keys[:, dur_i * self._jitted_sample_duration:"
                           "dur_i * self._jitted_sample_duration + self._jitted_sample_duration, :]"))],
      note="keys split once for the whole duration and sliced per chunk (the FIXME refactor)"),
    V("c07_t_latch_after_call", "T", E, "Engine",
      lambda nd: isinstance(nd, ast.If) and "_warmup_has_ended" in ast.unparse(nd.test),
      lambda nd: ast.If(test=nd.test, body=nd.body + stmt("self._warmup_has_ended = True"),
                        orelse=[]),
      note="latch (also) set right after the call in the guarded branch"),
    V("c07_t_early_return", "T", E, "Engine._tune_kernels",
      lambda nd: isinstance(nd, ast.If) and "is_adaptation" in ast.unparse(nd.test),
      lambda nd: [ast.If(test=ast.UnaryOp(op=ast.Not(), operand=nd.test),
                         body=[ast.Return(value=None)], orelse=[])] + nd.body,
      note="guard as early return"),
    V("c07_t_rename", "T", E, "Engine.sample_next_epoch",
      *replace_stmt("duration = self.current_epoch.config.duration",
                    "n_iter = self.current_epoch.config.duration\nduration = n_iter"),
      note="temporary"),
]
