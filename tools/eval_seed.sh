#!/bin/sh
# usage: tools/eval_seed.sh <patch.diff> [props...]   -- applies the patch to /repo, runs the
# quick checks (all built ones by default), and always reverts /repo afterwards.
patch="$1"; shift
cd /verif || exit 2
if [ -n "$(git -C /repo status --porcelain -- liesel)" ]; then echo "/repo not clean"; exit 2; fi
git -C /repo apply "$patch" || { echo "patch does not apply"; exit 2; }
props="$*"; [ -z "$props" ] && props="$(cat tools/built.txt)"
for p in $props; do
  out=$(python3-vt -m lsa check "$p" --no-selftest 2>&1); rc=$?
  if [ $rc -ne 0 ]; then echo "== $p rc=$rc"; echo "$out" | grep -v "^\[" | cut -c1-400 | head -8; fi
done
git -C /repo checkout -- . 
echo "-- done $(basename $(dirname $patch))"
