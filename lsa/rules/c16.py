"""
C16 -- epoch schedules are accepted iff valid; the Stan warm-up adds up to the request.
"""

from __future__ import annotations

import ast

import sympy as sp

from ..algebra import Untranslatable, is_zero, to_sympy
from ..core.cfg import CFG, ENTRY, EXIT, RAISE
from ..core.terms import (cmp_, not_, pc, phi_, c, evaluate, fn_name, kw, make_inliner, n,
                          pretty, subterms)
from ..domains import concrete
from .c07 import enum_members
from .common import LIB_FACTS, fresh_result_obligation, is_call, method, short

SELF = n("self")
ETYPE = "liesel.goose.epoch.EpochType"
EM = "liesel.goose.epoch.EpochManager"


class _NoPrev:
    """Stands for self._configs[-1] of an empty list: any use is an IndexError."""

    def __eq__(self, other):
        raise IndexError("configs[-1] of an empty schedule")

    __ne__ = __lt__ = __gt__ = __le__ = __ge__ = __eq__
    __hash__ = None


def check(ctx):
    repo = ctx.repo
    ctx.rule("R1", "EpochManager.append accepts a config iff the documented validity "
                   "predicate holds (guard chain evaluated over the full grid of guard-atom "
                   "sign patterns) and a rejected append leaves the manager unchanged.")
    ctx.rule("R2", "next() hands out consecutive indices and start time = sum of the "
                   "durations handed out before.")
    ctx.rule("R3", "stan_epochs: INITIAL(1), FAST(init), SLOW(doubling, each guarded by "
                   "3*d <= time left), SLOW(rest), FAST(term), POSTERIOR; the amount "
                   "subtracted from the time left equals the duration appended, so the "
                   "warm-up epochs sum to warmup_duration.")
    ctx.rule("R4", "the builder's JIT chunk is gcd of the durations of all non-initial "
                   "epochs of the schedule that is handed to the engine.")
    ctx.trust(LIB_FACTS["gcd"])
    ctx.undecided("validity of the generated schedule for argument tuples the generator "
                  "does not reject (e.g. init_duration = 0)")

    members = enum_members(repo)
    globs = {f"{ETYPE}.{k}": v for k, v in members.items()}
    em = repo.cls(EM)
    app = method(repo, em, "append", own=True)
    # validity checks moved into helper methods of the manager are read through
    ra = evaluate(repo, app, inline=make_inliner(
        repo, self_class=em, allow=lambda f: f.cls is not None and f.cls.qualname == em.qualname),
        inline_depth=3)
    # ------------------------------------------------------------------ R1
    cfgs = ("a", SELF, "_configs")
    conf = n(app.params()[1])
    prev_t = ("a", ("s", cfgs, c(-1)), "type")
    accepts = [(t, cond) for t, _, cond in ra.calls if t == ("call", ("a", cfgs, "append"),
                                                              (conf,), ())]
    ctx.ob("C16.R1", app, "append stores the config at exactly one place", len(accepts) == 1)
    funcs = {}
    for pname in ("is_warmup", "is_adaptation"):
        pfi = repo.func(f"{ETYPE}.{pname}")
        prt = evaluate(repo, pfi).ret()
        par = n(pfi.params()[0])
        funcs[f"{ETYPE}.{pname}"] = (lambda prt=prt, par=par: (
            lambda v: bool(concrete.evaluate(prt, {par: v}, globs))))()

    def holds(cond, env):
        for t, pol in cond:
            v = bool(concrete.evaluate(t, env, globs, funcs))
            if v != pol:
                return False
        return True

    mism, cases, crashes = [], 0, []
    unmodelled = None
    INIT, POST = members["INITIAL_VALUES"], members["POSTERIOR"]
    warm = {members[k] for k in ("FAST_ADAPTATION", "SLOW_ADAPTATION", "BURNIN")}
    try:
        for first in (True, False):
            prevs = [None] if first else sorted(members.values())
            for prev in prevs:
                for ty in sorted(members.values()):
                    for dur in range(0, 9):
                        for th in range(0, 10):
                            cases += 1
                            env = {cfgs: [] if first else ["x"],
                                   prev_t: _NoPrev() if first else prev,
                                   ("a", conf, "type"): ty, ("a", conf, "duration"): dur,
                                   ("a", conf, "thinning"): th}
                            try:
                                rejected = any(holds(cond, env) for cond, _, _ in ra.raises)
                                # every non-raising path stores the config (checked on
                                # the CFG below), so: accepted <=> no guard fires
                                accepted = not rejected
                            except IndexError:
                                crashes.append((first, prev, ty, dur, th))
                                continue
                            spec = ((ty == INIT) == first
                                    and (ty != INIT or dur == 1)
                                    and dur >= 1 and 1 <= th <= dur
                                    and (ty != POST or dur % th == 0)
                                    and not (ty in warm and prev == POST))
                            if accepted == rejected or accepted != spec:
                                mism.append(f"first={first} prev={prev} type={ty} duration="
                                            f"{dur} thinning={th}: accepted={accepted} "
                                            f"rejected={rejected}, valid={spec}")
    except concrete.Unmodelled as ex:
        unmodelled = ex
    ctx.ob("C16.R1", app, "accepted <=> (first epoch is INITIAL_VALUES, no other is; "
                          "INITIAL has duration 1; duration >= 1; 1 <= thinning <= "
                          "duration; POSTERIOR duration divisible by thinning; no warm-up "
                          "epoch after a POSTERIOR epoch) on the whole grid",
           not mism and not crashes and unmodelled is None, unproven=unmodelled is not None,
           detail=("; ".join(mism[:3]) + (f"; IndexError for {crashes[:2]}" if crashes else "")
                   + (f"; unmodelled {short(unmodelled.args[0])}" if unmodelled else "")),
           stmt="guard table " + "; ".join(mism[:1]) + (" crash" if crashes else ""),
           facts={"grid_cases": cases, "guards": len(ra.raises), "mismatches": len(mism)})
    ctx.extra["guard_grid_cases"] = cases
    acfg = CFG(app.node)
    stores = [st for st in acfg.stmts if isinstance(st, ast.Expr)
              and ast.unparse(st).replace(" ", "") == f"self._configs.append({app.params()[1]})"]
    ctx.ob("C16.R1", app, "every path on which no guard raises stores the config",
           len(stores) == 1 and acfg.must_pass_through(ENTRY, EXIT, stores))
    ctx.require_min("raise guards in EpochManager.append", len(ra.raises), 7)
    # atomicity: no mutation of the manager is followed by a possible rejection
    cfg = CFG(app.node)
    muts = []
    for st in cfg.stmts:
        for x in ast.walk(st) if not isinstance(st, (ast.If, ast.For, ast.While, ast.Try)) \
                else []:
            if isinstance(x, (ast.Assign, ast.AugAssign)):
                tg = x.targets if isinstance(x, ast.Assign) else [x.target]
                if any("self." in ast.unparse(t) for t in tg):
                    muts.append(st)
            if isinstance(x, ast.Call) and isinstance(x.func, ast.Attribute) \
                    and x.func.attr in ("append", "extend", "pop", "clear", "insert") \
                    and "self." in ast.unparse(x.func.value):
                muts.append(st)
    # a call to a helper of the manager that can raise is a possible rejection as well
    def may_raise(st):
        for x in ast.walk(st) if not isinstance(st, (ast.If, ast.For, ast.While, ast.Try)) else []:
            if isinstance(x, ast.Call) and isinstance(x.func, ast.Attribute) \
                    and isinstance(x.func.value, ast.Name) and x.func.value.id in ("self", "cls"):
                h = repo.lookup_method(em, x.func.attr)
                if h is not None and any(isinstance(y, ast.Raise) for y in ast.walk(h.node)):
                    return True
        return False
    raising_calls = [st for st in cfg.stmts if may_raise(st)]
    bad = [m for m in muts if cfg.reachable(m, RAISE)
           or any(r is not m and cfg.reachable(m, r) for r in raising_calls)]
    ctx.ob("C16.R1", app, "a rejected append leaves the manager unchanged: no state of the "
                          "manager is written before the last validity check", not bad,
           detail=f"writes followed by a possible raise at lines {[b.lineno for b in bad]}",
           stmt="mutation before rejection " + str([ast.unparse(b)[:60] for b in bad]))
    init = method(repo, em, "__init__", own=True)
    ri = evaluate(repo, init)
    ok = any(t == ("call", ("a", SELF, "append"), (("iter", n("configs")),), ())
             for t, _, _ in ri.calls)
    ctx.ob("C16.R1", init, "configs given to the constructor pass through append (same "
                           "validation)", ok)

    # ------------------------------------------------------------------ R2
    clock_obligations(ctx, "C16.R2")

    # ------------------------------------------------------------------ R3
    se = repo.func("liesel.goose.warmup.stan_epochs")
    rs = evaluate(repo, se)
    fresh_result_obligation(ctx, "C16.R3", se, "stan_epochs")
    alias = se.module.assigns.get("_EpochConfig")
    ok_alias = alias is not None and ast.unparse(alias).replace(" ", "") == \
        "partial(EpochConfig,optional=None)"
    ctx.ob("C16.R3", se, "_EpochConfig is EpochConfig with optional=None (positional "
                         "arguments are type, duration, thinning)", ok_alias)
    ecfg = repo.cls("liesel.goose.epoch.EpochConfig")
    fields = ecfg.annotated_fields()

    def parts(t):
        out = {}
        for i, a in enumerate(t[2]):
            out[fields[i]] = a
        for k, v in t[3]:
            out[k] = v
        return out

    mk = "liesel.goose.warmup._EpochConfig"

    def flatten(t, in_loop=False):
        """The sequence of appended configs encoded in the returned accumulator term."""
        if t[0] == "mut" and t[2] == "append":
            return flatten(t[1], in_loop) + [(t[3][0], in_loop)]
        if t[0] == "loop":
            return flatten(t[2], True)
        if t[0] == "carried":
            return flatten(t[2], False)
        if t[0] == "list":
            return [(x, in_loop) for x in t[1]]
        return [(("opaque", "?"), in_loop)]

    rt = rs.ret()
    seq = []
    for cfg_t, inl in (flatten(rt) if rt is not None else []):
        # (the alias partial(EpochConfig, optional=None) is read through: a config is a call
        # of EpochConfig whose `optional` is None)
        if is_call(cfg_t, mk) or (is_call(cfg_t, "liesel.goose.epoch.EpochConfig")
                                  and dict(cfg_t[3]).get("optional", c(None)) == c(None)):
            p = parts(cfg_t)
            seq.append((p["type"][1].rsplit(".", 1)[-1], p["duration"], p["thinning"], (), inl))
        else:
            seq.append(("?", cfg_t, None, (), inl))
    pattern = [(s_[0], s_[4]) for s_ in seq]
    want_pat = [("INITIAL_VALUES", False), ("FAST_ADAPTATION", False),
                ("SLOW_ADAPTATION", True), ("SLOW_ADAPTATION", False),
                ("FAST_ADAPTATION", False), ("POSTERIOR", False)]
    ctx.ob("C16.R3", se, "epoch pattern INITIAL, FAST, SLOW* (loop), SLOW (rest), FAST, "
                         "POSTERIOR", pattern == want_pat and len(rs.returns) == 1,
           detail=str(pattern), stmt="pattern " + str(pattern))
    if pattern == want_pat and len(rs.loops) == 1:
        lp = rs.loops[0]
        W, I, T, B = sp.symbols("W I T B", positive=True)
        syms = {n("warmup_duration"): W, n("init_duration"): I, n("term_duration"): T,
                n("base_duration"): B}
        init_e, fast1, slow_loop, slow_rest, fast2, post = seq
        cond_l = lp["cond"]
        # the loop test is  3 * d <= left  with d, left loop-carried
        tt_c = tl_c = None
        if cond_l is not None and cond_l[0] == "cmp" and cond_l[1] == "<=" \
                and cond_l[3][0] == "carried":
            tl_c = cond_l[3]
            prod = cond_l[2]
            if prod[0] == "op" and prod[1] == "*" and c(3) in (prod[2], prod[3]):
                tt_c = prod[3] if prod[2] == c(3) else prod[2]
        ok_g = tt_c is not None and tt_c[0] == "carried" and tl_c is not None
        ctx.ob("C16.R3", se, "a doubling window d is appended only while 3*d <= time left "
                             "(so the remaining window is never shorter than the next one)",
               ok_g and slow_loop[1] == tt_c, detail=short(cond_l or ()),
               stmt="loop guard " + pretty(cond_l or ())[:100])
        if ok_g:
            tl0, tt0 = tl_c[2], tt_c[2]
            tl_name, tt_name = tl_c[1], tt_c[1]
            try:
                ok_tl = is_zero(to_sympy(tl0, syms) - (W - I - T))
            except (Untranslatable, TypeError):
                ok_tl = False
            ctx.ob("C16.R3", se, "time left for the slow windows starts at warmup - init - "
                                 "term", ok_tl, detail=short(tl0 or ()),
                   stmt="time_left0 " + pretty(tl0 or ()))
            ctx.ob("C16.R3", se, "the first slow window has the base duration",
                   tt0 == n("base_duration"), detail=short(tt0 or ()))
            ctx.ob("C16.R3", se, "INITIAL epoch has duration 1 and thinning 1",
                   init_e[1] == c(1) and init_e[2] == c(1))
            ctx.ob("C16.R3", se, "first FAST epoch has duration init_duration, last FAST "
                                 "epoch term_duration", fast1[1] == n("init_duration")
                   and fast2[1] == n("term_duration"),
                   detail=f"{short(fast1[1])}, {short(fast2[1])}")
            dur_loop = slow_loop[1]
            tl_after = lp["carried"].get(tl_name)
            tt_after = lp["carried"].get(tt_name)
            ok_inv = (dur_loop == tt_c and tl_after == ("op", "-", tl_c, dur_loop))
            ctx.ob("C16.R3", se, "loop invariant: each iteration appends SLOW(d) and "
                                 "subtracts exactly d from the time left (appended warm-up + "
                                 "time left stays warmup - term)", ok_inv,
                   detail=f"appended {short(dur_loop)}; time_left' = {short(tl_after or ())}",
                   stmt="loop invariant " + pretty(tl_after or ())[:100])
            ctx.ob("C16.R3", se, "slow windows double", tt_after in (
                ("op", "*", tt_c, c(2)), ("op", "*", c(2), tt_c)), detail=short(tt_after or ()))
            ctx.ob("C16.R3", se, "the last slow window takes all the time left",
                   slow_rest[1] == ("loop", tl_name, tl_after), detail=short(slow_rest[1]))
            ctx.ob("C16.R3", se, "POSTERIOR epoch has the requested duration and posterior "
                                 "thinning; warm-up epochs use the warm-up thinning",
                   post[1] == n("posterior_duration") and post[2] == n("thinning_posterior")
                   and all(s_[2] == n("thinning_warmup") for s_ in (fast1, slow_loop,
                                                                     slow_rest, fast2)))
    # argument guards
    gtexts = [pretty(a) for cond, _, _ in rs.raises for a, p in cond if p]
    ctx.ob("C16.R3", se, "too short warm-ups are rejected (warmup < init + term + base)",
           any("init_duration" in g and "term_duration" in g and "base_duration" in g
               for g in gtexts), detail=str(gtexts))
    # the rejected set, evaluated: exactly  W < 20  or  W < init + term + base
    # (equality is admissible: the remaining slow window then is the base window)
    from ..domains import concrete as _cc
    Wn, In, Tn, Bn = (n(x) for x in ("warmup_duration", "init_duration", "term_duration",
                                     "base_duration"))
    bad_g, err_g = [], None
    for W_ in (10, 19, 20, 21, 60, 99, 100, 101, 150):
        for I_ in (5, 20, 75):
            for T_ in (5, 25, 50):
                for B_ in (1, 10, 25):
                    env = {Wn: W_, In: I_, Tn: T_, Bn: B_}
                    rej = False
                    try:
                        for cond, _, _ in rs.raises:
                            if all(bool(_cc.evaluate(a, env)) == pol for a, pol in cond):
                                rej = True
                    except _cc.Unmodelled as e:
                        err_g = e
                        break
                    want = W_ < 20 or W_ < I_ + T_ + B_
                    if rej != want:
                        bad_g.append(f"W={W_},init={I_},term={T_},base={B_}: "
                                     f"{'rejected' if rej else 'accepted'}")
    ctx.ob("C16.R3", se, "a warm-up request is rejected exactly when it is shorter than 20 or "
                         "than init + term + base (guards evaluated on a boundary grid; the "
                         "equality case is admissible)", not bad_g and err_g is None,
           unproven=err_g is not None, detail="; ".join(bad_g[:3]) or str(err_g or ""),
           stmt="warm-up guards " + "; ".join(bad_g[:2]))

    # ------------------------------------------------------------------ R4
    eb = repo.cls("liesel.goose.builder.EngineBuilder")
    build = method(repo, eb, "build")
    rb = evaluate(repo, build)
    rt = rb.ret()
    ok = False
    detail = ""
    if rt is not None and rt[0] == "call":
        epochs = kw(rt, "epoch_configs")
        jit = kw(rt, "jitted_sample_duration")
        want_ep = ("a", ("a", SELF, "_epochs"), "_configs")
        ok = (epochs == want_ep and jit is not None and is_call(jit, "math.gcd")
              and len(jit[2]) == 1 and jit[2][0][0] == "star" and jit[2][0][1][0] == "comp"
              and jit[2][0][1][3][0][1] == ("s", want_ep, ("slice", c(1), c(None), c(None)))
              and jit[2][0][1][2] == ("a", ("iter", jit[2][0][1][3][0][1]), "duration")
              and not jit[2][0][1][3][0][2])
        detail = f"epochs={short(epochs or ())} chunk={short(jit or ())}"
    ctx.ob("C16.R4", build, "chunk = gcd of the durations of all epochs after the initial "
                            "one, of the same schedule the engine receives", ok,
           detail=detail, stmt="chunk " + detail[:160])
    sd = method(repo, eb, "set_duration")
    rsd = evaluate(repo, sd)
    st = [val for loc, val, _, _ in rsd.stores if loc == ("a", SELF, "_epochs")]
    ok = (len(st) == 1 and is_call(st[0], EM) and st[0][2]
          and is_call(st[0][2][0], "liesel.goose.warmup.stan_epochs"))
    if ok:
        se_call = st[0][2][0]
        ok = (kw(se_call, "warmup_duration", 0) == n("warmup_duration")
              and kw(se_call, "posterior_duration", 1) == n("posterior_duration")
              and kw(se_call, "term_duration") == n("term_duration")
              and kw(se_call, "thinning_posterior") == n("thinning_posterior")
              and kw(se_call, "thinning_warmup") == n("thinning_warmup"))
    ctx.ob("C16.R4", sd, "set_duration validates the Stan schedule through EpochManager and "
                         "forwards its arguments to the same-named parameters", ok)
    # set_epochs: the user's configs, whatever iterable they come in, all reach the manager
    from .common import single_pass_obligation
    sep = method(repo, eb, "set_epochs")
    rse = evaluate(repo, sep)
    ep_par = sep.pos_params()[1]
    st_e = [val for loc, val, _, cond in rse.stores if loc == ("a", SELF, "_epochs") and not cond]
    ctx.ob("C16.R4", sep, "set_epochs stores EpochManager(<the configs it was given>) "
                          "unconditionally", len(st_e) == 1 and is_call(st_e[0], EM)
           and st_e[0][2] == (n(ep_par),) and not st_e[0][3],
           detail=str([short(v) for v in st_e]), stmt="set_epochs store")
    single_pass_obligation(ctx, "C16.R4", sep, ep_par, "EngineBuilder.set_epochs")
    single_pass_obligation(ctx, "C16.R4", init, init.pos_params()[1], "EpochManager.__init__")
    # an EpochConfig is a plain record: what the user wrote is what append() validates
    ec = repo.cls("liesel.goose.epoch.EpochConfig")
    hooks = sorted(m for m in ec.methods if m in (
        "__post_init__", "__init__", "__new__", "__setattr__", "__getattribute__",
        "__getattr__") or any("property" in d or "setter" in d
                              for f_ in ec.methods[m] for d in f_.decorators()
                              if m in ("type", "duration", "thinning")))
    ctx.ob("C16.R1", ec, "EpochConfig stores its fields as given (no __post_init__ / __init__ / "
                         "attribute hook that rewrites duration or thinning before the manager "
                         "validates them)", not hooks, detail=str(hooks),
           stmt=f"EpochConfig hooks {hooks}")


def _is_arg_guard(a) -> bool:
    """Guards on the function arguments that raise ValueError at the top."""
    txt = pretty(a)
    return "warmup_duration" in txt and ("<" in txt) and "time_left" not in txt


def clock_obligations(ctx, rule):
    """EpochManager.next hands out consecutive indices and start times (shared with
    C07.R3: global time continues across epochs)."""
    repo = ctx.repo
    em = repo.cls(EM)
    cfgs = ("a", SELF, "_configs")
    init = method(repo, em, "__init__", own=True)
    ri = evaluate(repo, init)
    nx = method(repo, em, "next", own=True)
    rn = evaluate(repo, nx)
    ptr, stt = ("a", SELF, "_next_epoch_ptr"), ("a", SELF, "_next_start_time")
    config_t = ("s", cfgs, ptr)
    heap = rn.env.heap
    rets = [r for r in rn.returns]
    ok = False
    detail = ""
    if len(rets) == 1:
        rt = rets[0][1]
        want = ("call", ("a", config_t, "to_state"), (ptr, stt), ())
        p_new = [val for loc, val, _, _ in rn.stores if loc == ptr]
        s_new = [val for loc, val, _, _ in rn.stores if loc == stt]
        ok = (rt == want and p_new == [("op", "+", ptr, c(1))]
              and s_new == [("op", "+", stt, ("a", config_t, "duration"))])
        detail = f"returns {short(rt)}; ptr' = {[pretty(x) for x in p_new]}; " \
                 f"start' = {[pretty(x) for x in s_new]}"
    ctx.ob(rule, nx, "next() returns configs[ptr].to_state(ptr, start) and then advances "
                         "ptr by 1 and start by that epoch's duration", ok, detail=detail,
           stmt="clock " + detail[:200])
    ini = {loc[2]: val for loc, val, _, _ in ri.stores if loc[1] == SELF}
    ctx.ob(rule, init, "index and start time begin at 0",
           ini.get("_next_epoch_ptr") == c(0) and ini.get("_next_start_time") == c(0))
    hm = method(repo, em, "has_more", own=True)
    rh = evaluate(repo, hm).ret()
    ctx.ob(rule, hm, "has_more <=> ptr < number of configs",
           rh == ("cmp", "<", ptr, ("call", ("n", "len"), (cfgs,), ())), detail=short(rh or ()))
    ok = len(rn.raises) == 1 and any(a[0] == "call" and a[1] == ("a", SELF, "has_more")
                                     and not p for a, p in rn.raises[0][0])
    ctx.ob(rule, nx, "next() raises when no epoch is left", ok)

