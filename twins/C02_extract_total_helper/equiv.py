"""
Deterministic exerciser for the code behind Model.log_prob / log_lik / log_prior.

Run from the worktree root with the worktree on PYTHONPATH:

    PYTHONPATH=$PWD python _twin/<name>/equiv.py > out.txt

Prints a line-by-line record of every observed result (exact bytes of the floating
point values, types, node orders, graph edges, exception types and messages,
log records, warnings) and, at the end, a sha256 digest of the record.
"""

from __future__ import annotations

import hashlib
import logging
import pickle
import sys
import warnings

import jax
import jax.numpy as jnp
import numpy as np
import tensorflow_probability.substrates.jax.bijectors as tfb
import tensorflow_probability.substrates.jax.distributions as tfd

import liesel.goose as gs
import liesel.model as lsl
from liesel.distributions import MultivariateNormalDegenerate

LINES: list[str] = []


def out(*parts) -> None:
    line = " ".join(str(p) for p in parts)
    LINES.append(line)
    print(line)


class _Capture(logging.Handler):
    def emit(self, record: logging.LogRecord) -> None:
        out("LOG", record.name, record.levelname, record.getMessage())


_root = logging.getLogger("liesel")
_root.setLevel(logging.DEBUG)
_root.addHandler(_Capture())


def hx(x) -> str:
    """Exact, type-aware rendering of a value."""
    if x is None:
        return "None"
    a = np.asarray(x)
    return f"{type(x).__name__}|{a.dtype}|{a.shape}|{a.tobytes().hex()}"


def attempt(label, fn):
    try:
        with warnings.catch_warnings(record=True) as w:
            warnings.simplefilter("always")
            res = fn()
        for wi in w:
            out("WARN", label, wi.category.__name__, str(wi.message))
        return res
    except Exception as e:  # noqa: BLE001
        out("EXC", label, type(e).__name__, str(e))
        return None


def node_desc(n) -> str:
    return f"{type(n).__name__}:{n.name}"


def report(label: str, model: lsl.Model) -> None:
    out("==", label, repr(model))
    out("log_prob ", hx(model.log_prob))
    out("log_lik  ", hx(model.log_lik))
    out("log_prior", hx(model.log_prior))
    out("node order", ",".join(node_desc(n) for n in model.nodes.values()))
    out("var order ", ",".join(model.vars))
    for total in ("_model_log_lik", "_model_log_prior", "_model_log_prob"):
        n = model.nodes[total]
        out(
            total,
            type(n).__name__,
            "inputs=" + ",".join(node_desc(i) for i in n.inputs),
            "kwinputs=" + ",".join(f"{k}:{node_desc(i)}" for k, i in n.kwinputs.items()),
            "outdated=" + str(n.outdated),
            "needs_seed=" + str(n.needs_seed),
            "fn=" + getattr(getattr(n, "function", None), "__qualname__", "?"),
            "fnmod=" + str(getattr(getattr(n, "function", None), "__module__", "?")),
        )
    for name, var in model.vars.items():
        out(
            " var",
            name,
            "obs=" + str(var.observed),
            "par=" + str(var.parameter),
            "weak=" + str(var.weak),
            "has_dist=" + str(var.has_dist),
            "per_obs=" + str(var.dist_node.per_obs if var.dist_node else None),
            "role=" + str(var.role),
            "log_prob=" + hx(var.log_prob),
        )
    for name, node in model.nodes.items():
        if isinstance(node, lsl.Dist):
            out(
                " dist",
                name,
                type(node).__name__,
                "at=" + (node.at.name if node.at else "None"),
                "in=" + ",".join(i.name for i in node.inputs),
                "kw=" + ",".join(f"{k}:{i.name}" for k, i in node.kwinputs.items()),
                "value=" + hx(node.value),
                "log_prob=" + hx(node.log_prob),
            )
    edges = sorted((a.name, b.name) for a, b in model.node_graph.edges)
    out("edges", hashlib.sha256(repr(edges).encode()).hexdigest(), len(edges))
    vedges = sorted((a.name, b.name) for a, b in model.var_graph.edges)
    out("vedges", hashlib.sha256(repr(vedges).encode()).hexdigest(), len(vedges))

    # the same totals read through the goose interface, from an updated state
    interface = gs.LieselInterface(model)
    state = model.state
    out("iface log_prob", hx(interface.log_prob(state)))
    keys = sorted(k for k in state if k.startswith("_model_log"))
    for k in keys:
        out(" state", k, hx(state[k].value), state[k].outdated)


def perturb(label: str, model: lsl.Model, shifts: dict[str, float]) -> None:
    """Assigns new values and reports again; restores nothing."""
    for name, shift in shifts.items():
        var = model.vars[name]
        var.value = var.value + shift
    report(label + " (perturbed)", model)

    # jitted round trip through the interface: update_state recomputes the totals
    interface = gs.LieselInterface(model)
    position = {name: model.vars[name].value * 0.5 for name in shifts}

    def f(pos, st):
        new = interface.update_state(pos, st)
        return (
            interface.log_prob(new),
            new["_model_log_lik"].value,
            new["_model_log_prior"].value,
        )

    res = jax.jit(f)(position, model.state)
    out("jit totals", " ".join(hx(r) for r in res))
    grads = jax.grad(lambda pos: f(pos, model.state)[0])(position)
    for k in sorted(grads):
        out(" grad", k, hx(grads[k]))


# ----------------------------------------------------------------------------------
# model family
# ----------------------------------------------------------------------------------

rng = np.random.default_rng(20240531)
X = rng.normal(size=(7, 3)).astype(np.float32)
Y = rng.normal(size=7).astype(np.float32)


def linreg(per_obs_y=True, per_obs_beta=True, transform=False, positional=False):
    beta_prior = (
        lsl.Dist(tfd.Normal, 0.0, 10.0)
        if positional
        else lsl.Dist(tfd.Normal, loc=0.0, scale=10.0)
    )
    beta_prior.per_obs = per_obs_beta
    beta = lsl.param(np.array([0.3, -0.2, 0.1], np.float32), beta_prior, "beta")
    sigma_prior = lsl.Dist(tfd.InverseGamma, concentration=2.0, scale=0.5)
    sigma = lsl.param(1.3, sigma_prior, "sigma")
    xvar = lsl.obs(X, name="X")
    mu = lsl.Var(lsl.Calc(lambda x, b: x @ b, xvar, beta), name="mu")
    ydist = (
        lsl.Dist(tfd.Normal, mu, sigma)
        if positional
        else lsl.Dist(tfd.Normal, loc=mu, scale=sigma)
    )
    ydist.per_obs = per_obs_y
    y = lsl.obs(Y, ydist, "y")
    if transform:
        sigma.transform(tfb.Exp())
    return lsl.GraphBuilder().add(y)


def hierarchy():
    mu0 = lsl.param(0.25, lsl.Dist(tfd.Normal, loc=0.0, scale=3.0), "mu0")
    tau = lsl.param(0.8, lsl.Dist(tfd.HalfCauchy, loc=0.0, scale=1.0), "tau")
    group_mu = lsl.param(
        np.array([0.1, -0.4, 0.9, 0.0], np.float32),
        lsl.Dist(tfd.Normal, loc=mu0, scale=tau),
        "group_mu",
    )
    idx = np.array([0, 1, 2, 3, 0, 1, 2], np.int32)
    eta = lsl.Var(lsl.Calc(lambda m: m[idx], group_mu), name="eta")
    # a variable with a distribution that is neither observed nor parameter
    latent = lsl.Var(0.4, lsl.Dist(tfd.Normal, loc=mu0, scale=1.0), name="latent")
    scale = lsl.Var(lsl.Calc(lambda l: jnp.exp(l), latent), name="scale")
    y = lsl.obs(Y, lsl.Dist(tfd.Normal, loc=eta, scale=scale), "y")
    counts = lsl.obs(
        np.array([0.0, 2.0, 5.0], np.float32),
        lsl.Dist(tfd.Poisson, rate=scale),
        "counts",
    )
    counts.dist_node.per_obs = False
    return lsl.GraphBuilder().add(y, counts)


def degenerate():
    K = np.array(
        [[1, -1, 0, 0], [-1, 2, -1, 0], [0, -1, 2, -1], [0, 0, -1, 1]], np.float32
    )
    tau2 = lsl.param(
        2.5, lsl.Dist(tfd.InverseGamma, concentration=1.0, scale=0.01), "tau2"
    )
    coef_dist = lsl.Dist(
        MultivariateNormalDegenerate.from_penalty, loc=0.0, var=tau2, pen=K
    )
    coef = lsl.param(np.array([0.2, 0.1, -0.3, 0.5], np.float32), coef_dist, "coef")
    B = rng.normal(size=(7, 4)).astype(np.float32)
    mvloc = lsl.Var(lsl.Calc(lambda c: B @ c, coef), name="mvloc")
    ydist = lsl.Dist(
        tfd.MultivariateNormalDiag, loc=mvloc, scale_diag=np.full(7, 0.7, np.float32)
    )
    y = lsl.obs(Y, ydist, "y")
    return lsl.GraphBuilder().add(y)


def bare_dist_node():
    """A distribution node that does not belong to any variable."""
    x = lsl.param(0.7, lsl.Dist(tfd.Normal, loc=0.0, scale=1.0), "x")
    penalty = lsl.Dist(tfd.Laplace, loc=0.0, scale=2.0, _name="penalty")
    penalty.at = x.value_node
    w = lsl.Var(np.array([1.0, 2.0], np.float32), name="w")
    both = lsl.Var(0.1, lsl.Dist(tfd.Normal, loc=x, scale=1.0), name="both")
    both.observed = True
    attempt("both flags", lambda: setattr(both, "parameter", True))
    return lsl.GraphBuilder().add(x, penalty, w, both)


class FloatDistribution:
    """Returns python floats from log_prob: they have no ``sum`` attribute."""

    def __init__(self, loc):
        self.loc = loc

    def log_prob(self, x):
        return -0.5 * (float(np.sum(np.asarray(x))) - float(self.loc)) ** 2 - 0.1


def python_floats():
    gb = lsl.GraphBuilder()
    for i, v in enumerate([0.1, 0.2, 0.3, 0.7, 1e-9, 1e9, -1e9, 0.1, 0.1, 0.1]):
        d = lsl.Dist(FloatDistribution, loc=0.1 * i)
        d.per_obs = bool(i % 2)
        var = lsl.param(v, d, f"p{i}") if i % 3 else lsl.obs(v, d, f"p{i}")
        gb.add(var)
    return gb


def user_nodes(which: str):
    gb = linreg()
    _, _vars = gb._all_nodes_and_vars()
    beta = [v for v in _vars if v.name == "beta"][0]
    node = lsl.Calc(lambda b: -jnp.sum(b**2), beta, _name=f"user_{which}")
    if which == "lik":
        gb.log_lik_node = node
    elif which == "prior":
        gb.log_prior_node = node
    elif which == "prob":
        gb.log_prob_node = node
    elif which == "all":
        gb.log_lik_node = node
        gb.log_prior_node = lsl.Calc(lambda b: jnp.sum(b), beta, _name="user_prior")
        gb.log_prob_node = lsl.Calc(
            lambda a, b: a + b, gb.log_lik_node, gb.log_prior_node, _name="user_prob"
        )
    return gb


def distreg():
    drb = lsl.DistRegBuilder()
    drb.add_response(Y, tfd.Normal)
    drb.add_predictor("loc", tfb.Identity)
    drb.add_predictor("scale", tfb.Exp)
    drb.add_p_smooth(X, 0.0, 10.0, "loc")
    K = np.diff(np.eye(3, dtype=np.float32), axis=0)
    K = (K.T @ K).astype(np.float32)
    drb.add_np_smooth(X, K, 1.0, 0.001, "loc")
    drb.add_p_smooth(X[:, :2], 0.5, 2.0, "scale", name="custom")
    drb.add_np_smooth(X, K, 2.0, 0.5, "scale")
    return drb


def distreg_mcmc(model: lsl.Model) -> None:
    """The samplers read the totals as target density; run a short chain."""
    for gname, group in sorted(model.groups().items()):
        if "tau2" in group:
            kernel = lsl.tau2_gibbs_kernel(group)
            draw = kernel._transition_fn(jax.random.PRNGKey(3), model.state)
            out(" gibbs", gname, kernel.position_keys, {k: hx(v) for k, v in draw.items()})
    builder = lsl.dist_reg_mcmc(model, seed=11, num_chains=2)
    out("kernels", [type(k).__name__ + str(k.position_keys) for k in builder.kernels])
    builder.set_duration(warmup_duration=200, posterior_duration=20)
    engine = builder.build()
    engine.sample_all_epochs()
    samples = engine.get_results().get_posterior_samples()
    for k in sorted(samples):
        out(" samples", k, hx(samples[k]))


def auto_transform():
    s = lsl.param(1.7, lsl.Dist(tfd.Gamma, concentration=2.0, rate=1.5), "s")
    s.auto_transform = True
    y = lsl.obs(Y, lsl.Dist(tfd.Normal, loc=0.0, scale=s), "y")
    return lsl.GraphBuilder().add(y)


def transient_dist():
    x = lsl.param(
        np.array([0.5, 1.5], np.float32),
        lsl.Dist(tfd.Normal, loc=0.0, scale=1.0),
        "x",
    )
    td = lsl.TransientDist(tfd.Normal, loc=1.0, scale=2.0, _name="td")
    attempt("transient without at", lambda: out("td value", hx(td.value)))
    td.at = x.value_node
    out("transient per_obs=True ", hx(td.value))
    td.per_obs = False
    out("transient per_obs=False", hx(td.value))
    return lsl.GraphBuilder().add(x, td)


# ----------------------------------------------------------------------------------
# run
# ----------------------------------------------------------------------------------


def build(label, make, perturbation=None, **kwargs):
    gb = attempt(label + " make", make)
    if gb is None:
        return None
    model = attempt(label + " build", lambda: gb.build_model(**kwargs))
    if model is None:
        return None
    out("builder after build", len(gb.nodes), len(gb.vars), gb.log_lik_node,
        gb.log_prior_node, gb.log_prob_node)
    report(label, model)
    if perturbation:
        attempt(label + " perturb", lambda: perturb(label, model, perturbation))
    return model


def main() -> None:
    out("python", sys.version_info[:2])

    build("empty", lsl.GraphBuilder)

    for per_obs_y in (True, False):
        for per_obs_beta in (True, False):
            build(
                f"linreg y={per_obs_y} beta={per_obs_beta}",
                lambda: linreg(per_obs_y, per_obs_beta),
                {"beta": 0.25, "sigma": 0.5},
            )
    build("linreg positional", lambda: linreg(positional=True), {"beta": -0.5})
    build(
        "linreg transformed",
        lambda: linreg(transform=True),
        {"beta": 0.125, "sigma_transformed": -0.3},
    )
    build("linreg copy", linreg, {"beta": 1.0}, copy=True)
    build("hierarchy", hierarchy, {"mu0": 0.3, "tau": 0.1, "latent": -0.2})
    build("degenerate", degenerate, {"coef": 0.05, "tau2": 1.0})
    build("bare dist node", bare_dist_node, {"x": -1.1})
    build("python floats", python_floats)
    for which in ("lik", "prior", "prob", "all"):
        build(f"user {which}", lambda: user_nodes(which), {"beta": 0.3})
    m = build("distreg", distreg)
    if m is not None:
        names = sorted(n for n in m.vars if n.endswith("_beta") or n.endswith("_tau2"))
        perturb("distreg", m, {n: 0.2 for n in names})
        out("groups", sorted(m.groups()))
        for gname, g in sorted(m.groups().items()):
            out(" group", gname, ",".join(f"{k}:{v.name}" for k, v in g.nodes_and_vars.items()))
    if m is not None:
        attempt("distreg mcmc", lambda: distreg_mcmc(m))
    build("auto transform", auto_transform, {"s_transformed": 0.4})
    build("transient dist", transient_dist, {"x": 0.3})

    # ---- per_obs switch on the same graph gives the same totals -----------------
    model = linreg().build_model()
    before = (hx(model.log_prob), hx(model.log_lik), hx(model.log_prior))
    nodes, _vars = model.pop_nodes_and_vars()
    for node in nodes.values():
        if isinstance(node, lsl.Dist):
            node.per_obs = False
    out("popped nodes", ",".join(sorted(nodes)))
    gb = lsl.GraphBuilder().add(*_vars.values())
    model2 = gb.build_model()
    report("rebuilt, summed", model2)
    out("per_obs switch before", *before)

    # ---- error paths -------------------------------------------------------------
    lonely = lsl.Dist(tfd.Normal, loc=0.0, scale=1.0, _name="lonely")
    attempt("update without at", lonely.update)
    out("lonely", hx(lonely.value), lonely.outdated)
    attempt("init_dist alone", lambda: out("init", type(lonely.init_dist()).__name__))

    gb = lsl.GraphBuilder()
    v = lsl.Var(1.0, name="v")
    attempt("lik node var", lambda: setattr(gb, "log_lik_node", v))
    attempt("prior node var", lambda: setattr(gb, "log_prior_node", v))
    attempt("prob node var", lambda: setattr(gb, "log_prob_node", v))
    attempt("lik node None", lambda: setattr(gb, "log_lik_node", None))
    out("gb nodes", gb.log_lik_node, gb.log_prior_node, gb.log_prob_node)

    reserved = lsl.Value(1.0, _name="_model_log_lik")
    attempt("reserved name", lambda: lsl.GraphBuilder().add(reserved).build_model())

    model = linreg().build_model()
    attempt("per_obs in model", lambda: setattr(model.vars["y"].dist_node, "per_obs", 0))
    attempt("at in model", lambda: setattr(model.vars["y"].dist_node, "at", None))

    bad = lsl.param(
        np.array([1.0, 2.0], np.float32),
        lsl.Dist(tfd.Normal, loc=np.zeros(3, np.float32), scale=1.0),
        "bad",
    )
    attempt("shape mismatch", lambda: lsl.GraphBuilder().add(bad).build_model())

    # distreg error paths
    drb = lsl.DistRegBuilder()
    attempt("predictor before response", lambda: drb.add_predictor("loc", tfb.Identity))
    drb.add_response(Y, tfd.Normal)
    attempt("p smooth unknown predictor", lambda: drb.add_p_smooth(X, 0.0, 1.0, "loc"))
    attempt(
        "np smooth unknown predictor",
        lambda: drb.add_np_smooth(X, np.eye(3, dtype=np.float32), 1.0, 1.0, "loc"),
    )
    out("smooths after failure", dict(drb._smooths))
    drb.add_predictor("loc", tfb.Identity)
    drb.add_p_smooth(X, 0.0, 1.0, "loc", name="dup")
    attempt("duplicate smooth", lambda: drb.add_p_smooth(X, 0.0, 1.0, "loc", name="dup"))
    out("response", drb.response.name, drb.response.role, drb.response.observed)

    # pickling of a model keeps the totals (the sum function is stored by reference)
    model = hierarchy().build_model()
    import dill

    clone = dill.loads(dill.dumps(model))
    out("dill", hx(clone.log_prob), hx(clone.log_lik), hx(clone.log_prior))
    fn = model.nodes["_model_log_prob"].function
    out("sum fn", fn.__module__, fn.__qualname__, pickle.dumps(fn).hex())
    out("sum fn direct", hx(fn()), hx(fn(1.5, 2)), hx(fn(jnp.arange(3.0), 2.0, 0.1)))
    out("sum floats", hx(fn(*([0.1] * 10))), hx(fn(1e16, 1.0, -1e16)))

    out("DIGEST", hashlib.sha256("\n".join(LINES).encode()).hexdigest())


if __name__ == "__main__":
    main()
