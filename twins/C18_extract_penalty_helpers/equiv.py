"""
Deterministic equivalence driver for the C18 code (degenerate MVN, Gaussian copula,
algebraic sigmoid bijector).

Run from the worktree root with ``PYTHONPATH=<worktree root>``; nothing in here
depends on where the worktree lives. Every result is reduced to
``name | dtype | shape | sha256(bytes)`` so that bit-level differences show up.
Exceptions are reported with their type and message.
"""

import hashlib
import itertools
import sys
import warnings

warnings.filterwarnings("ignore")

import jax
import jax.numpy as jnp
import numpy as onp

import liesel.bijectors as lslb
import liesel.distributions as lsld
import liesel.model as lsl
from liesel.distributions import mvn_degen

LINES = []


def emit(line):
    LINES.append(line)
    print(line)


def dig(name, value):
    if isinstance(value, (tuple, list)) and not isinstance(value, jax.Array):
        for i, v in enumerate(value):
            dig(f"{name}[{i}]", v)
        return
    try:
        arr = onp.asarray(value)
        h = hashlib.sha256(arr.tobytes()).hexdigest()[:24]
        emit(f"{name} | {arr.dtype} | {arr.shape} | {h}")
    except Exception as e:  # pragma: no cover
        emit(f"{name} | repr | {value!r} | {type(e).__name__}")


def attempt(name, fn):
    try:
        dig(name, fn())
    except Exception as e:
        msg = str(e).splitlines()[0][:160] if str(e) else ""
        emit(f"{name} | EXC {type(e).__name__}: {msg}")


# --------------------------------------------------------------------------------------
# penalty matrices
# --------------------------------------------------------------------------------------


def diff_penalty(d, order):
    D = onp.diff(onp.eye(d), n=order, axis=0)
    return jnp.asarray(D.T @ D, dtype=jnp.result_type(float))


def null_vectors(d, order):
    t = onp.arange(d, dtype=float)
    return [jnp.asarray(t**k, dtype=jnp.result_type(float)) for k in range(order)]


def penalties():
    out = []
    for d in (1, 2, 3, 5, 8):
        for order in (0, 1, 2):
            if order >= d and not (d == 1 and order == 1):
                continue
            out.append((f"rw{order}_d{d}", diff_penalty(d, order), order, d))
    out.append(("zero_d3", jnp.zeros((3, 3)), 3, 3))
    key = jax.random.PRNGKey(7)
    A = jax.random.normal(key, (6, 3))
    out.append(("lowrank_d6", A @ A.T, None, 6))
    return out


def mvn_section():
    emit("## module helpers")
    ev = jnp.array([[0.0, 1e-7, 1e-6, 2e-6, 1.0, 3.5], [-1.0, 0.0, 0.0, 0.5, 2.0, 9.0]])
    dig("_rank", mvn_degen._rank(ev))
    dig("_rank tol", mvn_degen._rank(ev, tol=0.75))
    dig("_log_pdet none", mvn_degen._log_pdet(ev))
    dig("_log_pdet tol", mvn_degen._log_pdet(ev, tol=0.75))
    for r in (0, 1, 3, 6):
        dig(f"_log_pdet rank={r}", mvn_degen._log_pdet(ev, rank=r))
    dig("_log_pdet rank arr", mvn_degen._log_pdet(ev[0], rank=jnp.array(2)))
    dig("_log_pdet jit", jax.jit(mvn_degen._log_pdet)(ev))
    dig(
        "_log_pdet jit rank",
        jax.jit(lambda e, r: mvn_degen._log_pdet(e, rank=r))(ev[1], 4),
    )

    emit("## constructors x penalties")
    key = jax.random.PRNGKey(0)
    for pname, pen, order, d in penalties():
        key, k1, k2, k3 = jax.random.split(key, 4)
        loc = jax.random.normal(k1, (d,))
        xs = jax.random.normal(k2, (4, d)) * 2.0
        evals = jnp.linalg.eigvalsh(pen)
        rank = mvn_degen._rank(evals)
        lpd = mvn_degen._log_pdet(evals, rank=rank)

        for var in (0.01, 1.0, 7.3, 10000.0):
            var = jnp.asarray(var, dtype=pen.dtype)
            tag = f"{pname} var={float(var):g}"
            combos = {
                "none": dict(),
                "rank": dict(rank=rank),
                "lpd": dict(log_pdet=lpd),
                "both": dict(rank=rank, log_pdet=lpd),
                "pyrank": dict(rank=int(rank)),
            }
            for cname, kw in combos.items():
                dists = {
                    "pen": lambda: lsld.MultivariateNormalDegenerate.from_penalty(
                        loc=loc, var=var, pen=pen, **kw
                    ),
                    "smooth": (
                        lambda: lsld.MultivariateNormalDegenerate.from_penalty_smooth(
                            loc=loc, smooth=1.0 / var, pen=pen, **kw
                        )
                    ),
                }
                for dname, mk in dists.items():
                    try:
                        dist = mk()
                    except Exception as e:
                        emit(f"{tag} {dname}/{cname} | EXC {type(e).__name__}: {e}")
                        continue
                    t = f"{tag} {dname}/{cname}"
                    dig(t + " prec", dist.prec)
                    dig(t + " loc", dist.loc)
                    dig(t + " rank", dist.rank)
                    dig(t + " log_pdet", dist.log_pdet)
                    dig(t + " lp", dist.log_prob(xs))
                    if order:
                        for i, nv in enumerate(null_vectors(d, order)):
                            dig(t + f" lp+null{i}", dist.log_prob(xs + 3.0 * nv))
                    dig(t + " sample", dist.sample(5, seed=k3))
                    dig(t + " sqrt_pcov", dist._sqrt_pcov)
                    emit(
                        t
                        + f" shapes {dist.batch_shape} {dist.event_shape} "
                        + f"{list(map(int, dist.batch_shape_tensor()))} "
                        + f"{list(map(int, dist.event_shape_tensor()))} {dist.dtype}"
                        + f" {dist.name} {dist.validate_args} {dist.allow_nan_stats}"
                    )
                    emit(t + f" params {sorted(dist.parameters)}")

            # plain precision constructor, each combination of supplied quantities
            prec = pen / var
            pevals = jnp.linalg.eigvalsh(prec)
            prank = mvn_degen._rank(pevals)
            plpd = mvn_degen._log_pdet(pevals, rank=prank)
            for cname, kw in {
                "none": dict(),
                "rank": dict(rank=prank),
                "lpd": dict(log_pdet=plpd),
                "both": dict(rank=prank, log_pdet=plpd),
                "tol": dict(tol=1e-3),
                "zerorank": dict(rank=0),
                "zerolpd": dict(log_pdet=0.0),
            }.items():
                t = f"{tag} prec/{cname}"
                dist = lsld.MultivariateNormalDegenerate(loc=loc, prec=prec, **kw)
                # log_prob first, then the cached properties (order matters for
                # the cache, so it is part of the exercised behaviour)
                dig(t + " lp", dist.log_prob(xs))
                dig(t + " rank", dist.rank)
                dig(t + " log_pdet", dist.log_pdet)
                dig(t + " eig", dist.eig)
                dig(t + " sample", dist.sample(3, seed=k3))
                dig(t + " sample2", dist.sample((2, 2), seed=k3))
                dist2 = lsld.MultivariateNormalDegenerate(loc=loc, prec=prec, **kw)
                dig(t + " log_pdet first", dist2.log_pdet)
                dig(t + " rank second", dist2.rank)
                emit(t + f" cache keys {sorted(k for k in vars(dist2) if k in ('eig', 'rank', 'log_pdet', '_sqrt_pcov'))}")

    emit("## batching")
    pens = jnp.stack([diff_penalty(5, 1), diff_penalty(5, 2), jnp.eye(5)])
    var_b = jnp.array([0.5, 2.0, 30.0])
    loc_b = jax.random.normal(jax.random.PRNGKey(3), (4, 1, 5))
    x_b = jax.random.normal(jax.random.PRNGKey(4), (2, 4, 3, 5))
    for kw in (dict(), dict(rank=jnp.array([4, 3, 5])), dict(log_pdet=jnp.zeros(3))):
        for mk, nm in (
            (
                lambda **k: lsld.MultivariateNormalDegenerate.from_penalty(
                    loc=loc_b, var=var_b, pen=pens, **k
                ),
                "pen",
            ),
            (
                lambda **k: lsld.MultivariateNormalDegenerate.from_penalty_smooth(
                    loc=loc_b, smooth=var_b, pen=pens, **k
                ),
                "smooth",
            ),
            (
                lambda **k: lsld.MultivariateNormalDegenerate(
                    loc=loc_b, prec=pens, **k
                ),
                "prec",
            ),
        ):
            t = f"batch {nm} {sorted(kw)}"
            dist = mk(**kw)
            emit(t + f" shapes {dist.batch_shape} {dist.event_shape}")
            dig(t + " lp", dist.log_prob(x_b))
            dig(t + " rank", dist.rank)
            dig(t + " log_pdet", dist.log_pdet)
            dig(t + " sample", dist.sample(2, seed=jax.random.PRNGKey(11)))
            dig(t + " prec", dist.prec)
            dig(t + " loc", dist.loc)

    emit("## scalar loc / validate / names")
    d0 = lsld.MultivariateNormalDegenerate.from_penalty(
        0.0,
        2.0,
        diff_penalty(4, 2),
        None,
        None,
        True,
        False,
        "custom_name",
    )
    emit(f"positional {d0.name} {d0.validate_args} {d0.allow_nan_stats}")
    dig("positional lp", d0.log_prob(jnp.arange(4.0)))
    d1 = lsld.MultivariateNormalDegenerate.from_penalty_smooth(
        0.0, 2.0, diff_penalty(4, 2), 2, 0.3, True, False, "custom_name2"
    )
    emit(f"positional2 {d1.name} {d1.validate_args} {d1.allow_nan_stats}")
    dig("positional2 lp", d1.log_prob(jnp.arange(4.0)))
    dig("positional2 rank", d1.rank)
    dig("positional2 log_pdet", d1.log_pdet)

    emit("## errors")
    attempt(
        "nonsquare",
        lambda: lsld.MultivariateNormalDegenerate(jnp.zeros(3), jnp.ones((3, 2))),
    )
    attempt(
        "mismatch",
        lambda: lsld.MultivariateNormalDegenerate(jnp.zeros(4), jnp.eye(3)),
    )
    attempt(
        "mismatch pen",
        lambda: lsld.MultivariateNormalDegenerate.from_penalty(
            jnp.zeros(4), 1.0, jnp.eye(3)
        ),
    )
    attempt(
        "nonsquare pen",
        lambda: lsld.MultivariateNormalDegenerate.from_penalty(
            jnp.zeros(3), 1.0, jnp.ones((3, 2))
        ),
    )
    attempt(
        "nonsquare smooth rank given",
        lambda: lsld.MultivariateNormalDegenerate.from_penalty_smooth(
            jnp.zeros(3), 1.0, jnp.ones((3, 2)), rank=1, log_pdet=0.0
        ),
    )
    attempt(
        "python float var",
        lambda: lsld.MultivariateNormalDegenerate.from_penalty(
            jnp.zeros(3), 2.0, diff_penalty(3, 1)
        ).log_prob(jnp.ones(3)),
    )
    attempt(
        "negative var",
        lambda: lsld.MultivariateNormalDegenerate.from_penalty(
            jnp.zeros(3), -2.0, diff_penalty(3, 1)
        ).log_prob(jnp.ones(3)),
    )
    attempt(
        "nan pen",
        lambda: lsld.MultivariateNormalDegenerate.from_penalty(
            jnp.zeros(3), 2.0, diff_penalty(3, 1).at[0, 0].set(jnp.nan)
        ).log_prob(jnp.ones(3)),
    )
    attempt(
        "nan prec sample",
        lambda: lsld.MultivariateNormalDegenerate(
            jnp.zeros(3), diff_penalty(3, 1).at[0, 0].set(jnp.nan)
        ).sample(2, seed=jax.random.PRNGKey(1)),
    )
    attempt(
        "negative eigen sample",
        lambda: lsld.MultivariateNormalDegenerate(
            jnp.zeros(3), -diff_penalty(3, 1)
        ).sample(2, seed=jax.random.PRNGKey(1)),
    )
    attempt(
        "negative eigen lp",
        lambda: lsld.MultivariateNormalDegenerate(
            jnp.zeros(3), -diff_penalty(3, 1)
        ).log_prob(jnp.ones(3)),
    )

    emit("## jit / grad")
    pen = diff_penalty(6, 2)
    x = jnp.linspace(-1.0, 2.0, 6)

    def lp_var(v, **kw):
        return lsld.MultivariateNormalDegenerate.from_penalty(
            loc=0.5, var=v, pen=pen, **kw
        ).log_prob(x)

    def lp_smooth(v, **kw):
        return lsld.MultivariateNormalDegenerate.from_penalty_smooth(
            loc=0.5, smooth=v, pen=pen, **kw
        ).log_prob(x)

    def lp_prec(v, **kw):
        return lsld.MultivariateNormalDegenerate(
            loc=0.5, prec=pen * v, **kw
        ).log_prob(x)

    for nm, f in (("var", lp_var), ("smooth", lp_smooth), ("prec", lp_prec)):
        for kw in (dict(), dict(rank=4), dict(rank=4, log_pdet=1.25)):
            g = lambda v: f(v, **kw)  # noqa: E731
            dig(f"jit {nm} {sorted(kw)}", jax.jit(g)(3.0))
            dig(f"grad {nm} {sorted(kw)}", jax.grad(g)(3.0))
            dig(f"jitgrad {nm} {sorted(kw)}", jax.jit(jax.grad(g))(3.0))
            dig(f"vmap {nm} {sorted(kw)}", jax.vmap(g)(jnp.array([0.5, 3.0, 11.0])))

    def sample_fn(key, v):
        return lsld.MultivariateNormalDegenerate.from_penalty(
            loc=0.5, var=v, pen=pen
        ).sample(4, seed=key)

    dig("jit sample", jax.jit(sample_fn)(jax.random.PRNGKey(5), 2.0))

    emit("## inside a liesel model")
    tau2 = lsl.Var(3.0, name="tau2")
    K = lsl.Var(pen, name="K")
    rk = lsl.Var(4, name="rk")
    beta = lsl.Var(
        x,
        lsl.Dist(
            lsld.MultivariateNormalDegenerate.from_penalty,
            loc=0.0,
            var=tau2,
            pen=K,
            rank=rk,
        ),
        name="beta",
    )
    model = lsl.GraphBuilder().add(beta).build_model()
    dig("model log_prob", model.log_prob)
    dig("beta log_prob", beta.log_prob)
    tau2.value = 0.25
    model.update()
    dig("model log_prob after", model.log_prob)


# --------------------------------------------------------------------------------------
# copula
# --------------------------------------------------------------------------------------


def copula_section():
    emit("## copula")
    g = jnp.array([0.0, 1e-6, 0.01, 0.2, 0.5, 0.756, 0.99, 1.0 - 1e-6, 1.0])
    u = jnp.stack(jnp.meshgrid(g, g), axis=-1).reshape(-1, 2)
    deps = [0.0, 0.42, -0.42, 0.999, -0.999, 1e-8, 1.0, -1.0, 0.9999999]
    for validate in (False, True):
        for dep in deps:
            t = f"copula dep={dep} validate={validate}"
            try:
                dist = lsld.GaussianCopula(dep, validate_args=validate)
            except Exception as e:
                emit(t + f" | EXC {type(e).__name__}: {str(e)[:120]}")
                continue
            attempt(t + " lp", lambda: dist.log_prob(u))
            attempt(t + " prob", lambda: dist.prob(u[10:20]))
            attempt(t + " sample", lambda: dist.sample(6, seed=jax.random.PRNGKey(2)))
            attempt(t + " scale_tril", lambda: dist.distribution.scale_tril)
            attempt(t + " loc", lambda: dist.distribution.loc)
            emit(
                t
                + f" {dist.name} {dist.batch_shape} {dist.event_shape} "
                + f"{dist.validate_args} {dist.allow_nan_stats} "
                + f"{dist.distribution.validate_args} {dist.distribution.allow_nan_stats} "
                + f"{dist.bijector.validate_args} {type(dist.bijector).__name__}"
            )
            emit(t + f" params {sorted(dist.parameters)} {dist.parameters['dependence']}")

    for dep in (1.5, -1.0000001, jnp.nan):
        for validate in (False, True):
            attempt(
                f"copula out-of-range dep={dep} validate={validate}",
                lambda: lsld.GaussianCopula(dep, validate_args=validate).log_prob(
                    u[:5]
                ),
            )

    attempt("copula None", lambda: lsld.GaussianCopula().log_prob(u[:5]))
    attempt(
        "copula None validate",
        lambda: lsld.GaussianCopula(validate_args=True).log_prob(u[:5]),
    )
    attempt(
        "copula positional",
        lambda: lsld.GaussianCopula(0.3, True, False, "cop").log_prob(u[:5]),
    )
    attempt(
        "copula allow_nan_stats",
        lambda: repr(lsld.GaussianCopula(0.3, allow_nan_stats=False).parameters),
    )

    depb = jnp.array([[-0.9, -0.3, 0.0], [0.3, 0.6, 0.95]])
    for validate in (False, True):
        dist = lsld.GaussianCopula(depb, validate_args=validate)
        emit(f"copula batch {dist.batch_shape} {dist.event_shape}")
        dig(f"copula batch lp {validate}", dist.log_prob(u[:, None, None, :]))
        dig(
            f"copula batch sample {validate}",
            dist.sample(3, seed=jax.random.PRNGKey(9)),
        )
        dig(f"copula batch tril {validate}", dist.distribution.scale_tril)

    def lp(dep, validate):
        return lsld.GaussianCopula(dep, validate_args=validate).log_prob(u).sum()

    attempt("copula jit", lambda: jax.jit(lambda d: lp(d, False))(0.42))
    attempt("copula grad", lambda: jax.grad(lambda d: lp(d, False))(0.42))
    attempt("copula jit validate", lambda: jax.jit(lambda d: lp(d, True))(0.42))
    attempt(
        "copula vmap", lambda: jax.vmap(lambda d: lp(d, False))(jnp.array([0.1, -0.7]))
    )

    props = lsld.GaussianCopula.parameter_properties()
    emit(f"copula props {sorted(props)}")
    pp = props["dependence"]
    emit(f"copula shape_fn {pp.shape_fn((4, 3, 2))} {pp.shape_fn([2])}")
    bij = pp.default_constraining_bijector_fn()
    emit(f"copula default bijector {type(bij).__name__} {bij.name}")
    dig("copula default bijector fwd", bij.forward(jnp.array([-2.0, 0.0, 3.0])))

    def in_model():
        dep_var = lsl.Var(0.42, name="dep")
        y = lsl.Var(
            jnp.asarray(u[10:15], dtype=jnp.float32),
            lsl.Dist(lsld.GaussianCopula, dependence=dep_var),
            name="y",
        )
        model = lsl.GraphBuilder().add(y).build_model()
        return model.log_prob

    attempt("copula model log_prob", in_model)


# --------------------------------------------------------------------------------------
# bijector
# --------------------------------------------------------------------------------------


def bijector_section():
    emit("## bijector")
    xs = jnp.array(
        [
            0.0,
            -0.0,
            1e-20,
            1e-4,
            -1e-4,
            0.5,
            -1.0,
            1.0,
            jnp.pi,
            -37.5,
            9999.0,
            -9999.0,
            1e10,
            1e19,
            1e20,
            -1e30,
            jnp.inf,
            -jnp.inf,
            jnp.nan,
        ]
    )
    ys = jnp.array(
        [
            0.0,
            -0.0,
            1e-20,
            1e-4,
            -0.3,
            0.5,
            0.99,
            -0.999999,
            1.0 - 1e-7,
            1.0,
            -1.0,
            1.0000001,
            2.0,
            jnp.nan,
        ]
    )
    for validate in (False, True):
        b = lslb.AlgebraicSigmoid(validate_args=validate)
        t = f"bij validate={validate}"
        dig(t + " fwd", b.forward(xs))
        dig(t + " inv", b.inverse(ys))
        dig(t + " fldj", b.forward_log_det_jacobian(xs))
        dig(t + " ildj", b.inverse_log_det_jacobian(ys))
        dig(t + " fldj nd0", b.forward_log_det_jacobian(xs, event_ndims=0))
        dig(t + " fldj nd1", b.forward_log_det_jacobian(xs, event_ndims=1))
        dig(t + " ildj nd1", b.inverse_log_det_jacobian(ys, event_ndims=1))
        dig(t + " roundtrip", b.inverse(b.forward(xs)))
        dig(t + " roundtrip2", b.forward(b.inverse(ys)))
        dig(t + " _forward", b._forward(xs))
        dig(t + " _inverse", b._inverse(ys))
        dig(t + " _fldj", b._forward_log_det_jacobian(xs))
        dig(t + " _ildj", b._inverse_log_det_jacobian(ys))
        dig(t + " scalar fwd", b.forward(0.3))
        dig(t + " int fwd", b.forward(2))
        dig(t + " scalar inv", b.inverse(0.3))
        dig(t + " matrix fwd", b.forward(xs[:16].reshape(4, 4)))
        emit(
            t
            + f" {b.name} {b.validate_args} {b.forward_min_event_ndims} "
            + f"{b.inverse_min_event_ndims} {b._is_increasing()} "
            + f"{type(b)._is_increasing()} {b.is_constant_jacobian} "
            + f"{sorted(b.parameters)} {b.parameters['name']}"
        )
        emit(t + f" str {b}")
        emit(t + f" repr {b!r}")

    b2 = lslb.AlgebraicSigmoid(True, "other")
    emit(f"bij positional {b2.name} {b2.validate_args} {b2.parameters}")
    b3 = lslb.AlgebraicSigmoid(name="kw_only")
    emit(f"bij kw {b3.name} {b3.validate_args} {b3.parameters}")

    b = lslb.AlgebraicSigmoid()
    dig("bij jit fwd", jax.jit(b.forward)(xs))
    dig("bij jit inv", jax.jit(b.inverse)(ys))
    dig("bij jit fldj", jax.jit(b.forward_log_det_jacobian)(xs))
    dig("bij jit ildj", jax.jit(b.inverse_log_det_jacobian)(ys))
    dig("bij grad fwd", jax.vmap(jax.grad(b.forward))(xs))
    dig("bij grad inv", jax.vmap(jax.grad(b.inverse))(ys))
    dig("bij grad fldj", jax.vmap(jax.grad(b.forward_log_det_jacobian))(xs))
    dig("bij hess fwd", jax.vmap(jax.grad(jax.grad(b.forward)))(xs))

    import tensorflow_probability.substrates.jax.bijectors as tfb
    import tensorflow_probability.substrates.jax.distributions as tfd

    inv = tfb.Invert(b)
    attempt("bij invert fwd", lambda: inv.forward(ys))
    attempt("bij invert fldj", lambda: inv.forward_log_det_jacobian(ys))
    dt = xs.dtype
    chain = tfb.Chain([b, tfb.Scale(jnp.asarray(2.0, dt))])
    attempt("bij chain fwd", lambda: chain.forward(xs))
    attempt("bij chain fldj", lambda: chain.forward_log_det_jacobian(xs))
    td = tfd.TransformedDistribution(
        tfd.Normal(jnp.asarray(0.0, dt), jnp.asarray(1.0, dt)), b
    )
    attempt("bij transformed lp", lambda: td.log_prob(ys))
    attempt(
        "bij transformed sample", lambda: td.sample(5, seed=jax.random.PRNGKey(1))
    )


def main():
    for x64 in (False, True):
        jax.config.update("jax_enable_x64", x64)
        emit(f"# ===== x64={x64} =====")
        mvn_section()
        copula_section()
        bijector_section()
    total = hashlib.sha256("\n".join(LINES).encode()).hexdigest()
    print(f"# TOTAL {len(LINES)} lines {total}")


if __name__ == "__main__":
    sys.exit(main())
