#!/bin/bash
# usage: tools/confirm_seed.sh <PROP> <seed_dir_with_patch_and_demo>
# Confirms a seeded change in a fresh scratch worktree of /repo (never in /repo itself):
#   demo passes at HEAD, fails with the patch, and the full pinned test suite still passes.
# Writes <seed_dir>/confirm.json and removes the worktree again.
prop="$1"; sd="$(realpath "$2")"; name="$(basename "$sd")"
wt="/tmp/confirm/${prop}_${name}"
mkdir -p /tmp/confirm; rm -rf "$wt"
git -C /repo worktree add -q --detach "$wt" HEAD || exit 2
demo=""; for f in demo.py test_demo.py; do [ -f "$sd/$f" ] && demo="$f"; done
run_demo() {
  cd "$wt"
  if [ "$demo" = "test_demo.py" ]; then
    PYTHONPATH="$wt" timeout 900 /venv/bin/python -m pytest -q -p no:cacheprovider "$sd/$demo" >"$1" 2>&1
  else
    PYTHONPATH="$wt" timeout 900 /venv/bin/python "$sd/$demo" >"$1" 2>&1
  fi
  echo $?
}
rc_head=$(run_demo "$sd/confirm_demo_head.txt")
cd "$wt" && git apply "$sd/patch.diff"; rc_apply=$?
rc_patch=$(run_demo "$sd/confirm_demo_patched.txt")
cd "$wt" && PYTHONPATH="$wt" timeout 3000 /venv/bin/python -m pytest -q -p no:cacheprovider --timeout=900 \
   --continue-on-collection-errors --junitxml="$sd/confirm_suite.xml" tests/ >"$sd/confirm_suite.txt" 2>&1
rc_suite=$?
summary=$(tail -1 "$sd/confirm_suite.txt")
python3 - "$sd" "$prop" "$name" "$rc_head" "$rc_apply" "$rc_patch" "$rc_suite" "$summary" <<'PY'
import json,sys
sd,prop,name,rc_head,rc_apply,rc_patch,rc_suite,summary=sys.argv[1:9]
ok = rc_head=="0" and rc_apply=="0" and rc_patch not in ("0","124") and rc_suite=="0"
json.dump({"property":prop,"name":name,"demo_rc_at_head":int(rc_head),"patch_applies":rc_apply=="0",
 "demo_rc_with_patch":int(rc_patch),"suite_rc_with_patch":int(rc_suite),"suite_summary":summary,
 "confirmed":ok}, open(sd+"/confirm.json","w"), indent=1)
print(prop,name,"CONFIRMED" if ok else "NOT-CONFIRMED",rc_head,rc_patch,rc_suite,summary)
PY
rm -f "$sd/confirm_suite.xml"
git -C /repo worktree remove --force "$wt"
