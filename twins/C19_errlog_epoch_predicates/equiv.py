"""
Deterministic equivalence driver for property C19 (error and sample bookkeeping).

Builds SamplingResults objects by hand for a grid of error-code patterns
(none / warmup-only / posterior-only / mixed), chain counts, kernel counts and
epoch schedules, then walks the whole pipeline

    get_error_log -> _make_error_summary -> Summary -> error_df / reprs
    pkl_save / pkl_load, to_arviz_inference_data

and prints a digest of every result (values, dtypes, python types, exception
types and messages).  Run it on HEAD and with the patch: the output must be
byte-identical.  The worktree is taken from PYTHONPATH / cwd; nothing is
hard-coded.
"""

from __future__ import annotations

import hashlib
import itertools
import os
import tempfile
import warnings
from typing import ClassVar

import numpy as np

warnings.filterwarnings("ignore")

import jax.numpy as jnp  # noqa: E402
import pandas as pd  # noqa: E402

import liesel  # noqa: E402
from liesel.experimental.arviz import to_arviz_inference_data  # noqa: E402
from liesel.goose.chain import EpochChainManager  # noqa: E402
from liesel.goose.engine import SamplingResults  # noqa: E402
from liesel.goose.epoch import EpochConfig, EpochType  # noqa: E402
from liesel.goose.kernel import DefaultTransitionInfo  # noqa: E402
from liesel.goose.summary_m import Summary, _make_error_summary  # noqa: E402
from liesel.option import Option  # noqa: E402

pd.set_option("display.width", 200)
pd.set_option("display.max_columns", 50)
pd.set_option("display.max_rows", 500)

LINES: list[str] = []


def emit(*parts) -> None:
    LINES.append(" ".join(str(p) for p in parts))


def arr_digest(a) -> str:
    """type, dtype, shape and an exact hash of the bytes of an array-like."""
    tname = type(a).__module__.split(".")[0] + "." + type(a).__name__
    n = np.asarray(a)
    h = hashlib.sha256(np.ascontiguousarray(n).tobytes()).hexdigest()[:16]
    small = n.tolist() if n.size <= 24 else "..."
    return f"<{tname} {n.dtype} {n.shape} {h} {small}>"


def obj_digest(o) -> str:
    if o is None:
        return "None"
    if isinstance(o, (np.ndarray, np.generic)) or hasattr(o, "shape"):
        return arr_digest(o)
    return f"<{type(o).__name__} {o!r}>"


def attempt(label: str, fn):
    try:
        res = fn()
    except BaseException as e:  # noqa: BLE001
        msg = str(e)
        # object reprs contain memory addresses; strip them
        import re

        msg = re.sub(r"0x[0-9a-fA-F]+", "0x?", msg)
        emit(label, "RAISED", type(e).__name__, msg[:300])
        return None
    return res


class KernA:
    error_book: ClassVar[dict[int, str]] = {
        0: "no errors",
        1: "error 1",
        2: "error 2",
        3: "error 3",
        90: "nan acceptance probability",
    }


class KernB:
    # deliberately lacks code 2 -> KeyError path in _make_error_summary
    error_book: ClassVar[dict[int, str]] = {0: "no errors", 1: "divergent", 3: "three"}


def make_codes(rng, chains, length, pattern, codes=(1, 2)):
    ec = np.zeros((chains, length), dtype=np.int32)
    if pattern == "none" or length == 0:
        return ec
    if pattern == "dense":
        return rng.choice(np.array((0,) + tuple(codes), dtype=np.int32), (chains, length))
    n = max(1, length // 3)
    for c in range(chains):
        idx = rng.choice(length, size=min(n, length), replace=False)
        ec[c, idx] = rng.choice(np.array(codes, dtype=np.int32), size=len(idx))
    if pattern == "one_chain":
        ec[1:] = 0
    return ec


def build_results(
    rng,
    chains,
    schedule,
    kernels,
    warm_pattern,
    post_pattern,
    with_classes=True,
    as_jax=False,
    chunks=1,
    codes=(1, 2),
):
    """schedule: list of (EpochType, duration)."""
    positions = EpochChainManager()
    tinfos = EpochChainManager()
    conv = jnp.asarray if as_jax else (lambda x: x)
    counter = 0
    for etype, dur in schedule:
        cfg = EpochConfig(etype, dur, 1, None)
        positions.advance_epoch(cfg)
        tinfos.advance_epoch(cfg)
        if dur == 0:
            continue
        # split the epoch in `chunks` pieces to exercise concatenation
        bounds = np.linspace(0, dur, chunks + 1).astype(int)
        for lo, hi in zip(bounds[:-1], bounds[1:]):
            size = int(hi - lo)
            if size == 0:
                continue
            base = counter + np.arange(size, dtype=np.float32)
            counter += size
            x = np.stack([base + 1000 * c for c in range(chains)])
            y = np.stack([x * 0.5, -x], axis=-1).astype(np.float32)
            positions.append({"x": conv(x), "y": conv(y)})
            if etype == EpochType.INITIAL_VALUES:
                pat = "none"
            elif etype == EpochType.POSTERIOR:
                pat = post_pattern
            else:
                pat = warm_pattern
            ti = {}
            for k in kernels:
                ec = make_codes(rng, chains, size, pat, codes)
                ti[k] = DefaultTransitionInfo(
                    conv(ec),
                    conv(np.full((chains, size), 0.25, dtype=np.float32)),
                    conv(np.ones((chains, size), dtype=np.int8)),
                )
            tinfos.append(ti)

    classes = {k: (KernA if i % 2 == 0 else KernB) for i, k in enumerate(kernels)}
    kbp = {"x": kernels[0], "y": kernels[-1]} if kernels else {}
    return SamplingResults(
        positions,
        tinfos,
        Option.none(),
        Option.none(),
        Option.none(),
        Option.none(),
        Option(classes) if with_classes else Option.none(),
        Option(kbp),
    )


def dump_error_log(label, opt):
    if opt is None:
        return
    emit(label, "is_some", opt.is_some(), type(opt).__name__)
    if opt.is_none():
        return
    log = opt.unwrap()
    emit(label, "type", type(log).__name__, "keys", list(log.keys()))
    for k, kel in log.items():
        emit(
            label,
            k,
            type(kel).__name__,
            repr(kel.kernel_ident),
            "cls",
            kel.kernel_cls.map_or("none", lambda c: c.__name__),
            "transition",
            arr_digest(kel.transition),
            "codes",
            arr_digest(kel.error_codes),
        )


def dump_error_summary(label, es):
    if es is None:
        return
    emit(label, "type", type(es).__name__, "keys", list(es.keys()))
    for k, per_code in es.items():
        emit(label, k, "codes", [(type(c).__name__, int(c)) for c in per_code.keys()])
        for c, entry in per_code.items():
            emit(
                label,
                k,
                int(c),
                type(entry).__name__,
                type(entry.error_code).__name__,
                int(entry.error_code),
                repr(entry.error_msg),
                "total",
                obj_digest(entry.count_per_chain),
                "post",
                obj_digest(entry.count_per_chain_posterior),
            )


def dump_df(label, df):
    if df is None:
        return
    emit(label, "shape", df.shape, "cols", list(df.columns), "idx", list(df.index.names))
    emit(label, "dtypes", [str(d) for d in df.dtypes])
    emit(label, "index", [tuple(map(str, t)) if isinstance(t, tuple) else str(t) for t in df.index])
    for col in df.columns:
        vals = df[col].tolist()
        emit(label, col, [(type(v).__name__, repr(v)) for v in vals])
    emit(label, "repr", hashlib.sha256(repr(df).encode()).hexdigest()[:16])


def dump_position(label, pos):
    if pos is None:
        return
    emit(label, type(pos).__name__, {k: arr_digest(v) for k, v in pos.items()})


def dump_tinfos(label, tis):
    if tis is None:
        return
    for k, ti in tis.items():
        emit(
            label,
            k,
            type(ti).__name__,
            arr_digest(ti.error_code),
            arr_digest(ti.acceptance_prob),
            arr_digest(ti.position_moved),
        )


def dump_idata(label, idat):
    if idat is None:
        return
    emit(label, "groups", idat.groups())
    for g in idat.groups():
        ds = idat[g]
        emit(label, g, "attrs", sorted((k, v) for k, v in ds.attrs.items() if "library" in k))
        for v in sorted(ds.data_vars):
            emit(label, g, v, ds[v].dims, arr_digest(ds[v].values))


def exercise(label, results):
    emit("=" * 8, label)
    dump_position(label + " samples", attempt(label + " samples", results.get_samples))
    dump_position(
        label + " post_samples",
        attempt(label + " post_samples", results.get_posterior_samples),
    )
    dump_tinfos(
        label + " post_tinfos",
        attempt(label + " post_tinfos", results.get_posterior_transition_infos),
    )
    emit(label, "kbp", attempt(label + " kbp", results.get_kernels_by_pos_key))

    log_all = attempt(label + " log_all", lambda: results.get_error_log(False))
    log_all_default = attempt(label + " log_default", lambda: results.get_error_log())
    log_post = attempt(label + " log_post", lambda: results.get_error_log(True))
    log_post_kw = attempt(
        label + " log_post_kw", lambda: results.get_error_log(posterior_only=True)
    )
    dump_error_log(label + " log_all", log_all)
    dump_error_log(label + " log_default", log_all_default)
    dump_error_log(label + " log_post", log_post)
    dump_error_log(label + " log_post_kw", log_post_kw)

    if log_all is not None and log_all.is_some() and log_post is not None:
        es = attempt(
            label + " make_es", lambda: _make_error_summary(log_all.unwrap(), log_post)
        )
        dump_error_summary(label + " make_es", es)
        es2 = attempt(
            label + " make_es_nopost",
            lambda: _make_error_summary(log_all.unwrap(), Option(None)),
        )
        dump_error_summary(label + " make_es_nopost", es2)

    for per_chain in (False, True):
        lab = f"{label} summary[pc={per_chain}]"
        summ = attempt(lab, lambda: Summary(results, per_chain=per_chain))
        if summ is None:
            continue
        emit(
            lab,
            "sample_info",
            {k: (type(v).__name__, repr(v)) for k, v in summ.sample_info.items()},
        )
        emit(lab, "config", summ.config, "kbp", summ.kernels_by_pos_key)
        dump_error_summary(lab + " es", summ.error_summary)
        for pc2 in (False, True):
            dump_df(
                f"{lab} error_df(pc={pc2})",
                attempt(f"{lab} error_df(pc={pc2})", lambda: summ.error_df(per_chain=pc2)),
            )
        dump_df(lab + " error_df()", attempt(lab + " error_df()", summ.error_df))
        dump_df(lab + " _error_df()", attempt(lab + " _error_df()", summ._error_df))
        dump_df(lab + " _error_df(True)", attempt(lab + " _e(True)", lambda: summ._error_df(True)))
        dump_df(lab + " to_dataframe", attempt(lab + " to_dataframe", summ.to_dataframe))
        for name in ("__repr__", "_repr_html_", "_repr_markdown_", "__str__"):
            txt = attempt(f"{lab} {name}", getattr(summ, name))
            if txt is not None:
                emit(lab, name, len(txt), hashlib.sha256(txt.encode()).hexdigest()[:16])
        if label.endswith("#show"):
            emit(repr(summ))

    for warm in (False, True):
        dump_idata(
            f"{label} arviz[warm={warm}]",
            attempt(
                f"{label} arviz[warm={warm}]",
                lambda: to_arviz_inference_data(results, include_warmup=warm),
            ),
        )
    dump_idata(
        label + " arviz[default]",
        attempt(label + " arviz[default]", lambda: to_arviz_inference_data(results)),
    )

    # pickle round trip
    with tempfile.TemporaryDirectory() as d:
        path = os.path.join(d, "res.pkl")
        ok = attempt(label + " pkl_save", lambda: (results.pkl_save(path), True)[1])
        if ok:
            emit(label, "pkl size>0", os.path.getsize(path) > 0)
            loaded = attempt(label + " pkl_load", lambda: SamplingResults.pkl_load(path))
            if loaded is not None:
                emit(label, "pkl type", type(loaded).__name__)
                dump_position(
                    label + " pkl samples", attempt(label + " pkl samples", loaded.get_samples)
                )
                dump_position(
                    label + " pkl post_samples",
                    attempt(label + " pkl post", loaded.get_posterior_samples),
                )
                dump_error_log(
                    label + " pkl log_all",
                    attempt(label + " pkl log_all", lambda: loaded.get_error_log(False)),
                )
                dump_error_log(
                    label + " pkl log_post",
                    attempt(label + " pkl log_post", lambda: loaded.get_error_log(True)),
                )
                s2 = attempt(label + " pkl summary", lambda: Summary(loaded))
                if s2 is not None:
                    dump_error_summary(label + " pkl es", s2.error_summary)
                    dump_df(label + " pkl error_df", attempt("pkl edf", s2.error_df))


STD = [
    (EpochType.INITIAL_VALUES, 1),
    (EpochType.BURNIN, 9),
    (EpochType.POSTERIOR, 12),
]
LONG = [
    (EpochType.INITIAL_VALUES, 1),
    (EpochType.FAST_ADAPTATION, 5),
    (EpochType.SLOW_ADAPTATION, 7),
    (EpochType.FAST_ADAPTATION, 4),
    (EpochType.BURNIN, 3),
    (EpochType.POSTERIOR, 10),
]
NO_WARMUP = [(EpochType.INITIAL_VALUES, 1), (EpochType.POSTERIOR, 6)]
NO_POSTERIOR = [(EpochType.INITIAL_VALUES, 1), (EpochType.BURNIN, 6)]
EMPTY_POSTERIOR = [
    (EpochType.INITIAL_VALUES, 1),
    (EpochType.BURNIN, 6),
    (EpochType.POSTERIOR, 0),
]
TWO_POSTERIOR = [
    (EpochType.INITIAL_VALUES, 1),
    (EpochType.BURNIN, 4),
    (EpochType.POSTERIOR, 5),
    (EpochType.BURNIN, 3),
    (EpochType.POSTERIOR, 4),
]


def main() -> None:
    emit("liesel imported from worktree:", os.path.dirname(liesel.__file__) != "/repo/liesel")

    case = 0
    patterns = ["none", "sparse", "dense", "one_chain"]
    # main grid: all warmup/posterior pattern combinations (none, warmup-only,
    # posterior-only, both) x chain counts x kernel counts
    for chains, kernels in itertools.product((1, 2, 3), (["k0"], ["k0", "k1", "k2"])):
        for wp, pp in itertools.product(patterns, patterns):
            if chains == 2 and (wp == "one_chain" or pp == "one_chain"):
                continue
            case += 1
            rng = np.random.default_rng(1000 + case)
            # KernB (odd kernels) lacks code 2: restrict to code 1/3 half the time
            codes = (1, 2) if len(kernels) == 1 else ((1,) if case % 2 else (1, 2))
            res = build_results(rng, chains, STD, kernels, wp, pp, codes=codes)
            exercise(f"grid{case} c={chains} k={len(kernels)} w={wp} p={pp}", res)

    # schedules
    for name, sched in [
        ("long", LONG),
        ("no_warmup", NO_WARMUP),
        ("no_posterior", NO_POSTERIOR),
        ("empty_posterior", EMPTY_POSTERIOR),
        ("two_posterior", TWO_POSTERIOR),
    ]:
        for wp, pp in (("none", "none"), ("dense", "none"), ("none", "dense"), ("dense", "dense")):
            case += 1
            rng = np.random.default_rng(2000 + case)
            res = build_results(rng, 2, sched, ["ka", "kb"], wp, pp, codes=(1, 3), chunks=2)
            exercise(f"sched{case} {name} w={wp} p={pp}", res)

    # variants: no kernel classes, jax leaves, unknown codes, high codes, chunks
    for i, kw in enumerate(
        [
            dict(with_classes=False),
            dict(as_jax=True),
            dict(as_jax=True, with_classes=False, chunks=3),
            dict(codes=(1, 2, 90)),
            dict(codes=(7,)),  # not in any error book -> KeyError
            dict(chunks=4),
        ]
    ):
        for kernels in (["k0"], ["k0", "k1"]):
            case += 1
            rng = np.random.default_rng(3000 + case)
            res = build_results(rng, 3, LONG, kernels, "sparse", "dense", **kw)
            exercise(f"var{case} {sorted(kw.items())} k={len(kernels)}", res)

    # human readable tables for a couple of cases
    rng = np.random.default_rng(77)
    exercise("show1 #show", build_results(rng, 2, STD, ["k0", "k1"], "sparse", "sparse", codes=(1,)))
    exercise("show2 #show", build_results(rng, 3, STD, ["k0"], "none", "none"))

    # completely empty results
    empty = SamplingResults(
        EpochChainManager(),
        EpochChainManager(),
        Option.none(),
        Option.none(),
        Option.none(),
        Option.none(),
        Option.none(),
        Option.none(),
    )
    exercise("empty", empty)

    # the hand-made case from tests/goose/test_engine.py::test_error_log
    errs = np.array([0, 0, 1, 0, 0, 0, 1, 1]).reshape((2, -1))
    ti = DefaultTransitionInfo(errs, np.zeros((2, 4)), np.zeros((2, 4), np.int8))
    em = EpochChainManager()
    em.advance_epoch(EpochConfig(EpochType.POSTERIOR, 4, 1, None))
    em.append({"kern0": ti})
    sr = SamplingResults(
        EpochChainManager(),
        em,
        Option.none(),
        Option.none(),
        Option.none(),
        Option.none(),
        Option.none(),
        Option.none(),
    )
    exercise("handmade", sr)

    text = "\n".join(LINES)
    print(text)
    print("TOTAL LINES", len(LINES))
    print("DIGEST", hashlib.sha256(text.encode()).hexdigest())


if __name__ == "__main__":
    main()
