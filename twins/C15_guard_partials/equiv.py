"""
Deterministic exercise of the model-building / freezing / round-trip code of
liesel.model (property C15). Prints a textual digest of everything observed and a
final sha256 of it.

Run from the worktree root:

    PYTHONPATH=$PWD python _twin/<name>/equiv.py
"""

from __future__ import annotations

import copy
import gc
import hashlib
import io
import logging
import os
import tempfile
import warnings

import matplotlib

matplotlib.use("Agg")

import jax  # noqa: E402
import jax.numpy as jnp  # noqa: E402
import numpy as np  # noqa: E402
import tensorflow_probability.substrates.jax.bijectors as tfb  # noqa: E402
import tensorflow_probability.substrates.jax.distributions as tfd  # noqa: E402

import liesel.model as lsl  # noqa: E402
import liesel.model.model as lmodel  # noqa: E402
import liesel.model.nodes as lnodes  # noqa: E402

warnings.simplefilter("ignore")

LINES: list[str] = []


def out(*parts) -> None:
    LINES.append(" ".join(str(p) for p in parts))


class _ListHandler(logging.Handler):
    def emit(self, record):
        out("LOG", record.name, record.levelname, record.getMessage())


_handler = _ListHandler()
_handler.setLevel(logging.DEBUG)
for _name in ("liesel.model.model", "liesel.model.nodes"):
    _lg = logging.getLogger(_name)
    _lg.addHandler(_handler)
    _lg.setLevel(logging.DEBUG)
    _lg.propagate = False


def fmt(value) -> str:
    """Bit-exact textual form of a value."""
    if value is None or isinstance(value, (bool, str, int)):
        return repr(value)
    if isinstance(value, float):
        return value.hex()
    if isinstance(value, lnodes.ArgGroup):
        return "ArgGroup(" + fmt(value.args) + "," + fmt(value.kwargs) + ")"
    if isinstance(value, (list, tuple)):
        return "[" + ",".join(fmt(v) for v in value) + "]"
    if isinstance(value, dict):
        return "{" + ",".join(f"{k}:{fmt(v)}" for k, v in value.items()) + "}"
    try:
        arr = np.asarray(value)
        return f"{arr.dtype}{arr.shape}:{arr.tobytes().hex()}"
    except Exception:  # pragma: no cover
        return f"<{type(value).__name__}>"


SCRUB: list[str] = []


def _scrub(text: str) -> str:
    for item in SCRUB:
        text = text.replace(item, "<TMP>")
    return text


def _attempt(label: str, fn):
    try:
        res = fn()
    except BaseException as e:  # noqa: BLE001
        cause = e.__cause__
        out(
            "EXC",
            label,
            type(e).__name__,
            _scrub(str(e)),
            "| cause:",
            type(cause).__name__ if cause is not None else None,
        )
        return None
    out("OK ", label)
    return res


def attempt(label: str, fn):
    res = _attempt(label, fn)
    # a failed build leaves a half-built model alive in the reference cycle of the
    # traceback; collect it so that the run does not depend on the timing of the gc
    gc.collect()
    return res


def node_desc(node) -> str:
    return (
        f"{type(node).__name__}:{node.name}"
        f" in={[n.name for n in node.inputs]}"
        f" kw={ {k: v.name for k, v in node.kwinputs.items()} }"
        f" all_in={[n.name for n in node.all_input_nodes()]}"
        f" seed={node.needs_seed}"
        f" var={node.var.name if node.var else None}"
        f" groups={list(node.groups)}"
        f" has_model={node.model is not None}"
    )


def describe_model(label: str, model) -> None:
    out("MODEL", label, repr(model))
    out("  node-names", list(model.nodes))
    out("  var-names", list(model.vars))
    for name, node in model.nodes.items():
        out("  N", node_desc(node), "model-is-self", node.model is model)
        out("    out", [n.name for n in node.outputs])
        out("    outdated", node.outdated, "monitor", node.monitor)
    for name, var in model.vars.items():
        out(
            "  V",
            name,
            "nodes",
            [n.name for n in var.nodes],
            "in-vars",
            [v.name for v in var.all_input_vars()],
            "out-vars",
            [v.name for v in var.all_output_vars()],
            "out-nodes",
            [n.name for n in var.all_output_nodes()],
            "obs",
            var.observed,
            "param",
            var.parameter,
            "role",
            var.role,
            "weak",
            var.weak,
            "groups",
            list(var.groups),
            "model-is-self",
            var.model is model,
        )
    out("  node_graph nodes", [n.name for n in model.node_graph.nodes])
    out("  node_graph edges", [(a.name, b.name) for a, b in model.node_graph.edges])
    out("  var_graph nodes", [v.name for v in model.var_graph.nodes])
    out("  var_graph edges", [(a.name, b.name) for a, b in model.var_graph.edges])
    out("  sorted", [n.name for n in model._sorted_nodes])
    out("  simulation", [n.name for n in model._simulation_nodes])
    out("  seed-nodes", [n.name for n in model._seed_nodes])
    out("  groups", {k: list(g.nodes_and_vars) for k, g in model.groups().items()})
    for name, st in model.state.items():
        out("  S", name, fmt(st.value), st.outdated, fmt(st.extra))
    # inverse law
    ok = True
    for node in model.nodes.values():
        for inp in node.all_input_nodes():
            ok = ok and (node in inp.outputs)
        for o in node.outputs:
            ok = ok and (node in o.all_input_nodes())
    out("  inverse-law", ok)
    for key in ("log_lik", "log_prior", "log_prob"):
        out("  ", key, attempt(f"{label}.{key}", lambda key=key: fmt(getattr(model, key))))


# ------------------------------------------------------------------------------------
# graph factories
# ------------------------------------------------------------------------------------


def _rand(key, loc, scale, seed):
    return loc + scale * jax.random.normal(seed, ())


def make_graph(variant: int):
    """Returns (roots, extras) for a family of graph shapes."""
    x = lsl.obs(np.array([0.5, -1.0, 2.0]), name="x") if variant != 3 else lsl.Var(
        np.array([0.5, -1.0, 2.0])
    )
    shared = lsl.Value(2.0, _name="shared" if variant % 2 == 0 else "")
    beta = lsl.param(
        0.25, lsl.Dist(tfd.Normal, loc=0.0, scale=shared), name="beta"
    )
    sigma = lsl.param(
        1.5, lsl.Dist(tfd.HalfCauchy, loc=0.0, scale=shared), name="sigma"
    )
    mu = lsl.Var(lsl.Calc(lambda x, b: x * b, x, beta), name="mu")
    unnamed_calc = lsl.Calc(lambda m, s: m.sum() + s, mu, shared)
    y = lsl.obs(
        np.array([0.1, 0.2, 0.3]),
        lsl.Dist(tfd.Normal, loc=mu, scale=sigma),
        name="y",
    )
    roots: list = [y, unnamed_calc]
    extras: dict = dict(
        x=x, beta=beta, sigma=sigma, mu=mu, y=y, shared=shared, calc=unnamed_calc
    )

    if variant in (1, 2, 4):
        # a seeded node
        noisy = lsl.Calc(
            lambda loc, scale, seed: loc + scale * jax.random.normal(seed, ()),
            beta,
            scale=shared,
            _name="noisy" if variant != 4 else "",
            _needs_seed=True,
        )
        roots.append(noisy)
        extras["noisy"] = noisy

    if variant in (2, 4):
        extras["g1"] = lsl.Group("g1", slope=beta, scale=sigma, sh=shared)
        extras["g2"] = lsl.Group("g2", slope=beta, resp=y)

    if variant == 4:
        # several unnamed nodes and vars, some names that collide with generated ones
        lsl.Value(1.0, _name="n0")
        v0 = lsl.Var(3.0, name="v1")
        unnamed_var = lsl.Var(lsl.Calc(lambda a, b: a + b, v0, lsl.Value(7.0)))
        n1 = lsl.Value(4.0, _name="n1")
        roots.extend([unnamed_var, n1, lsl.Calc(lambda a: a * 2, n1)])
        extras["unnamed_var"] = unnamed_var

    if variant == 5:
        sigma.auto_transform = True

    return roots, extras


def freeze_attempts(label: str, extras: dict) -> None:
    """Try every structural mutator on frozen nodes / vars."""
    y, beta, mu, shared = extras["y"], extras["beta"], extras["mu"], extras["shared"]
    calc = extras["calc"]
    before = {
        n.name: node_desc(n)
        for n in [shared, calc, mu.value_node, y.dist_node, y.value_node]
    }
    trials = {
        "node.name": lambda: setattr(shared, "name", "other"),
        "node.needs_seed": lambda: setattr(calc, "needs_seed", True),
        "node.set_inputs": lambda: calc.set_inputs(shared),
        "node.add_inputs": lambda: calc.add_inputs(shared, foo=shared),
        "calc.function": lambda: setattr(calc, "function", lambda *a: 0.0),
        "dist.at": lambda: setattr(y.dist_node, "at", shared),
        "dist.distribution": lambda: setattr(y.dist_node, "distribution", tfd.Cauchy),
        "dist.per_obs": lambda: setattr(y.dist_node, "per_obs", False),
        "var.name": lambda: setattr(beta, "name", "gamma"),
        "var.dist_node": lambda: setattr(beta, "dist_node", None),
        "var.value_node": lambda: setattr(mu, "value_node", 1.0),
        "var.observed": lambda: setattr(y, "observed", False),
        "var.parameter": lambda: setattr(beta, "parameter", False),
        "var.role": lambda: setattr(beta, "role", "r"),
        "var.auto_transform": lambda: setattr(beta, "auto_transform", False),
        "node._set_model": lambda: shared._set_model(object()),
        "second-model": lambda: lsl.Model([y], grow=False),
        "second-model-grow": lambda: lsl.Model([y]),
        "gb-second": lambda: lsl.GraphBuilder().add(y).build_model(),
        "gb-rename": lambda: lsl.GraphBuilder().add(y).rename("b", "c"),
        "gb-update": lambda: lsl.GraphBuilder().add(y).update(),
        "gb-replace": lambda: lsl.GraphBuilder().add(y).replace_node(shared, calc),
        "var.transform": lambda: beta.transform(tfb.Exp()),
    }
    for name, fn in trials.items():
        attempt(f"{label}.frozen.{name}", fn)
    after = {
        n.name: node_desc(n)
        for n in [shared, calc, mu.value_node, y.dist_node, y.value_node]
    }
    out("  frozen-unchanged", before == after)
    out("  role-now", beta.role)


def unfrozen_attempts(label: str) -> None:
    n = lsl.Value(1.0, _name="free")
    c = lsl.Calc(lambda a: a, n)
    v = lsl.Var(1.0, name="freevar")
    for name, fn in {
        "outputs": lambda: n.outputs,
        "all_output_nodes": lambda: n.all_output_nodes(),
        "flag_outdated": lambda: c.flag_outdated(),
        "var.all_output_nodes": lambda: v.all_output_nodes(),
        "var.all_output_vars": lambda: v.all_output_vars(),
    }.items():
        attempt(f"{label}.unfrozen.{name}", fn)
    for deco in ("in_model_method", "in_model_getter", "no_model_method",
                 "no_model_setter"):
        fn = getattr(lnodes, deco)

        def sample_function(self, a, b=2):
            "docstring of sample"
            return (a, b)

        wrapped = fn(sample_function)
        out(
            "  deco",
            deco,
            wrapped.__name__,
            wrapped.__doc__,
            wrapped.__wrapped__ is sample_function,
            attempt(f"deco.{deco}.free", lambda: wrapped(n, 1, b=3)),
        )


def state_equal(a, b) -> bool:
    if list(a) != list(b):
        return False
    return all(
        fmt(a[k].value) == fmt(b[k].value)
        and a[k].outdated == b[k].outdated
        and fmt(a[k].extra) == fmt(b[k].extra)
        for k in a
    )


def behaviour(label: str, model) -> None:
    """Exercise update / state / seed / simulate on a model."""
    if "beta" in model.vars and model.vars["beta"].strong:
        model.vars["beta"].value = 0.75
        out("  after-set", label, fmt(model.log_prob), fmt(model.vars["mu"].value))
        model.auto_update = False
        model.vars["beta"].value = -0.5
        out("  outdated", [n for n, nd in model.nodes.items() if nd.outdated])
        model.update("mu_value")
        out("  outdated-after-mu", [n for n, nd in model.nodes.items() if nd.outdated])
        model.update("y_log_prob", "beta_log_prob")
        out("  outdated-after-2", [n for n, nd in model.nodes.items() if nd.outdated])
        attempt(f"{label}.update-unknown", lambda: model.update("nope"))
        model.update()
        out("  outdated-after-all", [n for n, nd in model.nodes.items() if nd.outdated])
        model.auto_update = True
        out("  log_prob", fmt(model.log_prob))
    model.set_seed(jax.random.PRNGKey(42))
    out("  seeds", {n.name: fmt(n.value) for n in model._seed_nodes})
    model.update()
    if "noisy" in model.nodes:
        out("  noisy", fmt(model.nodes["noisy"].value))
    attempt(f"{label}.simulate", lambda: model.simulate(jax.random.PRNGKey(7)))
    for name, st in model.state.items():
        out("  S2", name, fmt(st.value), st.outdated)
    attempt(
        f"{label}.simulate-skip",
        lambda: model.simulate(jax.random.PRNGKey(8), skip=["beta", "y"]),
    )
    out("  log_prob-sim", fmt(model.log_prob))
    empty = model._copy_computational_model()
    out("  empty-state", {k: (fmt(s.value), s.outdated) for k, s in empty.state.items()})


def scenario(variant: int) -> None:
    label = f"g{variant}"
    out("=" * 30, label)
    roots, extras = make_graph(variant)
    gb = lsl.GraphBuilder()
    gb.add(*roots)
    out("gb", repr(gb), gb.count_node_names(), gb.count_var_names(), list(gb.groups()))
    nodes0, vars0 = gb._all_nodes_and_vars()
    out("closure nodes", [type(n).__name__ + ":" + n.name for n in nodes0])
    out("closure vars", [v.name for v in vars0])
    attempt(f"{label}.gb.update", gb.update)
    out("names-after-update", [n.name for n in nodes0], [v.name for v in vars0])
    attempt(f"{label}.gb.plot_vars", lambda: _quiet_plot(gb.plot_vars))
    attempt(f"{label}.gb.plot_nodes", lambda: _quiet_plot(gb.plot_nodes))
    out("gb-after-plots", repr(gb), [n.model is None for n in nodes0])

    model = attempt(f"{label}.build", gb.build_model)
    out("gb-after-build", repr(gb), gb.log_lik_node, gb.log_prior_node, gb.log_prob_node)
    if model is None:
        return
    describe_model(label, model)
    freeze_attempts(label, extras)
    describe_model(label + ".after-freeze-attempts", model)
    state0 = model.state

    # ---- deepcopy
    dc = copy.deepcopy(model)
    describe_model(label + ".deepcopy", dc)
    out("deepcopy-state-equal", state_equal(state0, dc.state))
    out(
        "deepcopy-independent",
        all(dc.nodes[k] is not model.nodes[k] for k in model.nodes),
        all(dc.vars[k] is not model.vars[k] for k in model.vars),
        all(n.model is dc for n in dc.nodes.values()),
    )

    # ---- copy_nodes_and_vars, rebuild
    cn, cv = model.copy_nodes_and_vars()
    out("copied nodes", list(cn), "vars", list(cv))
    out("copied frozen", [n.model is None for n in cn.values()])
    out("copied desc", [node_desc(n) for n in cn.values()])
    rebuilt = attempt(
        f"{label}.rebuild-from-copy",
        lambda: lsl.GraphBuilder().add(*cn.values(), *cv.values()).build_model(),
    )
    if rebuilt is not None:
        describe_model(label + ".rebuilt-from-copy", rebuilt)
        out("rebuilt-state-equal", state_equal(state0, rebuilt.state))

    # ---- copy=True
    cn2, cv2 = model.copy_nodes_and_vars()
    gb2 = lsl.GraphBuilder().add(*cn2.values(), *cv2.values())
    m_copy = attempt(f"{label}.build-copy-true", lambda: gb2.build_model(copy=True))
    out("gb2-after-copy-build", repr(gb2), [n.model is None for n in cn2.values()])
    if m_copy is not None:
        describe_model(label + ".copy-true", m_copy)
        out("copy-true-state-equal", state_equal(state0, m_copy.state))
        m_nocopy = attempt(f"{label}.build-after-copy", gb2.build_model)
        if m_nocopy is not None:
            out("nocopy-state-equal", state_equal(state0, m_nocopy.state))
            out("gb2-after-build", repr(gb2))

    # ---- Model(copy=True) directly
    m_direct = attempt(
        f"{label}.Model-copy-direct",
        lambda: lsl.Model(
            [*dc.nodes.values(), *dc.vars.values()], grow=False, copy=True
        ),
    )
    if m_direct is not None:
        out("direct-copy-state-equal", state_equal(state0, m_direct.state))
        out("direct-copy-names", list(m_direct.nodes), list(m_direct.vars))

    # ---- save / load (path and file handle)
    with tempfile.TemporaryDirectory() as tmp:
        SCRUB.append(tmp)
        path = os.path.join(tmp, "model.pickle")
        lsl.save_model(model, path)
        loaded = lsl.load_model(path)
        buf = io.BytesIO()
        lsl.save_model(model, buf)
        out("buffer-closed-after-save", buf.closed)
        buf.seek(0)
        loaded2 = lsl.load_model(buf)
        out("buffer-closed-after-load", buf.closed)
        with open(path, "rb") as handle:
            loaded3 = lsl.load_model(handle)
            out("handle-closed-after-load", handle.closed)
        attempt(f"{label}.load-missing", lambda: lsl.load_model(path + ".nope"))
        attempt(
            f"{label}.save-unpicklable",
            lambda: lsl.save_model(iter([1]).__class__, os.path.join(tmp, "nodir", "x")),
        )
    describe_model(label + ".loaded", loaded)
    out(
        "loaded-state-equal",
        state_equal(state0, loaded.state),
        state_equal(state0, loaded2.state),
        state_equal(state0, loaded3.state),
    )

    # ---- behaviour of original and copies must agree
    for tag, m in (("orig", model), ("deepcopy", dc), ("loaded", loaded)):
        out("behaviour", tag)
        behaviour(f"{label}.{tag}", m)
    out("loaded2 unaffected", state_equal(state0, loaded2.state))

    # ---- pop, mutate, rebuild
    pn, pv = model.pop_nodes_and_vars()
    out("popped nodes", list(pn), "vars", list(pv))
    out("popped desc", [node_desc(n) for n in pn.values()])
    out("old model", repr(model), list(model.nodes), list(model.vars))
    out(
        "old graphs",
        len(model.node_graph),
        len(model.var_graph),
        model._sorted_nodes,
        model._seed_nodes,
    )
    attempt(f"{label}.popped.outputs", lambda: next(iter(pn.values())).outputs)
    extras["shared"].name = extras["shared"].name  # setter works again
    again = attempt(
        f"{label}.rebuild-from-pop",
        lambda: lsl.GraphBuilder().add(*pn.values(), *pv.values()).build_model(),
    )
    if again is not None:
        describe_model(label + ".rebuilt-from-pop", again)
        again.pop_nodes_and_vars()
    # again from roots only, via Model(grow=True)
    roots_again = [pv[k] for k in pv if k in ("y",)] + [
        n for n in pn.values() if n.name in ("noisy",)
    ]
    m3 = attempt(f"{label}.Model-grow", lambda: lsl.Model(roots_again))
    if m3 is not None:
        describe_model(label + ".Model-grow", m3)
        m3.pop_nodes_and_vars()
    m4 = attempt(
        f"{label}.Model-grow-f64", lambda: lsl.Model(roots_again, to_float32=False)
    )
    if m4 is not None:
        out("f64 state", {k: fmt(s.value) for k, s in m4.state.items()})


def _quiet_plot(fn):
    import matplotlib.pyplot as plt

    fn()
    plt.close("all")


def rejections() -> None:
    out("=" * 30, "rejections")

    # duplicate node names
    a = lsl.Value(1.0, _name="dup")
    b = lsl.Value(2.0, _name="dup")
    c = lsl.Calc(lambda x, y: x + y, a, b, _name="c")
    attempt("dup-node", lambda: lsl.GraphBuilder().add(c).build_model())
    out("dup-node leftover", a.model, b.model, c.model, node_desc(c))
    attempt("dup-node-direct", lambda: lsl.Model([a, b, c], grow=False))
    out("count", lsl.GraphBuilder().add(c).count_node_names())

    # three-fold duplicates plus another duplicate
    d1, d2, d3 = (lsl.Value(i, _name="d") for i in range(3))
    e1, e2 = (lsl.Value(i, _name="e") for i in range(2))
    attempt("dup-multi", lambda: lsl.Model([e1, d1, d2, e2, d3], grow=False))

    # duplicate var names
    v1 = lsl.Var(1.0, name="v")
    v2 = lsl.Var(2.0, name="v")
    v2.value_node.name = "other_value"
    v2.var_value_node.name = "other_var_value"
    s = lsl.Var(lsl.Calc(lambda x, y: x + y, v1, v2), name="s")
    attempt("dup-var", lambda: lsl.GraphBuilder().add(s).build_model())
    out("count-vars", lsl.GraphBuilder().add(s).count_var_names())

    # node and var duplicates simultaneously -> node error first
    attempt("dup-both", lambda: lsl.Model([a, b, v1, v2], grow=False))

    # duplicate group names
    p = lsl.Var(1.0, name="p")
    q = lsl.Var(2.0, name="q")
    lsl.Group("grp", a=p)
    lsl.Group("grp", a=q)
    r = lsl.Var(lsl.Calc(lambda x, y: x + y, p, q), name="r")
    attempt("dup-group", lambda: lsl.GraphBuilder().add(r).build_model())
    gb = lsl.GraphBuilder()
    g3 = lsl.Group("grp", z=lsl.Var(0.0, name="z"))
    attempt("add_groups-1", lambda: gb.add_groups(p.groups["grp"]))
    attempt("add_groups-2", lambda: gb.add_groups(g3))
    attempt("add_groups-same", lambda: gb.add_groups(p.groups["grp"]))
    out("gb", repr(gb))

    # a same node / var given twice is fine
    t = lsl.Var(1.0, name="t")
    m = attempt("same-twice", lambda: lsl.Model([t, t, *t.nodes, *t.nodes], grow=False))
    out("same-twice", list(m.nodes), list(m.vars))
    m.pop_nodes_and_vars()

    # not a node or var in the list
    attempt("foreign-object", lambda: lsl.Model([t, "string"], grow=False))
    out("t model", t.model)
    attempt("foreign-object-gb", lambda: lsl.GraphBuilder().add(t, 3))

    # generator input: consumed once
    gen = (nv for nv in [t, *t.nodes])
    m = attempt("generator", lambda: lsl.Model(gen, grow=False))
    out("generator", list(m.nodes), list(m.vars), list(m.var_graph.nodes))
    m.pop_nodes_and_vars()
    gen = (nv for nv in [t])
    m = attempt("generator-grow", lambda: lsl.Model(gen))
    out("generator-grow", list(m.nodes), list(m.vars))
    m.pop_nodes_and_vars()

    # cycle
    n1 = lsl.Calc(lambda x: x, 1.0, _name="n1")
    n2 = lsl.Calc(lambda x: x, n1, _name="n2")
    n1.set_inputs(n2)
    attempt("cycle-direct", lambda: lsl.Model([n1, n2], grow=False))
    out("cycle leftover", n1.model is None, n2.model is None)
    n3 = lsl.Calc(lambda x: x, 1.0, _name="n3")
    n3.set_inputs(n3)
    attempt("self-cycle", lambda: lsl.Model([n3], grow=False))

    # reserved names
    rn = lsl.Value(1.0, _name="_model_foo")
    attempt("reserved", lambda: lsl.GraphBuilder().add(rn).build_model())
    rv = lsl.Var(1.0, name="_model")
    attempt("reserved-var", lambda: lsl.GraphBuilder().add(rv).build_model())

    # two reserved names in one graph: the first one in closure order is reported
    r1 = lsl.Value(1.0, _name="_model_a")
    r2 = lsl.Value(2.0, _name="_modelb")
    r3 = lsl.Calc(lambda a, b: a + b, r1, r2, _name="fine")
    attempt("reserved-two", lambda: lsl.GraphBuilder().add(r3).build_model())
    attempt("reserved-two-rev", lambda: lsl.GraphBuilder().add(r2, r1).build_model())
    out("reserved leftover", r1.model, r2.model, r3.model)

    # user-supplied seed input: wins over the model seed and survives the pop
    myseed = lsl.Value(jax.random.PRNGKey(3), _name="myseed")
    us = lsl.Calc(
        lambda seed: jax.random.normal(seed, ()), seed=myseed, _name="us",
        _needs_seed=True,
    )
    ms = lsl.Calc(
        lambda a, seed: a + jax.random.normal(seed, ()), us, _name="ms",
        _needs_seed=True,
    )
    m = attempt("user-seed", lambda: lsl.GraphBuilder().add(ms).build_model())
    describe_model("user-seed", m)
    m.set_seed(jax.random.PRNGKey(11))
    m.update()
    out("user-seed values", fmt(m.nodes["us"].value), fmt(m.nodes["ms"].value))
    cn, cv = m.copy_nodes_and_vars()
    out("user-seed copied", [node_desc(n) for n in cn.values()])
    pn, pv = m.pop_nodes_and_vars()
    out("user-seed popped", [node_desc(n) for n in pn.values()], pv)
    out("user-seed kw identity", us.kwinputs["seed"] is myseed, dict(ms.kwinputs))

    # save / load with something that is neither a path string nor a handle
    import pathlib

    with tempfile.TemporaryDirectory() as tmp:
        SCRUB.append(tmp)
        attempt("save-pathlib", lambda: lsl.save_model(1, pathlib.Path(tmp) / "x"))
        attempt("load-pathlib", lambda: lsl.load_model(pathlib.Path(tmp) / "x"))
        lsl.save_model({"a": 1}, os.path.join(tmp, "obj"))
        out("load-any", lsl.load_model(os.path.join(tmp, "obj")))
        attempt("load-dir", lambda: lsl.load_model(tmp))

        class Boom:
            def __reduce__(self):
                raise ValueError("boom")

        buf = io.BytesIO()
        attempt("save-boom-handle", lambda: lsl.save_model(Boom(), buf))
        out("handle open after failed save", not buf.closed)
        attempt("save-boom-path", lambda: lsl.save_model(Boom(), os.path.join(tmp, "b")))
        out("file exists after failed save", os.path.exists(os.path.join(tmp, "b")))
        attempt("load-garbage", lambda: lsl.load_model(io.BytesIO(b"garbage")))

    # empty
    m = attempt("empty", lambda: lsl.GraphBuilder().build_model())
    describe_model("empty", m)
    m2 = attempt("empty-direct", lambda: lsl.Model([], grow=False))
    out("empty-direct", repr(m2), m2.state, list(m2.node_graph))
    out("empty pop", m2.pop_nodes_and_vars(), m.pop_nodes_and_vars())

    # incomplete model with grow=False: input is missing from the model
    i1 = lsl.Value(1.0, _name="i1")
    i2 = lsl.Calc(lambda x: x + 1, i1, _name="i2")
    m = attempt("incomplete", lambda: lsl.Model([i2], grow=False))
    if m is not None:
        out("incomplete", list(m.nodes), [n.name for n in m.node_graph.nodes])
        out("incomplete i1", i1.model, i1._outputs)
        m.pop_nodes_and_vars()

    # user-defined log_lik / log_prior / log_prob nodes
    uroots, uex = make_graph(0)
    gb = lsl.GraphBuilder().add(*uroots)
    gb.log_lik_node = lsl.Calc(lambda x: x.sum() * 2.0, uex["y"].dist_node, _name="ll")
    gb.log_prior_node = lsl.Calc(lambda x: x * 3.0, uex["beta"].dist_node)
    gb.log_prob_node = lsl.Value(1.25, _name="lp")
    attempt("log_lik-var", lambda: setattr(gb, "log_lik_node", uex["y"]))
    attempt("log_prior-var", lambda: setattr(gb, "log_prior_node", uex["y"]))
    attempt("log_prob-var", lambda: setattr(gb, "log_prob_node", uex["y"]))
    gbc = gb.copy()
    out("copy", repr(gbc), gbc.log_lik_node, gbc.log_prior_node, gbc.log_prob_node)
    nodes, _vars = gb._all_nodes_and_vars()
    out("closure+user", [n.name for n in nodes], [v.name for v in _vars])
    m = attempt("user-log-nodes-copy", lambda: gb.build_model(copy=True))
    describe_model("user-log-nodes-copy", m)
    out("gb kept", repr(gb), gb.log_lik_node, gb.log_prior_node, gb.log_prob_node)
    m = attempt("user-log-nodes", gb.build_model)
    describe_model("user-log-nodes", m)
    out("gb cleared", repr(gb), gb.log_lik_node, gb.log_prior_node, gb.log_prob_node)

    # name generation with collisions
    class Dummy:
        def __init__(self, name):
            self.name = name

    for names in (
        ["", "", ""],
        ["n1", "", "n0", "", ""],
        ["", "n0", "n1", "n3", "", ""],
        ["a", "b"],
        [],
        ["", "n00", "n-1", ""],
    ):
        objs = [Dummy(n) for n in names]
        lsl.GraphBuilder._do_set_missing_names(objs, prefix="n")
        out("missing-names", names, "->", [o.name for o in objs])
    objs = [Dummy(""), Dummy("v0"), Dummy("")]
    lsl.GraphBuilder()._do_set_missing_names(objs, "v")
    out("missing-names-v", [o.name for o in objs])

    # renaming / replacing in a graph builder
    rroots, rex = make_graph(2)
    gb = lsl.GraphBuilder().add(*rroots)
    gb.rename("a$", "A")
    nodes, _vars = gb._all_nodes_and_vars()
    out("renamed", [n.name for n in nodes], [v.name for v in _vars])
    gb.rename_nodes("^", "p_").rename_vars("$", "_s")
    out("renamed2", [n.name for n in nodes], [v.name for v in _vars])
    new_shared = lsl.Value(5.0, _name="new_shared")
    gb.replace_node(rex["shared"], new_shared)
    new_beta = lsl.param(0.5, lsl.Dist(tfd.Normal, loc=1.0, scale=new_shared), "nb")
    gb.replace_var(rex["beta"], new_beta)
    attempt("replace-var-nodist", lambda: gb.replace_var(new_beta, lsl.Var(1.0)))
    m = attempt("replaced", gb.build_model)
    if m is not None:
        describe_model("replaced", m)

    # auto-transform name clash & deprecated transform
    troots, tex = make_graph(5)
    gb = lsl.GraphBuilder().add(*troots)
    m = attempt("auto-transform", gb.build_model)
    if m is not None:
        out("auto-transform", list(m.vars), list(m.nodes))
        out("state", {k: fmt(s.value) for k, s in m.state.items()})
    troots, tex = make_graph(0)
    gb = lsl.GraphBuilder().add(*troots)
    tv = attempt("gb.transform", lambda: gb.transform(tex["sigma"], tfb.Exp))
    out("gb.transform", tv, repr(gb))
    m = attempt("gb.transform.build", gb.build_model)
    if m is not None:
        out("state", {k: fmt(s.value) for k, s in m.state.items()})

    # to_float32
    f = lsl.Var(np.array([1.0, 2.0]), name="f")
    gb = lsl.GraphBuilder(to_float32=False).add(f)
    out("f dtype", np.asarray(f.value).dtype)
    gb.add(lsl.Var(np.array([1.0]), name="f2"), to_float32=True)
    out("f dtype", np.asarray(f.value).dtype)

    # pickling of single nodes in and out of models
    free = lsl.Calc(lambda x: x + 1, lsl.Value(1.0, _name="pv"), _name="pc")
    st = free.__getstate__()
    out("getstate free", sorted(st), st["_model"])
    fcopy = copy.deepcopy(free)
    out("deepcopy free", node_desc(fcopy), fcopy.model, fcopy._model())
    m = lsl.Model([free])
    st = free.__getstate__()
    out("getstate in-model", st["_model"] is m)
    ncopy = copy.deepcopy(free)
    out(
        "deepcopy in-model node",
        node_desc(ncopy),
        repr(ncopy.model),
        ncopy.model is not m,
    )
    blank = lsl.Value.__new__(lsl.Value)
    blank.__setstate__({"_model": None, "_name": "blank"})
    out("setstate None", blank._model(), blank.name)
    blank.__setstate__({"_model": m, "_name": "blank2"})
    out("setstate model", blank._model() is m, blank.model is m)
    del m
    gc.collect()
    out("weak model gone", free.model, ncopy.model)
    attempt("rename after model death", lambda: setattr(free, "name", "pc2"))
    out(free.name)


def main() -> None:
    assert os.path.realpath(lsl.__file__).startswith(os.path.realpath(os.getcwd())), (
        "run from the worktree root with PYTHONPATH set to it: " + lsl.__file__
    )
    unfrozen_attempts("free")
    for variant in range(6):
        scenario(variant)
    rejections()
    text = "\n".join(LINES)
    print(text)
    print("DIGEST", hashlib.sha256(text.encode()).hexdigest())


if __name__ == "__main__":
    main()
