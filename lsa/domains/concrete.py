"""
Concrete evaluation of *extracted* predicate / arithmetic terms over small finite
domains (enum members, small integers).  It evaluates terms built from liesel's
source, never liesel itself; anything it does not model raises Unmodelled.
"""

from __future__ import annotations

import operator

from ..core.terms import fn_name


class Unmodelled(Exception):
    pass


OPS = {"+": operator.add, "-": operator.sub, "*": operator.mul, "//": operator.floordiv,
       "%": operator.mod, "**": operator.pow, "&": operator.and_, "|": operator.or_,
       "/": operator.truediv}
CMPS = {"<": operator.lt, "<=": operator.le, ">": operator.gt, ">=": operator.ge,
        "==": operator.eq, "!=": operator.ne, "is": operator.is_,
        "is not": operator.is_not, "in": lambda a, b: a in b,
        "not in": lambda a, b: a not in b}


def evaluate(t, env: dict, globals_: dict | None = None, funcs: dict | None = None):
    """env: term -> value (checked first, for any sub-term)."""
    if t in env:
        return env[t]
    tag = t[0]
    if tag == "c":
        return t[1]
    if tag == "g":
        if globals_ and t[1] in globals_:
            return globals_[t[1]]
        raise Unmodelled(t)
    if tag == "op":
        if t[1] not in OPS:
            raise Unmodelled(t)
        return OPS[t[1]](evaluate(t[2], env, globals_, funcs),
                         evaluate(t[3], env, globals_, funcs))
    if tag == "cmp":
        if t[1] not in CMPS:
            raise Unmodelled(t)
        return CMPS[t[1]](evaluate(t[2], env, globals_, funcs),
                          evaluate(t[3], env, globals_, funcs))
    if tag == "u":
        v = evaluate(t[2], env, globals_, funcs)
        if t[1] == "not":
            return not v
        if t[1] == "-":
            return -v
        if t[1] == "~":
            return not v if isinstance(v, bool) else ~v
        raise Unmodelled(t)
    if tag == "bool":
        vals = (evaluate(x, env, globals_, funcs) for x in t[2])
        if t[1] == "and":
            r = True
            for v in vals:
                r = v
                if not v:
                    return v
            return r
        r = False
        for v in vals:
            r = v
            if v:
                return v
        return r
    if tag in ("tuple", "list", "set") and len(t) == 2:
        vals = [evaluate(x, env, globals_, funcs) for x in t[1]]
        return {"tuple": tuple, "list": list, "set": set}[tag](vals)
    if tag in ("ifexp", "phi") and len(t) == 4:
        return evaluate(t[2] if evaluate(t[1], env, globals_, funcs) else t[3],
                        env, globals_, funcs)
    if tag == "call":
        name = fn_name(t[1]) or ""
        if funcs and name in funcs:
            args = [evaluate(a, env, globals_, funcs) for a in t[2]]
            return funcs[name](*args)
        if name in ("typing.cast",) and len(t[2]) == 2:
            return evaluate(t[2][1], env, globals_, funcs)
        if name in ("bool", "int") and len(t[2]) == 1:
            return {"bool": bool, "int": int}[name](evaluate(t[2][0], env, globals_, funcs))
        raise Unmodelled(t)
    raise Unmodelled(t)
