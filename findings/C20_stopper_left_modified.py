"""
C20 -- optim_flat rewrites the caller's Stopper and restores it only after the loop.

Without a validation model optim_flat sets ``stopper.patience = stopper.max_iter`` on the
object the caller passed in and writes the original patience back only after the
while-loop. Anything that raises in between (input validation, a tracing error, Ctrl-C)
leaves the caller's Stopper with patience == max_iter; a later call that re-uses the
Stopper *with* a validation model then never stops early although the documented rule
fires.

Exit status 0 = the caller's Stopper is unchanged after a failed call, 1 = it was left
modified.
"""
import sys

import jax.numpy as jnp
import tensorflow_probability.substrates.jax.distributions as tfd

import liesel.goose as gs
import liesel.model as lsl


def model(seed_shift=0.0, broken=False):
    mu = lsl.param(0.0, lsl.Dist(tfd.Normal, loc=0.0, scale=10.0), name="mu")
    y = lsl.obs(jnp.linspace(-1.0, 1.0, 20) + seed_shift,
                lsl.Dist(tfd.Normal, loc=mu, scale=1.0), name="y")
    gb = lsl.GraphBuilder().add(y)
    if broken:
        # a user-supplied log_prob node that is not log_lik + log_prior: optim_flat
        # refuses such a model with a ValueError -- after it already rewrote the stopper
        gb.log_prob_node = lsl.Calc(lambda m: -m ** 2, mu)
    return gb.build_model()


def main():
    stopper = gs.Stopper(max_iter=500, patience=7)
    try:
        gs.optim_flat(model(broken=True), ["mu"], stopper=stopper)
    except Exception as e:  # noqa: BLE001
        print("first call raised:", type(e).__name__)
    print("patience configured by the caller: 7; patience now:", stopper.patience)
    if stopper.patience != 7:
        print("FAIL: the caller's Stopper was left modified by the failed call")
        return 1
    print("PASS")
    return 0


if __name__ == "__main__":
    sys.exit(main())
