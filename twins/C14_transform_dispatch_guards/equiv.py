"""
Deterministic exerciser of the variable-transformation code paths:

- Var.transform with a bijector instance, a bijector class with (constant or
  model-dependent) arguments, and the distribution's default bijector,
- auto-transform in GraphBuilder.build_model,
- the deprecated GraphBuilder.transform / _transform_back,
- all guard clauses / error paths of these entry points.

Prints one line per observation. Floats are printed as hex so that the digest
is sensitive to single-bit differences. Run from the worktree root with
PYTHONPATH pointing at the worktree.
"""

from __future__ import annotations

import hashlib
import logging
import warnings

import jax
import jax.numpy as jnp
import numpy as np
import tensorflow_probability.substrates.jax.bijectors as jb
import tensorflow_probability.substrates.jax.distributions as jd
import tensorflow_probability.substrates.numpy.bijectors as nb
import tensorflow_probability.substrates.numpy.distributions as nd

import liesel.model.model as lmodel
import liesel.model.nodes as lnodes

logging.getLogger("liesel").setLevel(logging.ERROR)

LINES: list[str] = []


def emit(*parts) -> None:
    line = " | ".join(str(p) for p in parts)
    LINES.append(line)
    print(line)


def fx(x) -> str:
    """Bit-exact rendering of numbers / arrays / anything else."""
    if x is None:
        return "None"
    if isinstance(x, bool | str):
        return repr(x)
    try:
        arr = np.asarray(x)
    except Exception:
        return repr(x)
    if arr.dtype == object:
        return repr(x)
    flat = arr.ravel().tolist()
    if arr.dtype.kind == "f":
        body = ",".join(float(v).hex() for v in flat)
    else:
        body = ",".join(repr(v) for v in flat)
    return f"{arr.dtype}{list(arr.shape)}[{body}]"


def exc(fn):
    """Runs fn, returns a description of result or of the exception."""
    with warnings.catch_warnings(record=True) as w:
        warnings.simplefilter("always")
        try:
            res = fn()
            out = ("ok", res)
        except Exception as e:  # noqa: BLE001
            out = ("raise", f"{type(e).__name__}: {e}")
    ws = [f"{x.category.__name__}: {x.message}" for x in w]
    return out[0], out[1], ws


def describe_node(node) -> str:
    ins = [i.name for i in node.inputs]
    kwins = {k: v.name for k, v in node.kwinputs.items()}
    extra = ""
    if isinstance(node, lnodes.Dist):
        extra = f" per_obs={node.per_obs} at={node.at.name if node.at else None}"
    return (
        f"{type(node).__name__}(name={node.name!r} in={ins} kw={kwins} "
        f"seed={node.needs_seed}{extra})"
    )


def describe_var(tag: str, var) -> None:
    emit(
        tag,
        f"name={var.name!r}",
        f"weak={var.weak}",
        f"param={var.parameter}",
        f"obs={var.observed}",
        f"auto={var.auto_transform}",
        f"role={var.role!r}",
        f"has_dist={var.has_dist}",
        f"dist_none={var.dist_node is None}",
        f"value_node={describe_node(var.value_node)}",
        f"dist={describe_node(var._dist_node)}",
    )


def check_pair(tag: str, var, tvar, new_points) -> None:
    """Observes var/tvar after a transformation and after assigning new values."""
    describe_var(tag + ":orig", var)
    describe_var(tag + ":new", tvar)
    tvar.update()
    var.update()
    emit(tag, "value", fx(var.value), "tvalue", fx(tvar.value))
    emit(tag, "log_prob", fx(var.log_prob), "tlog_prob", fx(tvar.log_prob))
    emit(
        tag,
        "inputs",
        [v.name for v in var.all_input_vars()],
        [n.name for n in var.all_input_nodes()],
        [n.name for n in tvar.all_input_nodes()],
    )
    model = lmodel.Model([var])
    emit(tag, "model.vars", sorted(model.vars), "nodes", sorted(model.nodes))
    emit(
        tag,
        "model.log_prob",
        fx(model.log_prob),
        fx(model.log_prior),
        fx(model.log_lik),
    )
    for t in new_points:
        tvar.value = t
        model.update()
        emit(
            tag,
            f"at t={fx(t)}",
            "value",
            fx(var.value),
            "tlog_prob",
            fx(tvar.log_prob),
            "model",
            fx(model.log_prob),
        )
    dist = tvar.dist_node.init_dist()
    emit(
        tag,
        "dist",
        type(dist).__name__,
        type(dist.bijector).__name__,
        type(dist.bijector.bijector).__name__,
        type(dist.distribution).__name__,
        "validate_args",
        dist.validate_args,
        "fn",
        getattr(tvar.dist_node.distribution, "__name__", "?"),
        getattr(var.value_node.function, "__name__", "?"),
    )
    model.pop_nodes_and_vars()


# --------------------------------------------------------------------------------------
# fixtures
# --------------------------------------------------------------------------------------

POINTS = [-2.5, -0.3, 0.0, 0.7, 3.1]
VPOINTS = [jnp.array([-1.0, 0.0, 2.0]), jnp.array([0.25, -3.0, 1.5])]


def make_halfcauchy(name="tau", param=True, value=10.0):
    prior = lnodes.Dist(jd.HalfCauchy, loc=0.0, scale=25.0)
    var = lnodes.Var(value, prior, name=name)
    var.parameter = param
    return var


def make_invgamma_vars(name="s2"):
    a = lnodes.Var(2.0, name=name + "_a")
    b = lnodes.Var(0.5, name=name + "_b")
    prior = lnodes.Dist(jd.InverseGamma, a, scale=b)
    var = lnodes.Var(jnp.array([0.5, 1.0, 4.0]), prior, name=name)
    var.parameter = True
    return var


def make_beta(name="p"):
    prior = lnodes.Dist(jd.Beta, 2.0, 3.0)
    var = lnodes.Var(0.3, prior, name=name)
    return var


def make_exponential(name=""):
    d_true = lnodes.Value(True, "true" if not name else name + "_true")
    dist = lnodes.Dist(jd.Exponential, 0.5, validate_args=d_true)
    var = lnodes.Var(jnp.array((0.1, 1.0, 2.0)), dist, name=name)
    var.parameter = True
    return var


def make_normal(name="x"):
    loc = lnodes.Var(0.5, name=name + "_loc")
    dist = lnodes.Dist(jd.Normal, loc=loc, scale=2.0)
    var = lnodes.Var(1.25, dist, name=name)
    var.observed = True
    return var


# --------------------------------------------------------------------------------------
# Var.transform
# --------------------------------------------------------------------------------------


def var_transform_cases() -> None:
    # instance
    for i, (mk, bij) in enumerate(
        [
            (make_halfcauchy, jb.Exp()),
            (make_halfcauchy, jb.Softplus(hinge_softness=0.7)),
            (make_beta, jb.Sigmoid()),
            (make_normal, jb.Scale(3.0)),
            (make_normal, jb.Chain([jb.Shift(1.0), jb.Scale(-2.0)])),
            (make_halfcauchy, jb.Power(2.0)),
        ]
    ):
        var = mk()
        tvar = var.transform(bij)
        check_pair(f"VT-inst-{i}", var, tvar, POINTS)

    var = make_invgamma_vars()
    var.dist_node.per_obs = False
    tvar = var.transform(jb.Exp())
    check_pair("VT-inst-vec", var, tvar, VPOINTS)

    var = make_exponential("e")
    tvar = var.transform(jb.Softplus())
    check_pair("VT-inst-kwvalidate", var, tvar, VPOINTS)

    # seeded dist node flag travels along
    prior = lnodes.Dist(jd.HalfCauchy, loc=0.0, scale=25.0, _needs_seed=False)
    prior.needs_seed = True
    var = lnodes.Var(2.0, prior, name="seeded")
    tvar = var.transform(jb.Exp())
    describe_var("VT-inst-seed:new", tvar)

    # class with arguments
    var = make_halfcauchy()
    tvar = var.transform(jb.Softplus, hinge_softness=lnodes.Var(0.9, name="hinge"))
    check_pair("VT-cls-varkw", var, tvar, POINTS)

    var = make_halfcauchy(param=False)
    tvar = var.transform(jb.Softplus, 0.9)
    check_pair("VT-cls-constpos", var, tvar, POINTS)

    var = make_normal()
    shift = lnodes.Var(1.5, name="shift")
    tvar = var.transform(jb.Shift, shift)
    check_pair("VT-cls-shift", var, tvar, POINTS)
    shift.value = -4.0
    tvar.update()
    var.update()
    emit("VT-cls-shift after shift change", fx(var.value), fx(tvar.log_prob))

    var = make_invgamma_vars()
    var.dist_node.per_obs = False
    tvar = var.transform(jb.Scale, scale=lnodes.Var(2.0, name="sc"))
    check_pair("VT-cls-vec", var, tvar, VPOINTS)

    var = make_exponential("e2")
    tvar = var.transform(jb.Softplus, hinge_softness=1.0)
    check_pair("VT-cls-kwvalidate", var, tvar, VPOINTS)

    # default
    for i, mk in enumerate(
        [make_halfcauchy, make_invgamma_vars, make_beta, make_normal, make_exponential]
    ):
        var = mk()
        tvar = var.transform()
        check_pair(f"VT-default-{i}", var, tvar, VPOINTS if i in (1, 4) else POINTS)

    var = make_halfcauchy()
    tvar = var.transform(None)
    check_pair("VT-default-None", var, tvar, POINTS)

    # default with explicit bijector arguments (passed to the default bijector fn)
    var = make_halfcauchy()
    kind, res, ws = exc(lambda: var.transform(None, 1.0))
    emit("VT-default-args", kind, res if kind == "raise" else res.name, ws)
    describe_var("VT-default-args:orig", var)

    # dependent parameters: change the parameter and observe
    var = make_invgamma_vars("q")
    a = var.dist_node.inputs[0].var
    tvar = var.transform()
    model = lmodel.Model([var])
    emit("VT-dep", fx(model.log_prob), fx(var.value))
    a.value = 3.5
    model.update()
    emit("VT-dep a=3.5", fx(model.log_prob), fx(var.value), fx(tvar.log_prob))

    # transform twice: the new variable can be transformed again
    var = make_halfcauchy()
    t1 = var.transform(jb.Exp())
    t2 = t1.transform(jb.Scale(2.0))
    check_pair("VT-twice", t1, t2, POINTS)
    var.update()
    emit("VT-twice outer", fx(var.value))
    kind, res, ws = exc(lambda: var.transform(jb.Exp()))
    emit("VT-twice same var", kind, res, ws)


def var_transform_errors() -> None:
    # weak
    weak = lnodes.Var(lnodes.Calc(lambda x: x + 1.0, 1.0), lnodes.Dist(jd.Normal, 0.0, 1.0))
    weak.auto_transform = True
    emit("VE-weak", *exc(lambda: weak.transform(jb.Exp())), weak.auto_transform)

    # no dist
    nodist = lnodes.Var(1.0, name="nodist")
    nodist.auto_transform = True
    emit("VE-nodist", *exc(lambda: nodist.transform(jb.Exp())), nodist.auto_transform)
    emit("VE-nodist-none", *exc(lambda: nodist.transform()), nodist.auto_transform)

    # class without args
    var = make_halfcauchy()
    var.auto_transform = True
    emit("VE-cls-noargs", *exc(lambda: var.transform(jb.Exp)), var.auto_transform)
    describe_var("VE-cls-noargs:after", var)

    # instance with args
    var = make_halfcauchy()
    var.auto_transform = True
    emit("VE-inst-args", *exc(lambda: var.transform(jb.Exp(), 1.0)), var.auto_transform)
    emit(
        "VE-inst-kwargs",
        *exc(lambda: var.transform(jb.Exp(), validate_args=True)),
        var.auto_transform,
    )
    describe_var("VE-inst-args:after", var)

    # invalid types
    for bad in ["exp", 3, jnp.exp, nb.Exp(), nb.Exp, int, jd.Normal, (), False, 0]:
        var = make_halfcauchy()
        var.auto_transform = True
        kind, res, ws = exc(lambda: var.transform(bad))
        res = res if kind == "raise" else res.name
        emit(
            "VE-bad",
            type(bad).__name__,
            kind,
            res.replace(repr(bad), "<repr>") if isinstance(res, str) else res,
            ws,
            var.auto_transform,
        )
        describe_var("VE-bad:after", var)
        emit("VE-bad-args", *exc(lambda: var.transform(bad, 1.0))[0:1])

    # distribution without default bijector
    dist = lnodes.Dist(jd.Poisson, 1.0)
    var = lnodes.Var(1.0, dist, name="pois")
    var.auto_transform = True
    kind, res, ws = exc(lambda: var.transform())
    emit("VE-poisson", kind, res if kind == "raise" else res.name, ws)
    describe_var("VE-poisson:after", var)

    # numpy-substrate distribution
    dist = lnodes.Dist(nd.HalfCauchy, loc=0.0, scale=25.0)
    var = lnodes.Var(10.0, dist, name="nptau")
    kind, res, ws = exc(lambda: var.transform())
    emit("VE-numpy-default", kind, res if kind == "raise" else res.name, ws)

    # in a model
    var = make_halfcauchy()
    model = lmodel.Model([var])
    emit("VE-in-model", *exc(lambda: var.transform(jb.Exp())), var.auto_transform)
    emit("VE-in-model-default", *exc(lambda: var.transform()), var.auto_transform)
    emit("VE-in-model-cls", *exc(lambda: var.transform(jb.Softplus, 1.0)))
    describe_var("VE-in-model:after", var)
    del model

    # value outside of the support
    var = make_halfcauchy(value=-1.0)
    tvar = var.transform(jb.Exp())
    emit("VE-outside", fx(tvar.value), fx(tvar.update().log_prob), fx(var.update().value))

    # unnamed var
    var = make_halfcauchy(name="")
    tvar = var.transform(jb.Exp())
    describe_var("VE-unnamed:new", tvar)
    describe_var("VE-unnamed:orig", var)
    var = make_halfcauchy(name="")
    tvar = var.transform()
    describe_var("VE-unnamed-default:new", tvar)
    describe_var("VE-unnamed-default:orig", var)

    # direct calls to the module-level helpers on a var without a distribution
    nodist = lnodes.Var(1.0, name="nodist2")
    emit(
        "VE-helper-inst",
        *exc(lambda: lnodes._transform_var_with_bijector_instance(nodist, jb.Exp())),
    )
    emit(
        "VE-helper-cls",
        *exc(lambda: lnodes._transform_var_with_bijector_class(nodist, jb.Exp, 1.0)),
    )
    emit(
        "VE-helper-cls-none",
        *exc(lambda: lnodes._transform_var_with_bijector_class(nodist, None)),
    )
    var = make_halfcauchy(name="direct")
    tvar = lnodes._transform_var_with_bijector_class(var, None)
    describe_var("VE-helper-direct:new", tvar)
    describe_var("VE-helper-direct:orig", var)
    var = make_halfcauchy(name="direct2")
    tvar = lnodes._transform_var_with_bijector_instance(var, jb.Softplus())
    describe_var("VE-helper-direct2:new", tvar)
    describe_var("VE-helper-direct2:orig", var)

    emit(
        "is_bijector_class",
        [
            lnodes.is_bijector_class(o)
            for o in (jb.Exp, jb.Exp(), None, int, nb.Exp, "x", jb.Bijector)
        ],
    )


# --------------------------------------------------------------------------------------
# auto transform
# --------------------------------------------------------------------------------------


def auto_transform_cases() -> None:
    tau = make_halfcauchy()
    tau.auto_transform = True
    s2 = make_invgamma_vars()
    s2.auto_transform = True
    p = make_beta()
    x = make_normal()
    x.auto_transform = False
    y = lnodes.Var(
        jnp.array([0.1, -0.4, 2.0]),
        lnodes.Dist(jd.Normal, loc=x, scale=tau),
        name="y",
    )
    y.observed = True
    z = lnodes.Var(lnodes.Calc(lambda a, b: a * b, s2, p), name="z")

    gb = lmodel.GraphBuilder().add(y, z)
    model = gb.build_model()
    emit("AT vars", sorted(model.vars))
    emit("AT nodes", sorted(model.nodes))
    emit("AT log_prob", fx(model.log_prob), fx(model.log_prior), fx(model.log_lik))
    for name in sorted(model.vars):
        describe_var("AT:" + name, model.vars[name])
        emit("AT value", name, fx(model.vars[name].value), fx(model.vars[name].log_prob))
    # originals untouched by build (copy)
    describe_var("AT-user:tau", tau)
    describe_var("AT-user:s2", s2)
    emit("AT-user values", fx(tau.value), fx(s2.value))

    state = model.state
    for t in POINTS:
        model.vars["tau_transformed"].value = t
        model.vars["s2_transformed"].value = jnp.array([t, -t, 0.5 * t])
        model.update()
        emit(
            "AT at",
            fx(t),
            fx(model.vars["tau"].value),
            fx(model.vars["s2"].value),
            fx(model.log_prob),
            fx(model.vars["tau_transformed"].log_prob),
            fx(model.vars["s2_transformed"].log_prob),
        )
    model.state = state
    emit("AT restored", fx(model.log_prob))

    # jitted pure evaluation through the state
    def lp(position):
        model.state = state
        for k, v in position.items():
            model.vars[k].value = v
        model.update()
        return model.log_prob

    emit("AT jit", fx(jax.jit(lp)({"tau_transformed": jnp.array(0.3)})))
    model.state = state

    # copy=True build leaves the graph builder intact and can be repeated
    gb = lmodel.GraphBuilder().add(y, z)
    m1 = gb.build_model(copy=True)
    m2 = gb.build_model(copy=True)
    emit("AT copy", sorted(m1.vars) == sorted(m2.vars), fx(m1.log_prob), fx(m2.log_prob))
    emit("AT copy gb", sorted(v.name for v in gb.vars), tau.auto_transform, tau.weak)

    # name clash
    tau2 = make_halfcauchy()
    tau2.auto_transform = True
    clash = lnodes.Var(1.0, name="tau_transformed")
    gb = lmodel.GraphBuilder().add(tau2, clash)
    kind, res, ws = exc(lambda: gb.build_model())
    emit("AT clash var", kind, res if kind == "raise" else sorted(res.vars), ws)
    emit("AT clash var gb", sorted(v.name for v in gb.vars), tau2.auto_transform)

    tau3 = make_halfcauchy()
    tau3.auto_transform = True
    clash_node = lnodes.Value(1.0, _name="tau_transformed")
    gb = lmodel.GraphBuilder().add(tau3, clash_node)
    kind, res, ws = exc(lambda: gb.build_model())
    emit("AT clash node", kind, res if kind == "raise" else sorted(res.nodes), ws)

    # auto transform of a weak var / var without dist / poisson
    w = lnodes.Var(lnodes.Calc(lambda a: a + 1.0, 1.0), name="w")
    w.auto_transform = True
    kind, res, ws = exc(lambda: lmodel.GraphBuilder().add(w).build_model())
    emit("AT weak", kind, res if kind == "raise" else sorted(res.vars), ws)
    nd_ = lnodes.Var(1.0, name="plain")
    nd_.auto_transform = True
    kind, res, ws = exc(lambda: lmodel.GraphBuilder().add(nd_).build_model())
    emit("AT nodist", kind, res if kind == "raise" else sorted(res.vars), ws)
    po = lnodes.Var(1.0, lnodes.Dist(jd.Poisson, 1.0), name="po")
    po.auto_transform = True
    kind, res, ws = exc(lambda: lmodel.GraphBuilder().add(po).build_model())
    emit("AT poisson", kind, res if kind == "raise" else sorted(res.vars), ws)

    # two auto-transformed vars in a chain, order of creation
    a = make_halfcauchy("a")
    a.auto_transform = True
    b = lnodes.Var(2.0, lnodes.Dist(jd.HalfCauchy, loc=0.0, scale=a), name="b")
    b.auto_transform = True
    b.parameter = True
    model = lmodel.GraphBuilder().add(b).build_model()
    emit("AT chain", sorted(model.vars), fx(model.log_prob))
    for name in sorted(model.vars):
        describe_var("AT-chain:" + name, model.vars[name])

    # empty graph builder
    kind, res, ws = exc(lambda: lmodel.GraphBuilder().build_model())
    emit("AT empty", kind, sorted(res.nodes) if kind == "ok" else res, ws)


# --------------------------------------------------------------------------------------
# deprecated GraphBuilder.transform
# --------------------------------------------------------------------------------------


def gb_transform_cases() -> None:
    def gbt(var, *args, gb=None, **kwargs):
        gb = gb if gb is not None else lmodel.GraphBuilder()
        kind, res, ws = exc(lambda: gb.transform(var, *args, **kwargs))
        return kind, res, ws, gb

    cases = [
        ("default", make_halfcauchy, (), {}),
        ("default-exp", make_exponential, (), {}),
        ("default-vec", make_invgamma_vars, (), {}),
        ("default-beta", make_beta, (), {}),
        ("default-normal", make_normal, (), {}),
        ("inst", make_halfcauchy, (jb.Exp(),), {}),
        ("inst-softplus", make_halfcauchy, (jb.Softplus(hinge_softness=0.7),), {}),
        ("cls-noargs", make_halfcauchy, (jb.Exp,), {}),
        ("cls-pos", make_halfcauchy, (jb.Softplus, 0.9), {}),
        (
            "cls-kwvar",
            make_halfcauchy,
            (jb.Softplus,),
            {"hinge_softness": lnodes.Var(0.9, name="hinge_gb")},
        ),
        ("cls-vec", make_invgamma_vars, (jb.Scale,), {"scale": 2.0}),
    ]
    for tag, mk, args, kwargs in cases:
        var = mk()
        kind, res, ws, gb = gbt(var, *args, **kwargs)
        emit(f"GB-{tag}", kind, res if kind == "raise" else res.name, ws)
        emit(
            f"GB-{tag} gb",
            sorted(v.name for v in gb.vars),
            sorted(n.name for n in gb.nodes),
        )
        if kind == "ok":
            pts = VPOINTS if np.ndim(res.value) else POINTS
            check_pair(f"GB-{tag}", var, res, pts)

    # per_obs / needs_seed transfer
    var = make_invgamma_vars("po")
    var.dist_node.per_obs = False
    var.dist_node.needs_seed = True
    kind, res, ws, gb = gbt(var)
    emit("GB-flags", kind, res if kind == "raise" else res.name, ws)
    if kind == "ok":
        describe_var("GB-flags:new", res)

    var = make_invgamma_vars("po2")
    var.dist_node.per_obs = False
    kind, res, ws, gb = gbt(var, jb.Exp())
    emit("GB-flags2", kind, res if kind == "raise" else res.name, ws)
    if kind == "ok":
        check_pair("GB-flags2", var, res, VPOINTS)

    # unnamed var: names are set by the builder
    var = make_halfcauchy(name="")
    kind, res, ws, gb = gbt(var)
    emit("GB-unnamed", kind, res if kind == "raise" else "<var>", ws)
    if kind == "ok":
        emit("GB-unnamed names", bool(var.name), bool(res.name), res.name == var.name + "_transformed")

    # numpy substrate
    dist = lnodes.Dist(nd.HalfCauchy, loc=0.0, scale=25.0)
    var = lnodes.Var(10.0, dist, name="nptau")
    kind, res, ws, gb = gbt(var)
    emit("GB-numpy-default", kind, res if kind == "raise" else res.name, ws)
    if kind == "ok":
        d = res.dist_node.init_dist()
        emit(
            "GB-numpy-default dist",
            isinstance(d, nd.Distribution),
            isinstance(d, jd.Distribution),
            isinstance(d.bijector, nb.Bijector),
            type(d.bijector.bijector).__module__,
        )
        res.update()
        var.update()
        emit("GB-numpy-default values", fx(var.value), fx(res.value), fx(res.log_prob))
        res.value = 0.3
        var.update()
        res.update()
        emit("GB-numpy-default at 0.3", fx(var.value), fx(res.log_prob))

    dist = lnodes.Dist(nd.HalfCauchy, loc=0.0, scale=25.0)
    var = lnodes.Var(10.0, dist, name="nptau2")
    kind, res, ws, gb = gbt(var, nb.Exp())
    emit("GB-numpy-inst", kind, res if kind == "raise" else res.name, ws)
    if kind == "ok":
        res.update()
        var.update()
        emit("GB-numpy-inst values", fx(var.value), fx(res.value), fx(res.log_prob))

    # a "distribution" that is not a TFP distribution
    class Fake:
        validate_args = False

        def __init__(self, loc):
            self.loc = loc

        def experimental_default_event_space_bijector(self):
            return jb.Exp()

        def log_prob(self, x):
            return -x

    var = lnodes.Var(1.0, lnodes.Dist(Fake, 0.0), name="fake")
    var.auto_transform = True
    kind, res, ws, gb = gbt(var)
    emit("GB-fake", kind, res if kind == "raise" else res.name, ws, var.auto_transform)
    emit("GB-fake gb", sorted(v.name for v in gb.vars))
    describe_var("GB-fake:after", var)

    # errors
    weak = lnodes.Var(lnodes.Calc(lambda x: x + 1.0, 1.0), lnodes.Dist(jd.Normal, 0.0, 1.0))
    weak.auto_transform = True
    kind, res, ws, gb = gbt(weak)
    emit("GB-weak", kind, res, ws, weak.auto_transform, len(gb.vars))

    nodist = lnodes.Var(1.0, name="nodist")
    kind, res, ws, gb = gbt(nodist)
    emit("GB-nodist", kind, res, ws, len(gb.vars))

    var = make_halfcauchy()
    var.auto_transform = True
    kind, res, ws, gb = gbt(var, jb.Exp(), 1.0)
    emit("GB-inst-args", kind, res, ws, var.auto_transform, len(gb.vars))
    kind, res, ws, gb = gbt(var, None, 1.0)
    emit("GB-none-args", kind, res, ws, var.auto_transform, len(gb.vars))
    kind, res, ws, gb = gbt(var, "exp")
    emit("GB-str", kind, res if kind == "raise" else res.name, ws, var.auto_transform)

    var = make_halfcauchy()
    gb = lmodel.GraphBuilder()
    gb.add(var.value_node)
    kind, res, ws, gb = gbt(var, gb=gb)
    emit("GB-dup", kind, res, ws, var.auto_transform)

    pois = lnodes.Var(1, lnodes.Dist(jd.Poisson, 1.0), name="pois")
    pois.auto_transform = True
    kind, res, ws, gb = gbt(pois)
    emit("GB-poisson", kind, res, ws, pois.auto_transform, sorted(v.name for v in gb.vars))
    describe_var("GB-poisson:after", pois)

    # var with non-numeric input -> local model cannot be built
    broken = lnodes.Var(
        1.0, lnodes.Dist(jd.Normal, lnodes.Calc(lambda: 1 / 0), 1.0), name="broken"
    )
    kind, res, ws, gb = gbt(broken)
    emit("GB-broken", kind, res, ws, broken.auto_transform, len(gb.vars))

    # already in a model
    var = make_halfcauchy()
    model = lmodel.Model([var])
    kind, res, ws, gb = gbt(var)
    emit("GB-in-model", kind, res, ws)
    del model

    # twice
    var = make_halfcauchy()
    gb = lmodel.GraphBuilder()
    kind, res, ws, gb = gbt(var, gb=gb)
    kind2, res2, ws2, gb = gbt(var, gb=gb)
    emit("GB-twice", kind, kind2, res2, ws2)
    kind3, res3, ws3, gb = gbt(res, jb.Scale(2.0), gb=gb)
    emit("GB-twice-new", kind3, res3 if kind3 == "raise" else res3.name, ws3)
    if kind3 == "ok":
        kind4, model, ws4 = exc(lambda: gb.build_model())
        emit("GB-twice-model", kind4, model if kind4 == "raise" else sorted(model.vars))
        if kind4 == "ok":
            emit("GB-twice-lp", fx(model.log_prob))

    # _transform_back directly
    tb = getattr(lmodel, "_transform_back", None)
    if tb is not None:
        emit("GB-tb-nodist", *exc(lambda: tb(lnodes.Var(1.0, name="tb"))))
        var = make_halfcauchy(name="tb2")
        tvar = var.transform(jb.Exp())
        calc = tb(tvar)
        emit("GB-tb", describe_node(calc), fx(calc.update().value))


def save_load_cases() -> None:
    """Models with transformed variables survive a dill round trip."""
    import io

    def roundtrip(tag, model, tname):
        buf = io.BytesIO()
        kind, res, ws = exc(lambda: lmodel.save_model(model, buf))
        emit(tag, "save", kind, res if kind == "raise" else "", ws)
        if kind != "ok":
            return
        buf.seek(0)
        kind, loaded, ws = exc(lambda: lmodel.load_model(buf))
        emit(tag, "load", kind, loaded if kind == "raise" else sorted(loaded.vars), ws)
        if kind != "ok":
            return
        emit(tag, "lp", fx(model.log_prob), fx(loaded.log_prob))
        loaded.vars[tname].value = 0.3
        loaded.update()
        emit(tag, "lp@0.3", fx(loaded.log_prob), fx(model.log_prob))

    var = make_halfcauchy()
    with warnings.catch_warnings():
        warnings.simplefilter("ignore", FutureWarning)
        gb = lmodel.GraphBuilder()
        gb.transform(var)
    roundtrip("SL-gb-default", gb.build_model(), "tau_transformed")

    var = lnodes.Var(10.0, lnodes.Dist(nd.HalfCauchy, loc=0.0, scale=25.0), name="tau")
    with warnings.catch_warnings():
        warnings.simplefilter("ignore", FutureWarning)
        gb = lmodel.GraphBuilder()
        gb.transform(var, nb.Exp())
    roundtrip("SL-gb-numpy", gb.build_model(), "tau_transformed")

    var = make_halfcauchy()
    var.auto_transform = True
    roundtrip("SL-auto", lmodel.GraphBuilder().add(var).build_model(), "tau_transformed")


def main() -> None:
    var_transform_cases()
    var_transform_errors()
    auto_transform_cases()
    gb_transform_cases()
    save_load_cases()
    digest = hashlib.sha256("\n".join(LINES).encode()).hexdigest()
    print("LINES", len(LINES))
    print("DIGEST", digest)


if __name__ == "__main__":
    main()
