"""
Deterministic behaviour digest for the model cache machinery of liesel
(nodes.py / model.py).  Run with the worktree on PYTHONPATH; prints a log of
everything observable (values bit-exact, outdated flags, call counters,
exception types / messages / causes, log records) and a sha256 of that log.
"""

import hashlib
import io
import logging
import random
import warnings

import jax
import jax.numpy as jnp
import numpy as np
import tensorflow_probability.substrates.jax.distributions as tfd

import liesel.model as lsl
from liesel.model.nodes import (
    ArgGroup,
    InputGroup,
    NodeState,
    NoDist,
    TransientCalc,
    TransientDist,
    TransientIdentity,
    VarValue,
)

warnings.simplefilter("ignore")

LOG: list[str] = []


def out(*parts):
    LOG.append(" ".join(str(p) for p in parts))


class ListHandler(logging.Handler):
    def emit(self, record):
        cause = ""
        if record.exc_info and record.exc_info[1] is not None:
            cause = " exc=" + describe_exc(record.exc_info[1])
        out("LOGREC", record.name, record.levelname, record.getMessage() + cause)


def fmt(v):
    if v is None:
        return "None"
    if isinstance(v, ArgGroup):
        args = ",".join(fmt(a) for a in v.args)
        kwargs = ",".join(f"{k}={fmt(a)}" for k, a in v.kwargs.items())
        return f"ArgGroup([{args}],{{{kwargs}}})"
    if isinstance(v, NodeState):
        return f"NodeState({fmt(v.value)},{v.outdated!r},{fmt(v.extra)})"
    if isinstance(v, (bool, str)):
        return repr(v)
    if isinstance(v, float):
        return "pyfloat:" + v.hex()
    if isinstance(v, int):
        return "pyint:" + str(v)
    if isinstance(v, (list, tuple)):
        return type(v).__name__ + "[" + ",".join(fmt(a) for a in v) + "]"
    if isinstance(v, dict):
        return "{" + ",".join(f"{k}:{fmt(a)}" for k, a in v.items()) + "}"
    try:
        a = np.asarray(v)
        return f"arr:{a.dtype}:{a.shape}:{a.tobytes().hex()}"
    except Exception:
        return "obj:" + type(v).__name__


def describe_exc(e):
    parts = []
    seen = 0
    while e is not None and seen < 5:
        parts.append(f"{type(e).__name__}({str(e)!r})")
        e = e.__cause__
        seen += 1
    return " <- ".join(parts)


def attempt(label, thunk):
    try:
        res = thunk()
        out(label, "OK", fmt(res) if not hasattr(res, "nodes") else "model")
        return res
    except Exception as e:  # noqa: BLE001
        out(label, "EXC", describe_exc(e))
        return None


COUNTS: dict[str, int] = {}


def counted(name, fn):
    COUNTS.setdefault(name, 0)

    def wrapped(*args, **kwargs):
        COUNTS[name] += 1
        return fn(*args, **kwargs)

    wrapped.__name__ = name
    return wrapped


def snapshot(model, label):
    out("SNAP", label, "auto_update=", model.auto_update)
    for name in sorted(model.nodes):
        node = model.nodes[name]
        try:
            val = fmt(node.value)
        except Exception as e:  # noqa: BLE001
            val = "EXC " + describe_exc(e)
        try:
            outd = repr(node.outdated)
        except Exception as e:  # noqa: BLE001
            outd = "EXC " + describe_exc(e)
        out("  ", name, type(node).__name__, "outdated=", outd, "value=", val)
    out("   counts", sorted(COUNTS.items()))


def snapshot_state(model, label):
    try:
        st = model.state
    except Exception as e:  # noqa: BLE001
        out("STATE", label, "EXC", describe_exc(e))
        return None
    out("STATE", label, ";".join(f"{k}={fmt(v)}" for k, v in sorted(st.items())))
    return st


# --------------------------------------------------------------------------------------
# graph shapes
# --------------------------------------------------------------------------------------


def neg_guard(x):
    if float(jnp.sum(x)) < -50.0:
        raise ValueError("sum below -50")
    return x * 1.5


def graph_plain(tag):
    """diamond + chain + transient + input group; plain nodes, no vars."""
    a = lsl.Value(jnp.array([1.0, 2.0]), _name="a")
    b = lsl.Value(jnp.array(0.5), _name="b")
    z = lsl.Value(3.0, _name="z")
    c = lsl.Calc(counted(tag + "c", lambda x, y: x + y), a, b, _name="c")
    t = TransientCalc(counted(tag + "t", lambda x: x * 2.0), c, _name="t")
    d = lsl.Calc(counted(tag + "d", lambda x, w: x - w), t, w=a, _name="d")
    e = lsl.Calc(counted(tag + "e", neg_guard), c, _name="e")
    ig = InputGroup(d, e, k=z, _name="ig")
    h = lsl.Calc(
        counted(
            tag + "h",
            lambda g: sum(jnp.sum(v) for v in g.args) + g.kwargs["k"],
        ),
        ig,
        _name="h",
    )
    ti = TransientIdentity(h, _name="ti")
    lone = lsl.Calc(counted(tag + "lone", lambda q: q * q), z, _name="lone")
    top = lsl.Calc(counted(tag + "top", lambda u, v: u + v), ti, lone, _name="top")
    return [a, b, z, c, t, d, e, ig, h, ti, lone, top], ["a", "b", "z"]


def graph_vars(tag):
    """vars with value proxies, cached and transient dists, per_obs switch."""
    mu = lsl.param(
        jnp.array(0.25),
        lsl.Dist(tfd.Normal, loc=0.0, scale=10.0),
        name="mu",
    )
    log_sigma = lsl.param(jnp.array(0.1), name="log_sigma")
    sigma = lsl.Var(
        lsl.Calc(counted(tag + "sigma", jnp.exp), log_sigma), name="sigma"
    )
    x = lsl.obs(jnp.array([0.5, -1.0, 2.0]), name="x")
    beta = lsl.param(
        jnp.array(1.5), lsl.Dist(tfd.Normal, loc=mu, scale=sigma), name="beta"
    )
    loc = lsl.Var(
        lsl.Calc(counted(tag + "loc", lambda m, xx, bb: m + xx * bb), mu, x, beta),
        name="loc",
    )
    ydist = lsl.Dist(tfd.Normal, loc=loc, scale=sigma)
    ydist.per_obs = False
    y = lsl.obs(jnp.array([0.1, 0.2, 0.3]), ydist, name="y")
    tdist = TransientDist(tfd.Normal, loc, scale=sigma, _name="tdist")
    tdist.at = y.var_value_node
    extra = lsl.Calc(
        counted(tag + "extra", lambda lp, s: jnp.sum(lp) * s), tdist, sigma,
        _name="extra",
    )
    return [mu, log_sigma, sigma, x, beta, loc, y, tdist, extra], [
        "mu_value",
        "log_sigma_value",
        "x_value",
        "beta_value",
        "y_value",
    ]


def graph_wide(tag, width=4, depth=3):
    """layered graph: each layer node depends on two nodes of the previous layer."""
    layer = [lsl.Value(jnp.array(float(i + 1)), _name=f"v{i}") for i in range(width)]
    inputs = [n.name for n in layer]
    nodes = list(layer)
    for dd in range(depth):
        new = []
        for i in range(width):
            l, r = layer[i], layer[(i + 1 + dd) % width]
            name = f"n{dd}_{i}"
            if (i + dd) % 3 == 0:
                node = TransientCalc(
                    counted(tag + name, lambda p, q: p * 0.5 + q), l, r, _name=name
                )
            else:
                node = lsl.Calc(
                    counted(tag + name, lambda p, q: p - q * 0.25), l, q=r, _name=name
                )
            new.append(node)
        nodes.extend(new)
        layer = new
    return nodes, inputs


# --------------------------------------------------------------------------------------
# random histories
# --------------------------------------------------------------------------------------


def run_history(tag, make_graph, build, seed, steps):
    COUNTS.clear()
    out("=" * 20, "HISTORY", tag, "seed", seed)
    rng = random.Random(seed)
    nodes, inputs = make_graph(tag)
    model = build(nodes)
    if model is None:
        return
    names = sorted(model.nodes)
    snapshot(model, "built")
    saved = [model.state]

    for step in range(steps):
        op = rng.choice(
            ["assign", "assign", "assign", "toggle", "full", "target", "target",
             "save", "restore", "badtarget", "assign_var", "flag"]
        )
        label = f"{tag}#{step}:{op}"
        if op == "assign":
            name = rng.choice(inputs)
            old = model.nodes[name].value
            scale = rng.choice([-40.0, -1.0, 0.5, 2.0, 3.25])
            new = jnp.asarray(old) * scale + rng.choice([0.0, 0.125, -0.75])

            def do(name=name, new=new):
                model.nodes[name].value = new

            attempt(label + ":" + name, do)
        elif op == "assign_var":
            strong = sorted(v for v in model.vars if model.vars[v].strong)
            weak = sorted(v for v in model.vars if model.vars[v].weak)
            pool = strong + weak[:1]
            if not pool:
                out(label, "novars")
            else:
                vname = rng.choice(pool)

                def do(vname=vname):
                    var = model.vars[vname]
                    var.value = jnp.asarray(var.value) * 0.5 + 0.25

                attempt(label + ":" + vname, do)
        elif op == "toggle":
            model.auto_update = not model.auto_update
            out(label, model.auto_update)
        elif op == "full":
            attempt(label, lambda: model.update() is model)
        elif op == "target":
            k = rng.choice([1, 1, 2, 3])
            targets = [rng.choice(names) for _ in range(k)]
            attempt(
                label + ":" + ",".join(targets),
                lambda targets=targets: model.update(*targets) is model,
            )
        elif op == "badtarget":
            targets = [rng.choice(names), "does_not_exist", rng.choice(names)]
            rng.shuffle(targets)
            attempt(
                label + ":" + ",".join(targets),
                lambda targets=targets: model.update(*targets) is model,
            )
        elif op == "save":
            st = snapshot_state(model, label)
            if st is not None:
                saved.append(st)
        elif op == "restore":
            st = rng.choice(saved)
            if rng.random() < 0.3:
                keys = sorted(st)
                rng.shuffle(keys)
                st = {k: st[k] for k in keys[: max(1, len(keys) // 2)]}

            def do(st=st):
                model.state = st

            attempt(label, do)
        elif op == "flag":
            name = rng.choice(names)
            attempt(
                label + ":" + name,
                lambda name=name: repr(model.nodes[name].flag_outdated()),
            )
        snapshot(model, label)

    model.auto_update = True
    attempt(tag + ":final-full", lambda: model.update() is model)
    snapshot(model, "final")
    out("log_prob", tag, attempt("lp", lambda: model.log_prob))
    out("log_lik", tag, attempt("ll", lambda: model.log_lik))
    out("log_prior", tag, attempt("lpr", lambda: model.log_prior))
    return model


def build_gb(nodes):
    return attempt("build_gb", lambda: lsl.GraphBuilder().add(*nodes).build_model())


def build_direct(nodes):
    return attempt("build_direct", lambda: lsl.Model(nodes))


def build_nogrow(nodes):
    return attempt("build_nogrow", lambda: lsl.Model(nodes, grow=False))


# --------------------------------------------------------------------------------------
# one-off boundary cases
# --------------------------------------------------------------------------------------


def boundary_cases():
    out("=" * 20, "BOUNDARY")
    COUNTS.clear()

    # nodes outside of a model
    v = lsl.Value(2.0, _name="v")
    c = lsl.Calc(counted("oc", lambda x: x + 1.0), v, _name="c")
    out("outside calc", fmt(c.value), c.outdated, v.outdated, fmt(c.state))
    attempt("outside flag_outdated", lambda: c.flag_outdated())
    attempt("outside outputs", lambda: c.outputs)
    attempt("outside all_output_nodes", lambda: c.all_output_nodes())
    v.value = 5.0
    out("outside after assign", fmt(c.value), fmt(c.update().value), COUNTS["oc"])
    tc = TransientCalc(counted("otc", lambda x, k=0.0: x * 3.0 + k), v, k=c, _name="tc")
    out("outside transient", fmt(tc.value), tc.outdated, fmt(tc.state), COUNTS["otc"])
    out("transient update", tc.update() is tc, fmt(tc._value), tc._outdated)
    ig = InputGroup(v, c, kw=tc)
    out("outside inputgroup", fmt(ig.value), ig.outdated, fmt(ig.state))
    out("inputgroup fresh objects", ig.value.args is ig.value.args)
    out("all_input_nodes", [n.name for n in ig.all_input_nodes()])

    # failing functions: at init (logged), on update (wrapped), via transient input
    def boom(x):
        raise KeyError("boom " + str(float(x)))

    bad = lsl.Calc(boom, v, _name="bad")
    out("bad after init", fmt(bad._value), bad._outdated)
    attempt("bad.update", bad.update)
    out("bad after update", fmt(bad._value), bad._outdated)
    quiet = lsl.Calc(boom, v, _name="quiet", update_on_init=False)
    out("quiet", fmt(quiet._value), quiet._outdated)
    tbad = TransientCalc(boom, v, _name="tbad")
    attempt("tbad.value", lambda: tbad.value)
    over = lsl.Calc(lambda x: x, tbad, _name="over", update_on_init=False)
    attempt("over.update (input raises, not wrapped twice)", over.update)
    kwover = lsl.Calc(lambda x=None: x, x=tbad, _name="kwover", update_on_init=False)
    attempt("kwover.update", kwover.update)
    igbad = InputGroup(tbad)
    attempt("igbad.value", lambda: igbad.value)
    prev = lsl.Calc(lambda x: x * 2.0, v, _name="prev")
    out("prev", fmt(prev.value))
    prev._function = boom
    attempt("prev.update failing keeps value", prev.update)
    out("prev after", fmt(prev._value), prev._outdated)

    # distributions
    d = lsl.Dist(tfd.Normal, loc=0.0, scale=1.0, _name="d")
    out("dist inputs no at", [type(n).__name__ for n in d.all_input_nodes()])
    attempt("dist.update no at", d.update)
    td = TransientDist(tfd.Normal, 0.0, scale=2.0, _name="td")
    attempt("tdist.value no at", lambda: td.value)
    at = lsl.Value(jnp.array([0.0, 1.0, -2.0]), _name="at")
    d.at = at
    td.at = at
    out("dist inputs with at", [n.name for n in d.all_input_nodes()])
    d.at = d.kwinputs["loc"]
    out("dist at is input", len(d.all_input_nodes()))
    d.at = at
    out("dist per_obs", fmt(d.update().value), d._outdated, fmt(d.log_prob))
    out("tdist per_obs", fmt(td.value), fmt(td.log_prob), fmt(td.state))
    d.per_obs = False
    td.per_obs = False
    out("dist summed", fmt(d.update().value), fmt(td.value))
    out("init_dist", type(d.init_dist()).__name__, fmt(d.init_dist().mean()))

    class NoSum:
        def log_prob(self, x):
            return 1.25

    ns = lsl.Dist(lambda: NoSum(), _name="ns")
    ns.at = at
    ns.per_obs = False
    out("dist without sum", fmt(ns.update().value))
    tns = TransientDist(lambda: NoSum(), _name="tns")
    tns.at = at
    tns.per_obs = False
    out("tdist without sum", fmt(tns.value))

    def bad_dist(loc):
        raise ValueError("no dist for " + str(loc))

    bd = lsl.Dist(bad_dist, 1.0, _name="bd")
    bd.at = at
    attempt("bad dist update", bd.update)
    out("bad dist after", fmt(bd._value), bd._outdated)
    nd = NoDist()
    out("nodist", nd.all_input_nodes(), fmt(nd.value), nd.update() is nd, nd.outdated)

    # var outside model
    p = lsl.param(jnp.array(0.3), lsl.Dist(tfd.Normal, loc=0.0, scale=1.0), name="p")
    out("var before update", fmt(p.log_prob))
    out("var update", p.update() is p, fmt(p.log_prob), fmt(p.value))
    w = lsl.Var(lsl.Calc(lambda q: q + 1.0, p), name="w")
    attempt("weak assign", lambda: setattr(w, "value", 1.0))
    out("var value node", type(p.var_value_node).__name__,
        isinstance(p.var_value_node, VarValue), fmt(p.var_value_node.value))

    # model-level
    nodes, inputs = graph_plain("B")
    model = lsl.GraphBuilder().add(*nodes).build_model()
    attempt("second model with same nodes", lambda: lsl.Model(nodes, grow=False))
    snapshot(model, "after rejected build")
    attempt("update unknown only", lambda: model.update("nope"))
    attempt("set_inputs in model", lambda: model.nodes["c"].set_inputs())
    attempt("function set in model",
            lambda: setattr(model.nodes["c"], "function", abs))
    model.auto_update = False
    model.nodes["a"].value = jnp.array([10.0, 20.0])
    snapshot(model, "assigned a, no auto")
    model.update("lone")
    snapshot(model, "targeted sibling lone")
    model.update("ig")
    snapshot(model, "targeted transient ig")
    model.update("ti", "e")
    snapshot(model, "targeted ti,e")
    model.update()
    snapshot(model, "full")
    before = dict(COUNTS)
    model.update()
    model.update("top")
    out("no recompute", before == COUNTS)
    model.auto_update = True
    attempt("assign triggers guard",
            lambda: setattr(model.nodes["a"], "value", jnp.array([-100.0, -100.0])))
    snapshot(model, "after failing sweep")
    attempt("full update still failing", lambda: model.update())
    attempt("targeted update avoiding failing node", lambda: model.update("d") is model)
    snapshot(model, "after targeted d")
    attempt("repair", lambda: setattr(model.nodes["a"], "value", jnp.array([1.0, 1.0])))
    snapshot(model, "repaired")

    st = model.state
    model.nodes["b"].value = jnp.array(9.0)
    model.state = st
    snapshot(model, "restored")
    cm = model._copy_computational_model()
    snapshot(cm, "computational copy")
    snapshot(model, "original after copy")

    buf = io.BytesIO()
    try:
        pw = lsl.Var(lsl.Calc(lambda q: q * 3.0, lsl.Var(1.0, name="pv")), name="pw")
        lsl.save_model(lsl.GraphBuilder().add(pw).build_model(), buf)
        buf.seek(0)
        pm = lsl.load_model(buf)
        pm.auto_update = False
        pm.nodes["pv_value"].value = 2.0
        snapshot(pm, "unpickled, assigned")
        pm.update("pw_value")
        snapshot(pm, "unpickled, targeted")
    except Exception as e:  # noqa: BLE001
        out("pickle EXC", describe_exc(e))

    cn, cv = model.copy_nodes_and_vars()
    out("copied", sorted(cn), sorted(cv), [n.outdated for n in cn.values()])
    pn, pv = model.pop_nodes_and_vars()
    out("popped", sorted(pn), sorted(pv), [n.outdated for n in pn.values()])
    attempt("value assign after pop",
            lambda: setattr(pn["a"], "value", jnp.array([2.0, 2.0])))
    out("after pop", fmt(pn["c"].value), fmt(pn["c"].update().value))
    m2 = lsl.Model(list(pn.values()))
    snapshot(m2, "rebuilt")
    m3 = lsl.Model(list(m2.nodes.values()), grow=False, copy=True)
    m3.nodes["a"].value = jnp.array([7.0, 7.0])
    snapshot(m3, "copy=True model")
    snapshot(m2, "source of copy untouched")

    attempt("dup names", lambda: lsl.Model(
        [lsl.Value(1.0, _name="q"), lsl.Value(2.0, _name="q")], grow=False))
    attempt("dup var names", lambda: lsl.Model(
        [lsl.Var(1.0, name="q"), lsl.Var(2.0, name="q")]))

    # simulate / seeds
    COUNTS.clear()
    nodes, inputs = graph_vars("S")
    sm = lsl.GraphBuilder().add(*nodes).build_model()
    snapshot(sm, "sim built")
    sm.auto_update = False
    attempt("simulate", lambda: sm.simulate(jax.random.PRNGKey(3)) is sm)
    snapshot(sm, "sim after (auto off)")
    sm.update()
    snapshot(sm, "sim full")
    sm.auto_update = True
    attempt("simulate skip", lambda: sm.simulate(jax.random.PRNGKey(4), skip=["y"]) is sm)
    snapshot(sm, "sim skip")
    attempt("set_seed", lambda: sm.set_seed(jax.random.PRNGKey(5)) is sm)
    snapshot(sm, "after set_seed")
    out("graphs", sorted((u.name, w.name) for u, w in sm.node_graph.edges),
        sorted((u.name, w.name) for u, w in sm.var_graph.edges),
        sorted((u.name, w.name) for u, w in sm._simulation_graph.edges))
    out("sorted", [n.name for n in sm._sorted_nodes])
    out("recursive", [n.name for n in recursive_inputs(sm, "y_log_prob")])
    out("recursive", [n.name for n in recursive_inputs(sm, "extra")])
    out("recursive", [n.name for n in recursive_inputs(sm, "mu_value")])


def extra_cases():
    """Plain dist nodes in a model (simulation graph direction), repeated targets."""
    out("=" * 20, "EXTRA")
    COUNTS.clear()
    loc = lsl.Value(jnp.array(0.5), _name="loc")
    scale = lsl.Value(jnp.array(2.0), _name="scale")
    at = lsl.Value(jnp.array([0.0, 1.0]), _name="at")
    d1 = lsl.Dist(tfd.Normal, loc, scale=scale, _name="d1")
    d1.at = at
    d2 = lsl.Dist(tfd.Normal, loc=loc, scale=scale, _name="d2")
    d2.at = loc  # evaluation point is also a parameter input
    td = TransientDist(tfd.Normal, loc=at, scale=scale, _name="td")
    td.at = at
    s = lsl.Calc(counted("Xs", lambda p, q, r: jnp.sum(p) + q + jnp.sum(r)), d1, d2, td,
                 _name="s")
    model = lsl.Model([loc, scale, at, d1, d2, td, s], grow=False)
    out("node edges", [(u.name, w.name) for u, w in model.node_graph.edges])
    out("sim edges", [(u.name, w.name) for u, w in model._simulation_graph.edges])
    out("sorted", [n.name for n in model._sorted_nodes])
    out("sim sorted", [n.name for n in model._simulation_nodes])
    for name in sorted(model.nodes):
        out("recursive", name, [n.name for n in recursive_inputs(model, name)])
    snapshot(model, "extra built")
    model.auto_update = False
    model.nodes["at"].value = jnp.array([3.0, -1.0])
    model.nodes["loc"].value = jnp.array(-0.25)
    snapshot(model, "extra assigned")
    attempt("repeat targets", lambda: model.update("d1", "d1", "at") is model)
    snapshot(model, "extra d1,d1,at")
    attempt("bad then good", lambda: model.update("zz", "s"))
    snapshot(model, "extra after KeyError (nothing updated)")
    attempt("good then bad", lambda: model.update("s", "zz"))
    snapshot(model, "extra after KeyError 2 (nothing updated)")
    attempt("value node target", lambda: model.update("scale") is model)
    snapshot(model, "extra scale")
    attempt("top target", lambda: model.update("s") is model)
    snapshot(model, "extra s")
    attempt("simulate unattached dists", lambda: model.simulate(jax.random.PRNGKey(1)))
    snapshot(model, "extra simulate")
    lonely = lsl.Model([lsl.Value(1.0, _name="only")], grow=False)
    attempt("single node", lambda: lonely.update("only") is lonely)
    lonely.nodes["only"].value = 2.0
    snapshot(lonely, "lonely")
    empty = lsl.Model([], grow=False)
    attempt("empty full", lambda: empty.update() is empty)
    attempt("empty target", lambda: empty.update("x"))


def recursive_inputs(model, name):
    """The private traversal helper, wherever it lives (method or module level)."""
    import liesel.model.model as mm

    if hasattr(model, "_recursive_inputs"):
        return model._recursive_inputs(name)
    return mm._recursive_inputs(model._nodes, name)


def main():
    handler = ListHandler()
    logging.getLogger("liesel").addHandler(handler)
    logging.getLogger("liesel").setLevel(logging.DEBUG)
    logging.getLogger("liesel").propagate = False

    boundary_cases()
    extra_cases()
    hist = 0
    for seed in range(6):
        run_history(f"P{seed}", graph_plain, build_gb, 100 + seed, 45)
        hist += 1
    for seed in range(5):
        run_history(f"V{seed}", graph_vars, build_gb, 200 + seed, 45)
        hist += 1
    for seed in range(3):
        run_history(f"W{seed}", graph_wide, build_direct, 300 + seed, 40)
        hist += 1
    run_history("N0", graph_wide, build_nogrow, 400, 30)
    run_history("N1", graph_plain, build_nogrow, 401, 30)

    text = "\n".join(LOG)
    print(text)
    print("LINES", len(LOG))
    print("DIGEST", hashlib.sha256(text.encode()).hexdigest())


if __name__ == "__main__":
    main()
