"""
C08 -- recorded chains hold exactly the per-iteration states, thinned as configured.
"""

from __future__ import annotations

import ast

from ..core.terms import (cmp_, not_, pc, phi_, c, evaluate, fn_name, kw, make_inliner, n, pretty, subterms)
from ..domains import concrete
from .common import LIB_FACTS, is_call, method, short

SELF = n("self")
ENGINE = "liesel.goose.engine.Engine"
ETYPE = "liesel.goose.epoch.EpochType"


def _np(name):
    return ("g", "numpy." + name)


def check(ctx):
    repo = ctx.repo
    ctx.rule("R1", "every recorded position / info / kernel state / quantity is taken from "
                   "the kernel-sequence output of the same iteration (after all kernels).")
    ctx.rule("R2", "thinning keeps exactly the states whose within-epoch number is a "
                   "multiple of the thinning; the state counter starts so that the first "
                   "state has number 1 and advances by the chunk size on every path.")
    ctx.rule("R3", "positions and generated quantities are thinned, transition infos and "
                   "kernel states are not; every chunk is appended.")
    ctx.rule("R4", "the initial-values epoch records the extracted initial position with a "
                   "time axis of length 1; all chain managers advance with every epoch.")
    ctx.rule("R5", "posterior accessors select exactly the POSTERIOR epochs in order; "
                   "included / excluded position keys are respected (no fallback on an "
                   "explicitly empty selection).")
    ctx.trust(LIB_FACTS["scan"], LIB_FACTS["vmap"])
    ctx.undecided("independence of the stored values from the JIT chunking (value-level)",
                  "shapes of stored leaves")

    eng = repo.cls(ENGINE)
    # ------------------------------------------------------------------ R1
    sm = method(repo, eng, "_sample_many")
    scan_f = sm.nested("scan_f")
    rs = evaluate(repo, scan_f)
    carry = n(scan_f.params()[0])
    rt = rs.ret()
    ksf = ("a", SELF, "_kernel_sequence")
    trans = [t for t, _, _ in rs.calls if t[1] == ("a", ksf, "transition")]
    ok = len(trans) == 1 and rt is not None and rt[0] == "tuple" and len(rt[1]) == 2 \
        and rt[1][1][0] == "tuple" and len(rt[1][1][1]) == 4
    ctx.ob("C08.R1", scan_f, "the scan body returns (new carry, (position, infos, kernel "
                             "states, quantities))", ok, detail=short(rt or ()))
    if ok:
        out = trans[0]
        pos, tinfo, kst, quants = rt[1][1][1]
        want_pos = ("call", ("a", ("a", SELF, "_model"), "extract_position"),
                    (("a", SELF, "_position_keys"), ("a", out, "model_state")), ())
        ctx.ob("C08.R1", scan_f, "the recorded position is extracted, for the tracked keys, "
                                 "from the model state AFTER all kernels of this iteration",
               pos == want_pos, detail=short(pos),
               stmt="recorded position " + pretty(pos)[:160])
        base = tinfo
        while base[0] in ("loop", "phi", "carried"):
            base = base[3] if base[0] == "phi" else base[2]
        ctx.ob("C08.R1", scan_f, "the recorded transition infos are this iteration's infos "
                                 "(optionally minimised)",
               any(x == ("a", out, "infos") for x in subterms(tinfo)),
               detail=short(tinfo), stmt="recorded infos " + pretty(tinfo)[:120])
        want_ks = ("phi", ("a", SELF, "_store_kernel_states"), ("a", out, "kernel_states"),
                   c(None))
        ctx.ob("C08.R1", scan_f, "kernel states (if requested) are those after this "
                                 "iteration", kst == want_ks, detail=short(kst),
               stmt="recorded kernel states " + pretty(kst)[:120])
        gens = [t for t, _, _ in rs.calls if t[1][0] == "a" and t[1][2] == "generate"]
        ok_g = all(len(t[2]) >= 2 and t[2][1] == ("a", out, "model_state") for t in gens) \
            and len(gens) == 1
        ctx.ob("C08.R1", scan_f, "generated quantities are computed from this iteration's "
                                 "final model state", ok_g,
               detail=str([short(t) for t in gens]))
    rm = evaluate(repo, sm)
    rmt = rm.ret()
    scan_calls = [t for t, _, _ in rm.calls if is_call(t, "jax.lax.scan")]
    ok = False
    if rmt is not None and rmt[0] == "tuple" and len(rmt[1]) == 7 and len(scan_calls) == 1:
        chain = ("proj", scan_calls[0], 1)
        ok = all(rmt[1][3 + k] in (("s", chain, c(k)), ("proj", chain, k)) for k in range(4))
    ctx.ob("C08.R1", sm, "_sample_many returns the scanned outputs in the order (positions, "
                         "infos, kernel states, quantities) at positions 3..6", ok,
           detail=short(rmt or (), 240))

    # ------------------------------------------------------------------ R2
    lec = repo.cls("liesel.goose.chain.ListEpochChain")
    app = method(repo, lec, "append", own=True)
    ra = evaluate(repo, app)
    init = method(repo, lec, "__init__", own=True)
    ri = evaluate(repo, init)
    counter_fields = [loc[2] for loc, val, _, _ in ri.stores
                      if loc[1] == SELF and val[0] == "c" and isinstance(val[1], int)
                      and not isinstance(val[1], bool)]
    c0 = None
    cfield = None
    for loc, val, _, _ in ri.stores:
        if loc[1] == SELF and loc[2] in counter_fields and any(
                l2 == loc for l2, _, _, _ in ra.stores):
            c0, cfield = val[1], loc
    ctx.ob("C08.R2", init, "the chain keeps a state counter initialised to a constant",
           c0 is not None, detail=f"counter field {pretty(cfield) if cfield else None}")
    sl = [t for t, _, _ in ra.calls if is_call(t, "liesel.goose.pytree.slice_leaves")]
    th_guard = None
    for t, _, cond in ra.calls:
        if is_call(t, "liesel.goose.pytree.slice_leaves"):
            th_guard = cond
    ok_idx, detail, facts = False, "", {}
    if c0 is not None and len(sl) == 1:
        idx_arg = sl[0][2][1]
        # np.s_[:, idx, ...]
        idx = None
        if idx_arg[0] == "s" and idx_arg[2][0] == "tuple" and len(idx_arg[2][1]) == 3:
            idx = idx_arg[2][1][1]
        size = None
        for x in subterms(sl[0]):
            if x[0] == "s" and x[1][0] == "a" and x[1][2] == "shape" and x[2] == c(1):
                size = x
        th = ("a", ("a", SELF, "_epoch"), "thinning")
        th_alt = ("a", ("a", SELF, "epoch"), "thinning")
        if idx is not None and size is not None:
            kept = _kept_indices(idx, cfield, size, (th, th_alt))
            if kept is None:
                detail = f"unrecognised index construction {short(idx, 200)}"
            else:
                bad = []
                for thv in range(2, 8):
                    for cv in range(0, 3 * thv + 2):
                        for sz in (1, 2, 3, 5, 8):
                            got = kept(cv, sz, thv)
                            if got is None:
                                bad.append("unmodelled")
                                break
                            # states in this chunk have numbers cv - c0 + 1 + i
                            want = [i for i in range(sz) if (cv - c0 + 1 + i) % thv == 0]
                            if got != want:
                                bad.append(f"th={thv} counter={cv} size={sz}: keeps {got}, "
                                           f"required {want}")
                        if bad:
                            break
                    if bad:
                        break
                ok_idx = not bad
                detail = "; ".join(bad[:2])
                facts = {"c0": c0, "grid": "thinning 2..7 x counter 0..3*th+1 x size "
                                           "{1,2,3,5,8}"}
    ctx.ob("C08.R2", app, "with thinning k the kept indices of a chunk are exactly those "
                          "whose within-epoch state number (1-based) is a multiple of k "
                          "(index arithmetic evaluated on the residue grid)", ok_idx,
           unproven=not detail or "unrecognised" in detail, detail=detail,
           stmt="thinning index " + (pretty(sl[0][2][1])[:200] if sl else "?"), facts=facts)
    adv = [(val, cond) for loc, val, _, cond in ra.stores if cfield is not None and loc == cfield]
    ok_adv = False
    if len(adv) == 1 and sl:
        val, cond = adv[0]
        size_t = None
        for x in subterms(val):
            if x[0] == "s" and x[1][0] == "a" and x[1][2] == "shape":
                size_t = x
        # the advance happens on every path of the thinning branch: its path condition is a
        # prefix of the slicing call's condition (not nested under e.g. len(idx) > 0)
        guard = [a for a in th_guard or ()]
        # (the slicing call sits under one more condition -- "something was kept" -- than
        # the counter advance)
        ok_adv = (val == ("op", "+", cfield, size_t) and size_t is not None
                  and list(cond) == guard[:len(cond)] and len(cond) == len(guard) - 1)
    ctx.ob("C08.R2", app, "the state counter advances by the chunk size exactly once on "
                          "every path through the thinning branch (also when nothing of "
                          "the chunk is kept)", ok_adv,
           detail=str([(short(v), [pretty(a) for a, _ in cd]) for v, cd in adv]),
           stmt="counter advance")
    # branch condition: thinning applied iff enabled and thinning > 1
    conds = [cond for t, _, cond in ra.calls
             if t[1] == ("a", ("call", ("n", "super"), (), ()), "append")]
    ctx.ob("C08.R2", app, "chunks are stored unthinned when thinning is disabled or 1, and "
                          "a thinned chunk is stored only when it kept something",
           len(conds) == 2, detail=f"{len(conds)} store sites")
    # which store is reached for (apply_thinning, thinning): evaluated, not matched
    from ..domains import concrete
    th = ("a", ("a", SELF, "_epoch"), "thinning")
    th_alt = ("a", ("a", SELF, "epoch"), "thinning")
    flag = ("a", SELF, "_apply_thinning")
    stores_ = [(t, cond) for t, _, cond in ra.calls
               if t[1] == ("a", ("call", ("n", "super"), (), ()), "append")]
    bad, err = [], None
    for apply_ in (True, False):
        for k in (1, 2, 3, 5):
            env = {flag: apply_, th: k, th_alt: k}
            reached = []
            for t, cond in stores_:
                try:
                    hold = True
                    for atom, pol in cond:
                        if atom[0] == "inloop":
                            continue
                        try:
                            v = bool(concrete.evaluate(atom, env))
                        except concrete.Unmodelled:
                            # "something was kept": not a function of the configuration
                            if not any(x == n("chunk") for x in subterms(atom)):
                                raise
                            continue
                        if v != pol:
                            hold = False
                            break
                except concrete.Unmodelled as e:
                    err = e
                    hold = False
                if hold:
                    reached.append("plain" if t[2] == (n("chunk"),) else "thinned")
            want = {"thinned"} if (apply_ and k > 1) else ({"plain"}, {"thinned"}, {"plain", "thinned"})
            ok_c = (set(reached) == want) if isinstance(want, set) else (
                set(reached) in want and (k == 1 or set(reached) == {"plain"}))
            if not ok_c:
                bad.append(f"apply_thinning={apply_}, thinning={k}: reaches {sorted(set(reached))}")
    ctx.ob("C08.R2", app, "the thinned store is reached exactly when thinning is enabled and "
                          "k > 1, the unthinned store otherwise (branch condition evaluated "
                          "for apply_thinning x k in {1,2,3,5})", not bad and err is None,
           unproven=err is not None, detail="; ".join(bad[:3]) or str(err or ""),
           stmt="thinning branch " + "; ".join(bad[:2]))

    # ------------------------------------------------------------------ R3
    einit = method(repo, eng, "__init__")
    rei = evaluate(repo, einit)
    heap = {loc[2]: val for loc, val, _, _ in rei.stores if loc[1] == SELF}
    ECM = "liesel.goose.chain.EpochChainManager"
    thin = lambda v: v is not None and is_call(v, ECM) and kw(v, "apply_thinning", 0) == c(True)  # noqa
    plain = lambda v: v is not None and is_call(v, ECM) and kw(v, "apply_thinning", 0) in (None, c(False))  # noqa
    ctx.ob("C08.R3", einit, "the position chain and the generated-quantities chain apply "
                            "thinning", thin(heap.get("_position_chain"))
           and thin(heap.get("_quantities_chain")),
           detail=f"{short(heap.get('_position_chain') or ())}")
    ctx.ob("C08.R3", einit, "transition infos and kernel states are stored for every "
                            "transition (no thinning)", plain(heap.get("_transition_info_chain"))
           and plain(heap.get("_kernel_state_chain")),
           detail=f"{short(heap.get('_transition_info_chain') or ())}")
    ecm = repo.cls(ECM)
    ae = method(repo, ecm, "advance_epoch", own=True)
    rae = evaluate(repo, ae)
    mk = [t for t, _, _ in rae.calls if is_call(t, "liesel.goose.chain.ListEpochChain")]
    ok = (len(mk) == 1 and kw(mk[0], "epoch", 0) == n("epoch")
          and kw(mk[0], "apply_thinning", 1) == ("a", SELF, "_apply_thinning")
          and any(t == ("call", ("a", ("a", SELF, "_chains"), "append"), (mk[0],), ())
                  for t, _, _ in rae.calls))
    ctx.ob("C08.R3", ae, "advance_epoch starts a new epoch chain with the epoch's config "
                         "and the manager's thinning flag", ok)
    mapp = method(repo, ecm, "append", own=True)
    rma = evaluate(repo, mapp)
    ok = any(t == ("call", ("a", ("s", ("a", SELF, "_chains"), c(-1)), "append"),
                   (n("chunk"),), ()) for t, _, _ in rma.calls)
    ctx.ob("C08.R3", mapp, "a chunk is appended to the current (last) epoch chain", ok)
    sfd = method(repo, eng, "_sample_for_duration")
    rsf = evaluate(repo, sfd)
    lp = rsf.loops[0] if rsf.loops else None
    if lp is not None:
        jit_calls = [t for t, _, _ in lp["calls"] if t[1] == ("a", SELF, "_sample_many_jitted")]
        base_cond = next((cond for t, _, cond in lp["calls"]
                          if t[1] == ("a", SELF, "_sample_many_jitted")), ())
        ok = False
        detail = ""
        if len(jit_calls) == 1:
            call = jit_calls[0]
            apps = {}
            for t, _, cond in lp["calls"]:
                if t[1][0] == "a" and t[1][2] == "append" and t[1][1][0] == "a" \
                        and t[1][1][1] == SELF:
                    atoms = [(a, p) for a, p in cond if (a, p) not in base_cond]
                    apps[t[1][1][2]] = (t[2][0], atoms)
            want = {
                "_position_chain": (("proj", call, 3), []),
                "_transition_info_chain": (("proj", call, 4), []),
                "_kernel_state_chain": (("proj", call, 5),
                                        [(("a", SELF, "_store_kernel_states"), True)]),
                "_quantities_chain": (("proj", call, 6),
                                      [(("a", SELF, "_quantity_generators"), True)]),
            }
            ok = apps == want
            detail = str({k: (short(v[0], 40), [pretty(a) for a, _ in v[1]])
                          for k, v in apps.items()})
        ctx.ob("C08.R3", sfd, "after every chunk: positions and infos are appended "
                              "unconditionally, kernel states iff requested, quantities iff "
                              "generators exist -- each from its own output slot", ok,
               detail=detail, stmt="chunk appends")

    # ------------------------------------------------------------------ R4
    hiv = method(repo, eng, "_handle_inital_values_epoch")
    rh = evaluate(repo, hiv)
    apps = [t for t, _, cond in rh.calls if t[1] == ("a", ("a", SELF, "_position_chain"),
                                                      "append") and not cond]
    ok = False
    if len(apps) == 1:
        arg = apps[0][2][0]
        inner = kw(arg, "x", 0) if is_call(arg, "liesel.goose.engine._add_time_dimension") \
            else None
        ok = (inner is not None and inner[0] == "call" and is_call(inner[1], "jax.vmap")
              and inner[1][2][0] == ("a", ("a", SELF, "_model"), "extract_position")
              and kw(inner[1], "in_axes", 1) == ("tuple", (c(None), c(0)))
              and inner[2] == (("a", SELF, "_position_keys"), ("a", SELF, "_model_states")))
    ctx.ob("C08.R4", hiv, "the initial-values epoch appends the position extracted from the "
                          "initial model states (tracked keys, per chain) with a time axis",
           ok, detail=short(apps[0]) if apps else "no append", stmt="initial sample")
    sne_ = method(repo, eng, "sample_next_epoch")
    from ..core.terms import make_inliner
    rsn = evaluate(repo, sne_, inline=make_inliner(
        repo, self_class=eng, allow=lambda f: f.name == "_handle_inital_values_epoch"),
        inline_depth=1)
    type_t = ("a", ("a", ("a", SELF, "current_epoch"), "config"), "type")
    INIT_ = ("cmp", "==", type_t, ("g", f"{ETYPE}.INITIAL_VALUES"))
    # (the helper may be called or written out in place: its effect is what counts)
    hcalls = [cond for t, _, cond in rsn.calls
              if t[0] == "call" and t[1] == ("a", ("a", SELF, "_position_chain"), "append")
              and apps and t[2] == apps[0][2]]
    assumed = {(rc[-1][0], not rc[-1][1]) for rc, _, _ in rsn.raises if rc}
    hcalls = [[(a, p_) for a, p_ in cd if (a, p_) not in assumed] for cd in hcalls]
    ctx.ob("C08.R4", sne_, "sample_next_epoch records the initial values exactly when the "
                           "epoch is the INITIAL_VALUES epoch", len(hcalls) == 1
           and [(a, p_) for a, p_ in hcalls[0]] == [(INIT_, True)],
           detail=str([[pretty(a)[:60] + "=" + str(p_) for a, p_ in cd] for cd in hcalls]),
           stmt="initial values recorded")
    adv_t = [t for t, _, cond in rh.calls if t[0] == "call" and t[1][0] == "a"
             and t[1][2] == "advance_time" and not cond]
    done = [val for loc, val, _, cond in rh.stores if loc == ("a", SELF, "_epoch") and not cond]
    ctx.ob("C08.R4", hiv, "the initial-values epoch consumes its single time step and is "
                          "closed (epoch clock advanced by 1, no epoch left active)",
           len(adv_t) == 1 and adv_t[0][2] == (c(1),) and done == [c(None)],
           detail=f"advance_time {[short(t, 60) for t in adv_t]}; _epoch stores {done}",
           stmt="initial epoch closed")
    opt_apps = {}
    for t, _, cond in rh.calls:
        if t[0] == "call" and t[1][0] == "a" and t[1][2] == "append" and t[1][1][0] == "a" \
                and t[1][1][1] == SELF and t[1][1][2] in ("_kernel_state_chain",
                                                          "_quantities_chain"):
            opt_apps[t[1][1][2]] = [(a, p_) for a, p_ in cond]
    ctx.ob("C08.R4", hiv, "at index 0 the kernel states are stored iff requested and the "
                          "generated quantities iff generators exist (same conditions as "
                          "after every chunk)",
           opt_apps == {"_kernel_state_chain": [(("a", SELF, "_store_kernel_states"), True)],
                        "_quantities_chain": [(("a", SELF, "_quantity_generators"), True)]},
           detail=str({k: [pretty(a)[:40] + "=" + str(p_) for a, p_ in v]
                       for k, v in opt_apps.items()}), stmt="initial optional appends")
    cf = method(repo, repo.cls("liesel.goose.chain.EpochChainManager"), "combine_filtered",
                own=True)
    rcf = evaluate(repo, cf)
    capp = [(t, [(a, p_) for a, p_ in cond if a[0] != "inloop"]) for t, _, cond in rcf.calls
            if t[0] == "call" and t[1][0] == "a" and t[1][2] == "append"]
    ok_cf = False
    if len(capp) == 1:
        t, g = capp[0]
        ech = ("iter", ("a", SELF, "_chains"))
        got = ("call", ("a", ech, "get"), (), ())
        pred = ("call", n(cf.params()[1]), (("a", ech, "epoch"),), ())
        ok_cf = (t[2] == (("call", ("a", got, "unwrap"), (), ()),)
                 and g == [(pred, True), (("call", ("a", got, "is_some"), (), ()), True)])
    ctx.ob("C08.R5", cf, "combine_filtered appends the stored chunk of exactly the epochs the "
                         "predicate selects (skipping only epochs without samples)", ok_cf,
           detail=str([[pretty(a)[:50] + "=" + str(p_) for a, p_ in g] for _, g in capp]),
           stmt="combine_filtered guard")
    atd = repo.func("liesel.goose.engine._add_time_dimension")
    rat = evaluate(repo, atd).ret()
    ok = (rat is not None and is_call(rat, "jax.tree_util.tree_map") and rat[2][0][0] == "lambda"
          and is_call(rat[2][0][2], "jax.numpy.expand_dims")
          and rat[2][0][2][2][1] == c(1)
          and rat[2][0][2][2][0] == n(rat[2][0][1][0].lstrip("*"))
          and rat[2][1] == n(atd.params()[0]))
    ctx.ob("C08.R4", atd, "the time axis is inserted at axis 1 with length 1", ok,
           detail=short(rat or ()))
    se = method(repo, eng, "_start_epoch")
    rse = evaluate(repo, se)
    # ... for EVERY epoch: the only conditions an advance may sit under are the method's own
    # "no epoch is active" guards (each epoch gets its own chain with its own thinning)
    guard_atoms = {a for cond, _, _ in rse.raises for a, _ in cond}
    adv_all = [(t, cond) for t, _, cond in rse.calls if t[1][0] == "a"
               and t[1][2] == "advance_epoch"]
    adv = [t[1][1][2] for t, cond in adv_all if all(a in guard_atoms for a, _ in cond)]
    ctx.ob("C08.R4", se, "all four chain managers advance to the new epoch, for every epoch "
                         "(no condition on the epoch's type or on what was recorded before)",
           sorted(adv) == ["_kernel_state_chain", "_position_chain", "_quantities_chain",
                           "_transition_info_chain"] and len(adv_all) == 4,
           detail=f"unconditional: {sorted(adv)}; all: {len(adv_all)}",
           stmt=f"advance_epoch unconditional for {sorted(adv)}")

    # ------------------------------------------------------------------ R5
    sr = repo.cls("liesel.goose.engine.SamplingResults")
    post = ("lambda", ("_l0_0",), ("cmp", "==", ("a", n("_l0_0"), "type"),
                                    ("g", f"{ETYPE}.POSTERIOR")))
    for mname, field in (("get_posterior_samples", "positions"),
                         ("get_posterior_transition_infos", "transition_infos")):
        fi = method(repo, sr, mname, own=True)
        r = evaluate(repo, fi)
        cf = [t for t, _, _ in r.calls if t[1] == ("a", ("a", SELF, field), "combine_filtered")]
        ok = len(cf) == 1 and len(cf[0][2]) == 1 and _is_posterior_pred(cf[0][2][0])
        ctx.ob("C08.R5", fi, f"{mname} combines exactly the epochs with type == POSTERIOR "
                             f"of self.{field}", ok,
               detail=short(cf[0]) if cf else "no combine_filtered", stmt=f"{mname} filter")
        # ... and returns what that call produced NOW: not a value kept from an earlier
        # call (sampling may have continued since), not a post-processed one
        rt_ = r.ret()
        fresh = (len(cf) == 1 and rt_ is not None and rt_[0] == "call" and rt_[1][0] == "a"
                 and rt_[1][1] == cf[0] and rt_[1][2] in ("expect", "unwrap")
                 and len(r.returns) == 1)
        ctx.ob("C08.R5", fi, f"{mname} returns that combination itself (`.expect()` / "
                             f"`.unwrap()` of this call's result on its only path: nothing "
                             f"memoised)", fresh, detail=short(rt_ or (), 160),
               stmt=f"{mname} result " + pretty(rt_ or ())[:120])
    for mname, field, comb in (("get_samples", "positions", "combine_all"),):
        fi = method(repo, sr, mname, own=True)
        r = evaluate(repo, fi)
        rt_ = r.ret()
        want_c = ("call", ("a", ("a", SELF, field), comb), (), ())
        ctx.ob("C08.R5", fi, f"{mname} returns self.{field}.{comb}() of this call (nothing "
                             f"memoised)", rt_ is not None and rt_[0] == "call" and rt_[1][0] == "a"
               and rt_[1][1] == want_c and rt_[1][2] in ("expect", "unwrap")
               and len(r.returns) == 1, detail=short(rt_ or (), 160),
               stmt=f"{mname} result " + pretty(rt_ or ())[:120])
    gr = method(repo, eng, "get_results")
    rgr = evaluate(repo, gr)
    rt_g = rgr.ret()
    ctx.ob("C08.R5", gr, "Engine.get_results builds a new SamplingResults from the engine's "
                         "current chain managers on every call (its only return)",
           rt_g is not None and is_call(rt_g, "liesel.goose.engine.SamplingResults")
           and len(rgr.returns) == 1
           and kw(rt_g, "positions", 0) == ("a", SELF, "_position_chain")
           and kw(rt_g, "transition_infos", 1) == ("a", SELF, "_transition_info_chain"),
           detail=short(rt_g or (), 200), stmt="get_results " + pretty(rt_g or ())[:100])
    cfm = method(repo, ecm, "combine_filtered", own=True)
    rcf = evaluate(repo, cfm)
    lp = rcf.loops[0] if rcf.loops else None
    ok = False
    if lp is not None and lp["iter"] == ("a", SELF, "_chains"):
        ec = ("iter", ("a", SELF, "_chains"))
        apps = [(t, cond) for t, _, cond in lp["calls"] if t[1][0] == "a" and t[1][2] == "append"]
        pred = ("call", n("predicate"), (("a", ec, "epoch"),), ())
        ok = (len(apps) == 1 and (pred, True) in apps[0][1]
              and apps[0][0][2] == (("call", ("a", ("call", ("a", ec, "get"), (), ()),
                                              "unwrap"), (), ()),))
    ctx.ob("C08.R5", cfm, "combine_filtered keeps, in epoch order, the chunks of exactly the "
                          "epochs whose config satisfies the predicate", ok, stmt="filter loop")
    lc = repo.cls("liesel.goose.chain.ListChain")
    cat = method(repo, lc, "_concatenate", own=True)
    rcat = evaluate(repo, cat)
    ok = any(is_call(t, "liesel.goose.pytree.concatenate_leaves")
             and t[2] == (("a", SELF, "_chunks_list"), c(1)) for t, _, _ in rcat.calls)
    ctx.ob("C08.R5", cat, "chunks are concatenated along the time axis (axis 1) in append "
                          "order", ok)
    # the leaf helpers the chains are built on
    PT = "liesel.goose.pytree"
    sl = evaluate(repo, repo.func(f"{PT}.slice_leaves")).ret()
    ok = (sl is not None and is_call(sl, "jax.tree_util.tree_map") and sl[2][0][0] == "lambda"
          and sl[2][0][2] == ("s", n(sl[2][0][1][0]), n("idx")) and sl[2][1] == n("pytree"))
    ctx.ob("C08.R5", repo.func(f"{PT}.slice_leaves"), "slice_leaves applies the same index "
                                                      "to every leaf", ok, detail=short(sl or ()))
    for fname, op in (("concatenate_leaves", "concatenate"), ("stack_leaves", "stack")):
        fi_ = repo.func(f"{PT}.{fname}")
        rt_ = evaluate(repo, fi_).ret()
        ok = False
        if rt_ is not None and is_call(rt_, "jax.tree_util.tree_map") and rt_[2][0][0] == "lambda":
            lam = rt_[2][0]
            body = lam[2]
            ok = (is_call(body, f"jax.numpy.{op}") and kw(body, "axis", 1) == n("axis")
                  and len(lam[1]) == 1 and lam[1][0].startswith("*")
                  and body[2][:1] == (n(lam[1][0].lstrip("*")),)
                  and rt_[2][1] == ("star", n("pytrees")))
        dflt = fi_.node.args.defaults
        ok = ok and len(dflt) == 1 and isinstance(dflt[0], ast.Constant) and dflt[0].value == 0
        ctx.ob("C08.R5", fi_, f"{fname} applies jnp.{op} along the given axis (default: the "
                              f"leading axis 0, which callers use as the chain axis) to the "
                              f"corresponding leaves of all pytrees, in list order", ok,
               detail=short(rt_ or ()))

    # included / excluded keys
    eb = repo.cls("liesel.goose.builder.EngineBuilder")
    build = method(repo, eb, "build")
    rb = evaluate(repo, build)
    rtb = rb.ret()
    pk = kw(rtb, "position_keys") if rtb is not None and rtb[0] == "call" else None
    ok = False
    if pk is not None and pk[0] == "comp" and pk[1] == "list":
        (tgt, src, conds) = pk[3][0]
        ok = (pk[2] == ("iter", src) and len(conds) == 1
              and conds[0] == cmp_("not in", ("iter", src), ("a", SELF, "positions_excluded")))
        # the filtered list is: every kernel's position keys, extended by positions_included
        from .common import collects_kernel_keys
        muts = [x for x in subterms(src) if x[0] == "mut" and x[2] == "extend"]
        ok = ok and any(x[3] == (("a", SELF, "positions_included"),) for x in muts) \
            and collects_kernel_keys(src, ("a", SELF, "_kernels"))
    ctx.ob("C08.R5", build, "tracked keys = kernel keys + positions_included, minus "
                            "positions_excluded", ok, detail=short(pk or ()),
           stmt="tracked keys " + pretty(pk or ())[:160])
    # what the user switched on at the builder reaches the engine (a dropped keyword falls
    # back to the engine's default: kernel states are then silently not stored)
    fwd_bad = []
    if rtb is not None and rtb[0] == "call":
        for k_ in ("store_kernel_states", "minimize_transition_infos"):
            if kw(rtb, k_) != ("a", SELF, k_):
                fwd_bad.append(f"{k_}={short(kw(rtb, k_) or ('c', 'engine default'), 40)}")
    ctx.ob("C08.R5", build, "the builder hands its store_kernel_states / "
                            "minimize_transition_infos settings to the engine", not fwd_bad
           and rtb is not None, detail="; ".join(fwd_bad), stmt="engine options " + "; ".join(fwd_bad))
    ebi = method(repo, repo.cls("liesel.goose.builder.EngineBuilder"), "__init__")
    rebi = evaluate(repo, ebi)
    lists_ = {loc[2]: val for loc, val, _, cond in rebi.stores
              if loc[0] == "a" and loc[1] == SELF and loc[2] in ("positions_included",
                                                                  "positions_excluded")}
    fresh_ = lambda v: v is not None and ((v[0] == "list" and v[1] == ()) or is_call(v, "list"))  # noqa: E731
    ctx.ob("C08.R5", ebi, "every EngineBuilder starts with its own empty include / exclude "
                          "lists (users are told to extend them in place: a shared default "
                          "object would leak keys between builders)",
           fresh_(lists_.get("positions_included")) and fresh_(lists_.get("positions_excluded")),
           detail=str({k: short(v, 40) for k, v in lists_.items()}), stmt="builder key lists")
    fb = [(val, cond) for loc, val, _, cond in rei.stores if loc == ("a", SELF, "_position_keys")]
    ok = False
    detail = ""
    if len(fb) == 1 and fb[0][0][0] == "phi":
        condt = fb[0][0][1]
        ok = (condt == ("cmp", "is", n("position_keys"), c(None))
              and fb[0][0][3] == n("position_keys") and fb[0][0][2][0] == "comp"
              and any(x[0] == "a" and x[2] == "position_keys" for x in subterms(fb[0][0][2])))
        detail = f"fallback condition {short(condt)}; given -> {short(fb[0][0][3], 40)}"
    elif len(fb) == 1 and fb[0][0] == n("position_keys"):
        ok, detail = True, "no fallback"
    ctx.ob("C08.R5", einit, "the engine falls back to the kernels' keys only when "
                            "position_keys is None -- an explicitly empty selection (all keys "
                            "excluded) is respected", ok, detail=detail,
           stmt="position_keys fallback " + detail)

    # ---- shared mechanisms: the neighbour's rules run as obligations of this property
    ctx.include("C07", "C08.R6", only=['C07.R3'])
    ctx.rule("R6", "shared mechanisms, run as obligations of this property: the chunks of an epoch see the running epoch / kernel / model states (C07.R3).")


def _is_posterior_pred(t) -> bool:
    if t[0] != "lambda" or len(t[1]) != 1:
        return False
    p = n(t[1][0])
    post = ("g", f"{ETYPE}.POSTERIOR")
    return t[2] in (("cmp", "==", ("a", p, "type"), post), ("cmp", "==", post, ("a", p, "type")))


def _kept_indices(idx, cfield, size, th_terms):
    """Returns f(counter, size, thinning) -> sorted list of kept indices, interpreting the
    extracted index term in a small list/modular-arithmetic domain; None if the term
    uses constructs outside that domain."""
    def ev(t, env):
        if t == cfield:
            return env["c"]
        if t == size:
            return env["n"]
        if t in th_terms:
            return env["th"]
        tag = t[0]
        if tag == "c":
            return t[1]
        if tag == "call":
            name = fn_name(t[1]) or ""
            short_ = name.rsplit(".", 1)[-1]
            args = [ev(a, env) for a in t[2]]
            if name.startswith(("numpy.", "jax.numpy.")) and short_ == "arange":
                if len(args) == 1:
                    return list(range(args[0]))
                if len(args) == 2:
                    return list(range(args[0], args[1]))
                return list(range(args[0], args[1], args[2]))
            if name.startswith(("numpy.", "jax.numpy.")) and short_ == "flatnonzero" \
                    and len(args) == 1 and isinstance(args[0], list):
                # positions where the mask is set == arange(len(mask))[mask]
                return [i for i, keep in enumerate(args[0]) if keep]
            if name in ("len",):
                return len(args[0])
            if name in ("range",):
                return list(range(*args))
            raise concrete.Unmodelled(t)
        if tag == "op":
            a, b = ev(t[2], env), ev(t[3], env)
            f = concrete.OPS.get(t[1])
            if f is None:
                raise concrete.Unmodelled(t)
            if isinstance(a, list) and isinstance(b, list):
                return [f(x, y) for x, y in zip(a, b)]
            if isinstance(a, list):
                return [f(x, b) for x in a]
            if isinstance(b, list):
                return [f(a, y) for y in b]
            return f(a, b)
        if tag == "cmp":
            a, b = ev(t[2], env), ev(t[3], env)
            f = concrete.CMPS.get(t[1])
            if f is None:
                raise concrete.Unmodelled(t)
            if isinstance(a, list) and isinstance(b, list):
                return [f(x, y) for x, y in zip(a, b)]
            if isinstance(a, list):
                return [f(x, b) for x in a]
            if isinstance(b, list):
                return [f(a, y) for y in b]
            return f(a, b)
        if tag == "u" and t[1] == "-":
            v = ev(t[2], env)
            return [-x for x in v] if isinstance(v, list) else -v
        if tag == "s":
            base, i = ev(t[1], env), ev(t[2], env)
            if isinstance(base, list) and isinstance(i, list) and all(
                    isinstance(x, bool) for x in i):
                return [x for x, keep in zip(base, i) if keep]
            if isinstance(base, list) and isinstance(i, list):
                return [base[x] for x in i]
            raise concrete.Unmodelled(t)
        if tag in ("ifexp", "phi"):
            return ev(t[2], env) if ev(t[1], env) else ev(t[3], env)
        raise concrete.Unmodelled(t)

    try:
        ev(idx, {"c": 1, "n": 3, "th": 2})
    except concrete.Unmodelled:
        return None
    except Exception:
        return None

    def f(cv, sz, thv):
        try:
            r = ev(idx, {"c": cv, "n": sz, "th": thv})
        except Exception:
            return None
        return sorted(int(x) for x in r) if isinstance(r, list) else None
    return f
