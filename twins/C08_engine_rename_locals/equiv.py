"""
Deterministic equivalence driver for property C08 (recorded chains).

Run from the worktree root with ``PYTHONPATH=<worktree> python _twin/<name>/equiv.py``.
Prints a digest of everything the chain / engine / builder / pytree code computes
for a set of schedules, thinning values, chunk sizes, chain counts, tracked keys
and leaf shapes, including the exception paths. No path is hard-coded.
"""

import hashlib
import logging
import sys

import jax
import jax.numpy as jnp
import numpy as np

import liesel.goose as gs
from liesel.goose import pytree as pt
from liesel.goose.builder import EngineBuilder, _find_duplicate
from liesel.goose.chain import EpochChainManager, ListChain, ListEpochChain
from liesel.goose.engine import Engine, SamplingResults, _add_time_dimension
from liesel.goose.epoch import EpochConfig, EpochType
from liesel.goose.interface import DictInterface
from liesel.goose.kernel import (
    DefaultTransitionInfo,
    DefaultTuningInfo,
    TransitionOutcome,
    TuningOutcome,
    WarmupOutcome,
)
from liesel.goose.kernel_sequence import KernelSequence
from liesel.goose.pytree import register_dataclass_as_pytree
from liesel.option import Option

LINES: list[str] = []


def out(*parts):
    line = " ".join(str(p) for p in parts)
    LINES.append(line)
    print(line)


def leaf_digest(x):
    a = np.asarray(x)
    h = hashlib.sha256(np.ascontiguousarray(a).tobytes()).hexdigest()[:16]
    flat = a.reshape(-1)
    head = ",".join(repr(v) for v in flat[:6].tolist())
    return f"{a.dtype}{list(a.shape)} {h} [{head}]"


def tree_digest(label, tree):
    leaves, treedef = jax.tree_util.tree_flatten(tree)
    out(label, "treedef", treedef)
    for i, leaf in enumerate(leaves):
        out(label, f"leaf{i}", type(leaf).__module__.split(".")[0], leaf_digest(leaf))


def opt_digest(label, opt):
    if opt.is_none():
        out(label, "Option(None)")
    else:
        tree_digest(label, opt.unwrap())


def exc_digest(label, fn, show_msg=True):
    try:
        rv = fn()
    except Exception as e:  # noqa: BLE001
        msg = str(e) if show_msg else "<msg hidden>"
        out(label, "RAISED", type(e).__name__, msg)
    else:
        out(label, "returned", type(rv).__name__)
        return rv


class ListHandler(logging.Handler):
    def __init__(self):
        super().__init__(level=logging.DEBUG)
        self.records = []

    def emit(self, record):
        self.records.append((record.name, record.levelname, record.getMessage()))


HANDLER = ListHandler()
_goose_logger = logging.getLogger("liesel.goose")
_goose_logger.addHandler(HANDLER)
_goose_logger.setLevel(logging.DEBUG)
_goose_logger.propagate = False


def flush_logs(label):
    for name, level, msg in HANDLER.records:
        out(label, "LOG", name, level, msg)
    HANDLER.records.clear()


# --------------------------------------------------------------------------------
# pytree helpers
# --------------------------------------------------------------------------------


def section_pytree():
    out("== pytree")
    t1 = {"a": jnp.arange(12.0).reshape(2, 3, 2), "b": (jnp.arange(6).reshape(2, 3),)}
    t2 = {
        "a": 10 + jnp.arange(8.0).reshape(2, 2, 2),
        "b": (100 + jnp.arange(4).reshape(2, 2),),
    }
    tree_digest("slice", pt.slice_leaves(t1, np.s_[:, np.array([0, 2]), ...]))
    tree_digest("slice-empty", pt.slice_leaves(t1, np.s_[:, np.array([], int), ...]))
    tree_digest("concat1", pt.concatenate_leaves([t1, t2], 1))
    tree_digest("concat-single", pt.concatenate_leaves([t1], 1))
    tree_digest("concat-axis-default", pt.concatenate_leaves([t1, t1]))
    tree_digest("concat-kw", pt.concatenate_leaves([t1, t1], axis=0))
    tree_digest("stack", pt.stack_leaves([t1, t1, t1]))
    tree_digest("stack-gen", pt.stack_leaves((t1 for _ in range(2)), axis=1))
    tree_digest("split", pt.split_leaves(t1, 3, axis=1))
    tree_digest("squeeze", pt.squeeze_leaves(pt.slice_leaves(t1, np.s_[:, 0:1]), 1))
    tree_digest("split_transpose", pt.split_and_transpose(t1, axis=0))
    tree_digest("strong", pt.as_strong_pytree({"w": 1.0, "i": 3, "a": jnp.ones(2)}))
    out("concat-none", pt.concatenate_leaves([None, None], 1))
    exc_digest("concat-empty", lambda: pt.concatenate_leaves([], 1))
    exc_digest("concat-mismatch", lambda: pt.concatenate_leaves([t1, {"a": 1}], 1), False)
    exc_digest("register-nondataclass", lambda: register_dataclass_as_pytree(int))
    tree_digest("add_time", _add_time_dimension(t1))
    tree_digest("add_time-kw", _add_time_dimension(x=(jnp.ones((2,)), [jnp.zeros((3, 3))])))
    out("add_time-none", _add_time_dimension(None))
    exc_digest("add_time-scalar", lambda: _add_time_dimension(jnp.array(1.0)), False)


# --------------------------------------------------------------------------------
# chains
# --------------------------------------------------------------------------------


def mk_chunk(start, size, nchains=2):
    """Chunk whose time axis carries the 1-based state numbers start..start+size-1."""
    t = np.arange(start, start + size, dtype=np.float32)
    base = np.stack([t + 1000 * c for c in range(nchains)])  # (chain, time)
    return {
        "s": jnp.asarray(base),
        "v": jnp.asarray(base[:, :, None] * np.array([1.0, -1.0, 0.5], np.float32)),
        "m": (jnp.asarray(base[:, :, None, None] + np.zeros((2, 2), np.float32)),),
        "i": jnp.asarray(base.astype(np.int32)),
    }


def feed(chain, sizes, nchains=2):
    start = 1
    rvs = []
    for size in sizes:
        rvs.append(chain.append(mk_chunk(start, size, nchains)))
        start += size
    return rvs


def section_chain():
    out("== ListChain")
    lc = ListChain()
    opt_digest("empty", lc.get())
    out("append-rv", lc.append(mk_chunk(1, 2)))
    out("nchunks", len(lc._chunks_list))
    opt_digest("one", lc.get())
    lc.append(mk_chunk(3, 3))
    lc.append(mk_chunk(6, 1))
    out("nchunks", len(lc._chunks_list))
    opt_digest("three", lc.get())
    out("nchunks-after-get", len(lc._chunks_list))
    opt_digest("again", lc.get())
    ln = ListChain()
    ln.append(None)
    ln.append(None)
    out("none-chunks", ln.get().is_none(), len(ln._chunks_list))

    out("== ListEpochChain")
    splits = {
        "ones": lambda d: [1] * d,
        "whole": lambda d: [d],
        "irregular": lambda d: [s for s in _irregular(d)],
    }
    for duration in (1, 2, 7, 12, 20):
        for thinning in (1, 2, 3, 5, 7, 20, 25):
            for apply in (False, True):
                for sname, sfn in splits.items():
                    epoch = EpochConfig(EpochType.BURNIN, duration, thinning, None)
                    ch = ListEpochChain(epoch, apply)
                    rvs = feed(ch, sfn(duration))
                    label = f"LEC d{duration} k{thinning} a{int(apply)} {sname}"
                    out(
                        label,
                        "rvs",
                        set(rvs),
                        "counter",
                        ch._states_counter,
                        "nchunks",
                        len(ch._chunks_list),
                        "epoch-is",
                        ch.epoch is epoch,
                    )
                    got = ch.get()
                    if got.is_none():
                        out(label, "none")
                    else:
                        g = got.unwrap()
                        out(label, "s", np.asarray(g["s"]).tolist())
                        out(label, "v", leaf_digest(g["v"]), "m", leaf_digest(g["m"][0]))
                        out(label, "i", leaf_digest(g["i"]))

    # default ctor arg, 3 chains, chunks smaller than thinning
    ch = ListEpochChain(EpochConfig(EpochType.POSTERIOR, 9, 3, None))
    feed(ch, [2, 2, 2, 3], nchains=3)
    out("default-apply", np.asarray(ch.get().unwrap()["s"]).tolist(), ch._states_counter)
    ch = ListEpochChain(EpochConfig(EpochType.POSTERIOR, 9, 4, None), apply_thinning=True)
    out("small-chunk-rvs", feed(ch, [1, 1, 1], nchains=1), len(ch._chunks_list))
    out("small-chunk-none", ch.get().is_none(), ch._states_counter)

    # exception paths leave the counter alone
    ch = ListEpochChain(EpochConfig(EpochType.POSTERIOR, 9, 3, None), True)
    feed(ch, [2])
    exc_digest("empty-tree", lambda: ch.append({}))
    out("counter", ch._states_counter, len(ch._chunks_list))
    exc_digest("1d-leaf", lambda: ch.append({"s": jnp.ones(3)}))
    out("counter", ch._states_counter, len(ch._chunks_list))
    exc_digest("none-chunk", lambda: ch.append(None))
    out("counter", ch._states_counter, len(ch._chunks_list))
    # leaves with different time sizes: first leaf decides
    exc_digest(
        "ragged",
        lambda: ch.append({"a": jnp.ones((1, 6)), "b": jnp.ones((1, 2))}),
        False,
    )
    out("counter", ch._states_counter, len(ch._chunks_list))
    # no thinning applied: nothing is inspected
    ch = ListEpochChain(EpochConfig(EpochType.POSTERIOR, 9, 3, None), False)
    out("nothin-empty-tree", ch.append({}), ch._states_counter, len(ch._chunks_list))
    ch = ListEpochChain(EpochConfig(EpochType.POSTERIOR, 9, 1, None), True)
    out("thin1-empty-tree", ch.append({}), ch._states_counter, len(ch._chunks_list))

    # subclass overriding the epoch property
    class Odd(ListEpochChain):
        @property
        def epoch(self):
            return EpochConfig(EpochType.POSTERIOR, 9, 1, None)

    ch = Odd(EpochConfig(EpochType.POSTERIOR, 9, 3, None), True)
    feed(ch, [4, 5])
    out("odd-subclass", np.asarray(ch.get().unwrap()["s"]).tolist(), ch._states_counter)

    out("== EpochChainManager")
    for apply in (False, True):
        mgr = EpochChainManager(apply_thinning=apply)
        exc_digest("current_epoch-empty", lambda: mgr.current_epoch)
        exc_digest("append-empty", lambda: mgr.append(mk_chunk(1, 1)))
        opt_digest("combine_all-empty", mgr.combine_all())
        configs = [
            EpochConfig(EpochType.INITIAL_VALUES, 1, 1, None),
            EpochConfig(EpochType.FAST_ADAPTATION, 6, 2, None),
            EpochConfig(EpochType.BURNIN, 5, 3, None),
            EpochConfig(EpochType.BURNIN, 2, 1, None),  # stays empty
            EpochConfig(EpochType.POSTERIOR, 8, 4, None),
            EpochConfig(EpochType.POSTERIOR, 6, 1, None),
        ]
        feeds = [[1], [2, 2, 2], [5], [], [3, 3, 2], [1, 5]]
        for cfg, sizes in zip(configs, feeds):
            out("advance-rv", mgr.advance_epoch(cfg))
            out("cur", mgr.current_epoch is cfg, mgr.get_current_epoch() is cfg)
            start = 1
            for s in sizes:
                out("mgr-append-rv", mgr.append(mk_chunk(start, s)))
                start += s
        lab = f"mgr a{int(apply)}"
        out(lab, "epochs", [(int(e.type), e.duration, e.thinning) for e in mgr.get_epochs()])
        out(lab, "nchunks", [len(c._chunks_list) for c in mgr._chains])
        out(lab, "specific", mgr.get_specific_chain(2) is mgr._chains[2])
        out(lab, "current", mgr.get_current_chain() is mgr._chains[-1])

        calls = []

        def pred_post(cfg):
            calls.append(("post", int(cfg.type), cfg.duration))
            return cfg.type == EpochType.POSTERIOR

        r = mgr.combine_filtered(pred_post)
        out(lab, "posterior s", np.asarray(r.unwrap()["s"]).tolist())
        tree_digest(lab + " posterior", r.unwrap())
        out(lab, "pred-calls", calls)
        out(lab, "nchunks-after-filtered", [len(c._chunks_list) for c in mgr._chains])

        def pred_raise(cfg):
            if cfg.duration == 5:
                raise KeyError("boom")
            return True

        exc_digest(lab + " pred-raise", lambda: mgr.combine_filtered(pred_raise))
        out(lab, "nchunks-after-raise", [len(c._chunks_list) for c in mgr._chains])
        opt_digest(lab + " none-match", mgr.combine_filtered(lambda cfg: False))
        opt_digest(lab + " truthy", mgr.combine_filtered(lambda cfg: cfg.thinning - 1))
        r = mgr.combine_all()
        out(lab, "all s", np.asarray(r.unwrap()["s"]).tolist())
        tree_digest(lab + " all", r.unwrap())
        out(lab, "nchunks-after-all", [len(c._chunks_list) for c in mgr._chains])
        r = mgr.combine([4, 1, 1, -1])
        out(lab, "combine s", np.asarray(r.unwrap()["s"]).tolist())
        opt_digest(lab + " combine-empty", mgr.combine([]))
        opt_digest(lab + " combine-emptyepoch", mgr.combine([3]))
        opt_digest(lab + " combine-gen", mgr.combine(i for i in (0, 2)))
        exc_digest(lab + " combine-oob", lambda: mgr.combine([0, 99]))


def _irregular(d):
    sizes = []
    pattern = [3, 1, 4, 1, 5, 2]
    i = 0
    while d > 0:
        s = min(pattern[i % len(pattern)], d)
        sizes.append(s)
        d -= s
        i += 1
    return sizes


# --------------------------------------------------------------------------------
# engine
# --------------------------------------------------------------------------------


class StepKernel:
    """Deterministic kernel (ignores its key)."""

    error_book = {0: "no errors"}
    identifier = ""

    def __init__(self, position_keys, needs_history=False, err_at=None):
        self._model = None
        self.position_keys = tuple(position_keys)
        self.needs_history = needs_history
        self.err_at = err_at

    @property
    def model(self):
        if self._model is None:
            raise RuntimeError("Model interface not set")
        return self._model

    def set_model(self, model):
        self._model = model

    def has_model(self):
        return self._model is not None

    def init_state(self, prng_key, model_state):
        return {"n": jnp.asarray(0), "h": jnp.asarray(0.0), "e": jnp.asarray(0)}

    def start_epoch(self, prng_key, kernel_state, model_state, epoch):
        return {**kernel_state, "e": kernel_state["e"] + 1}

    def end_epoch(self, prng_key, kernel_state, model_state, epoch):
        return kernel_state

    def transition(self, prng_key, kernel_state, model_state, epoch):
        pos = self.model.extract_position(self.position_keys, model_state)
        new = {
            k: v * 0.5 + epoch.time_in_epoch + 100.0 * epoch.nth_epoch
            for k, v in pos.items()
        }
        ms = self.model.update_state(new, model_state)
        if self.err_at is None:
            ec = 0
        else:
            ec = 1 * (epoch.time_in_epoch % self.err_at == 0)
        info = DefaultTransitionInfo(ec, 1.0, 1)
        ks = {**kernel_state, "n": kernel_state["n"] + 1}
        return TransitionOutcome(info, ks, ms)

    def tune(self, prng_key, kernel_state, model_state, epoch, history):
        h = kernel_state["h"]
        if history is not None:
            for k in sorted(history):
                h = h + jnp.sum(history[k])
        info = DefaultTuningInfo(error_code=0, time=epoch.time)
        return TuningOutcome(info, {**kernel_state, "h": h})

    def end_warmup(self, prng_key, kernel_state, model_state, tuning_history):
        return WarmupOutcome(0, kernel_state)


class Gen:
    error_book = {0: "no errors"}

    def __init__(self, identifier, random=True):
        self.identifier = identifier
        self.random = random
        self._has = False

    def set_model(self, model):
        self._has = True

    def has_model(self):
        return self._has

    def generate(self, prng_key, model_state, epoch):
        u = jax.random.normal(prng_key) if self.random else jnp.asarray(0.0)
        return {"u": u, "x2": model_state["x"] * 2.0, "t": epoch.time}


def model_state0():
    return {
        "x": jnp.array(1.0),
        "v": jnp.array([1.0, -2.0, 0.25]),
        "m": jnp.array([[0.5, 1.5], [2.5, -3.5]]),
        "z": jnp.array(7),
    }


def interface():
    return DictInterface(
        lambda ms: -0.5 * ms["x"] ** 2 - 0.5 * jnp.sum(ms["v"] ** 2) - jnp.sum(ms["m"] ** 2)
    )


def results_digest(label, results: SamplingResults):
    tree_digest(label + " samples", results.get_samples())
    rv = exc_digest(label + " posterior", results.get_posterior_samples, False)
    if rv is not None:
        tree_digest(label + " posterior", rv)
    rv = exc_digest(label + " post-tinfos", results.get_posterior_transition_infos, False)
    if rv is not None:
        tree_digest(label + " post-tinfos", rv)
    opt_digest(label + " tinfos-all", results.transition_infos.combine_all())
    for n, e in enumerate(results.positions.get_epochs()):
        opt_digest(f"{label} pos-epoch{n}", results.positions.get_specific_chain(n).get())
        opt_digest(
            f"{label} ti-epoch{n}", results.transition_infos.get_specific_chain(n).get()
        )
    out(label, "kernel_states-some", results.kernel_states.is_some())
    if results.kernel_states.is_some():
        opt_digest(label + " kstates", results.kernel_states.unwrap().combine_all())
        opt_digest(
            label + " kstates-post",
            results.kernel_states.unwrap().combine_filtered(
                lambda c: c.type == EpochType.POSTERIOR
            ),
        )
    out(label, "gq-some", results.generated_quantities.is_some())
    if results.generated_quantities.is_some():
        gq = results.generated_quantities.unwrap()
        opt_digest(label + " gq", gq.combine_all())
        opt_digest(
            label + " gq-post",
            gq.combine_filtered(lambda c: c.type == EpochType.POSTERIOR),
        )
    out(label, "tuning-some", results.tuning_infos.is_some())
    opt_digest(label + " tuning", results.tuning_infos.unwrap().get())
    tt = results.get_tuning_times
    rv = exc_digest(label + " tuning-times", tt, False)
    if rv is not None:
        opt_digest(label + " tuning-times", rv)
    out(label, "full_model_states", results.full_model_states.is_none())
    out(label, "kernel_classes", {k: v.__name__ for k, v in results.kernel_classes.unwrap().items()})
    out(label, "kernels_by_pos_key", list(results.get_kernels_by_pos_key().items()))
    for po in (False, True):
        el = results.get_error_log(posterior_only=po)
        if el.is_none():
            out(label, f"errlog po{int(po)} none")
        else:
            for k, v in el.unwrap().items():
                out(
                    label,
                    f"errlog po{int(po)}",
                    k,
                    v.kernel_ident,
                    v.kernel_cls.unwrap().__name__,
                    np.asarray(v.transition).tolist(),
                    leaf_digest(v.error_codes),
                )


SCHEDULE = [
    EpochConfig(EpochType.INITIAL_VALUES, 1, 1, None),
    EpochConfig(EpochType.FAST_ADAPTATION, 20, 1, None),
    EpochConfig(EpochType.SLOW_ADAPTATION, 10, 3, None),
    EpochConfig(EpochType.BURNIN, 10, 7, None),
    EpochConfig(EpochType.POSTERIOR, 20, 5, None),
    EpochConfig(EpochType.POSTERIOR, 10, 1, None),
]


def mk_engine(chunk, num_chains, position_keys, kernels, **kw):
    con = interface()
    for i, k in enumerate(kernels):
        k.set_model(con)
        if not k.identifier:
            k.identifier = f"kern{i}"
    mss = pt.stack_leaves([model_state0() for _ in range(num_chains)])
    # different start per chain
    mss["x"] = mss["x"] + jnp.arange(num_chains)
    seeds = jax.random.split(jax.random.PRNGKey(11), num_chains)
    kw.setdefault("show_progress", False)
    return Engine(
        seeds,
        mss,
        KernelSequence(kernels),
        [EpochConfig(c.type, c.duration, c.thinning, c.optional) for c in SCHEDULE],
        chunk,
        con,
        position_keys,
        **kw,
    )


def section_engine():
    out("== Engine chunk independence (deterministic kernels)")
    sample_digests = {}
    for chunk in (1, 2, 5, 10):
        eng = mk_engine(
            chunk,
            2,
            ["x", "m", "z"],
            [StepKernel(["x"], err_at=4), StepKernel(["v", "m"])],
            store_kernel_states=True,
            quantity_generators=[Gen("g0", random=False)],
        )
        eng.sample_all_epochs()
        out("done", chunk, eng.is_sampling_done())
        res = eng.get_results()
        label = f"eng-chunk{chunk}"
        results_digest(label, res)
        sample_digests[chunk] = (
            np.asarray(res.get_samples()["x"]).tolist(),
            np.asarray(res.get_posterior_samples()["x"]).tolist(),
        )
        flush_logs(label)
    out("chunks-agree", all(v == sample_digests[1] for v in sample_digests.values()))
    out("x-chain", sample_digests[1])

    out("== Engine with random kernels, history, progress, minimized infos")
    eng = mk_engine(
        5,
        3,
        None,
        [gs.RWKernel(["x"]), StepKernel(["v"], needs_history=True), gs.RWKernel(["m"])],
        minimize_transition_infos=True,
        store_kernel_states=False,
        quantity_generators=[Gen("a"), Gen("b")],
        show_progress=True,
    )
    exc_digest("no-epoch", lambda: eng.current_epoch)
    eng.sample_next_epoch()
    exc_digest("no-epoch-after-initial", lambda: eng.current_epoch)
    eng.sample_next_epoch()
    eng.append_epoch(EpochConfig(EpochType.POSTERIOR, 5, 5, None))
    eng.sample_all_epochs()
    results_digest("eng-random", eng.get_results())
    out("prng", leaf_digest(eng._prng_key))
    flush_logs("eng-random")

    out("== Engine manual stepping and error paths")
    eng = mk_engine(4, 1, ["v"], [StepKernel(["v", "x"])])
    eng._start_epoch()
    eng._handle_inital_values_epoch()
    eng._start_epoch()
    exc_digest("start-twice", eng._start_epoch)
    eng._kernel_start_epoch()
    exc_digest("not-multiple", lambda: eng._sample_for_duration(duration=6))
    exc_digest("too-long", lambda: eng._sample_for_duration(duration=24))
    out("sfd-rv", eng._sample_for_duration(duration=8))
    opt_digest("partial", eng.get_results().positions.combine_all())
    out("time", int(eng.current_epoch.time_in_epoch), int(eng.current_epoch.time_left()))
    out("sfd-rv", eng._sample_for_duration(12))
    exc_digest("epoch-full", lambda: eng._sample_for_duration(duration=4))
    eng._end_epoch()
    exc_digest("handle-initial-wrong", eng._handle_inital_values_epoch, False)
    results_digest("eng-manual", eng.get_results())
    flush_logs("eng-manual")

    out("== jaxpr of the vmapped chunk sampler")
    for store, mini, gens in ((True, True, [Gen("a"), Gen("b")]), (False, False, [])):
        eng = mk_engine(
            3,
            2,
            ["x", "m"],
            [StepKernel(["x"]), gs.RWKernel(["m"])],
            store_kernel_states=store,
            minimize_transition_infos=mini,
            quantity_generators=gens,
        )
        eng._start_epoch()
        eng._handle_inital_values_epoch()
        eng._start_epoch()
        eng._kernel_start_epoch()
        keys = eng._split_prng_key(3)
        fn = jax.vmap(
            eng._sample_many, in_axes=(0, None, 0, 0), out_axes=(None, 0, 0, 0, 0, 0, 0)
        )
        jaxpr = jax.make_jaxpr(fn)(
            keys, eng.current_epoch, eng._kernel_states, eng._model_states
        )
        text = str(jaxpr)
        out("jaxpr", store, mini, len(gens), len(text.splitlines()),
            hashlib.sha256(text.encode()).hexdigest())
        res = fn(keys, eng.current_epoch, eng._kernel_states, eng._model_states)
        out("sample_many-len", len(res))
        tree_digest("sample_many", res)

    empty = mk_engine(4, 1, ["v"], [StepKernel(["v"])]).get_results()
    exc_digest("empty-samples", empty.get_samples, False)
    exc_digest("empty-posterior", empty.get_posterior_samples, False)
    exc_digest("empty-errlog", empty.get_error_log, False)
    out("empty-errlog-po", empty.get_error_log(posterior_only=True).is_none())
    exc_digest("empty-tuning-times", empty.get_tuning_times)


# --------------------------------------------------------------------------------
# builder
# --------------------------------------------------------------------------------


def jitter(key, val):
    return val + jax.random.uniform(key, val.shape, val.dtype, -1.0, 1.0)


def section_builder():
    out("== builder")
    out("dup", _find_duplicate(["a", "b", "a", "b"]).value, _find_duplicate([]).value)
    out("dup-none", _find_duplicate(["a", "b"]).is_none())

    def base(seed=3, chains=3, kernels=None):
        b = EngineBuilder(seed=seed, num_chains=chains)
        b.show_progress = False
        b.set_model(interface())
        b.set_initial_values(model_state0())
        for k in kernels if kernels is not None else [StepKernel(["x"]), gs.RWKernel(["v"])]:
            b.add_kernel(k)
        return b

    variants = {}

    b = base()
    b.set_epochs(
        [
            EpochConfig(EpochType.INITIAL_VALUES, 1, 1, None),
            EpochConfig(EpochType.FAST_ADAPTATION, 12, 1, None),
            EpochConfig(EpochType.BURNIN, 8, 3, None),
            EpochConfig(EpochType.POSTERIOR, 20, 4, None),
        ]
    )
    b.positions_included = ["z", "x", "m"]
    b.positions_excluded = ["v", "nonexistent"]
    b.store_kernel_states = True
    b.add_quantity_generator(Gen("q"))
    variants["incl-excl"] = b

    b = base(seed=jax.random.PRNGKey(5), chains=2)
    b.set_duration(warmup_duration=200, posterior_duration=30, term_duration=50, thinning_posterior=3, thinning_warmup=2)
    b.set_jitter_fns({"x": jitter, "m": jitter})
    b.minimize_transition_infos = True
    b.set_engine_seed(99)
    variants["stan-jitter"] = b

    b = base(chains=2, kernels=[StepKernel(["x", "v"])])
    b.set_epochs(
        [
            EpochConfig(EpochType.INITIAL_VALUES, 1, 1, None),
            EpochConfig(EpochType.POSTERIOR, 7, 7, None),
        ]
    )
    b.set_initial_values(pt.stack_leaves([model_state0(), model_state0()]), multiple_chains=True)
    b.set_engine_seed(jax.random.split(jax.random.PRNGKey(2), 2))
    b.set_jitter_fns({"x": jitter, "v": jitter})
    b.positions_excluded = ["x"]
    variants["multi-seed"] = b

    for name, b in variants.items():
        out(name, "epochs", [(int(e.type), e.duration, e.thinning) for e in b.epochs])
        tree_digest(name + " model_state", b.model_state.unwrap())
        out(name, "engine_seed", leaf_digest(b.engine_seed))
        out(name, "jitter-some", b.jitter_fns.is_some(), len(b.kernels), len(b.quantity_generators))
        eng = b.build()
        out(name, "chunk", eng._jitted_sample_duration, "keys", list(eng._position_keys))
        out(name, "kernel-ids", [k.identifier for k in b.kernels])
        out(name, "incl/excl after", b.positions_included, b.positions_excluded)
        tree_digest(name + " init-states", eng._model_states)
        eng.sample_all_epochs()
        results_digest(name, eng.get_results())
        flush_logs(name)

    # error paths
    b = base(kernels=[StepKernel(["x"]), StepKernel(["v", "x"])])
    b.set_epochs([EpochConfig(EpochType.INITIAL_VALUES, 1, 1, None), EpochConfig(EpochType.BURNIN, 6, 1, None), EpochConfig(EpochType.POSTERIOR, 9, 1, None)])
    exc_digest("dup-pos-key", b.build)
    b = base()
    b.set_epochs([EpochConfig(EpochType.INITIAL_VALUES, 1, 1, None), EpochConfig(EpochType.BURNIN, 6, 1, None), EpochConfig(EpochType.POSTERIOR, 9, 1, None)])
    b.add_quantity_generator(Gen("q"))
    b.add_quantity_generator(Gen("q"))
    exc_digest("dup-gen", b.build)
    b = base()
    exc_digest("no-epochs", b.build)
    b = EngineBuilder(1, 2)
    b.set_epochs([EpochConfig(EpochType.INITIAL_VALUES, 1, 1, None), EpochConfig(EpochType.BURNIN, 6, 1, None), EpochConfig(EpochType.POSTERIOR, 9, 1, None)])
    b.add_kernel(StepKernel(["x"]))
    exc_digest("no-model", b.build)
    b.set_model(interface())
    exc_digest("no-state", b.build)
    b = base()
    b.set_epochs([EpochConfig(EpochType.INITIAL_VALUES, 1, 1, None), EpochConfig(EpochType.BURNIN, 6, 1, None), EpochConfig(EpochType.POSTERIOR, 9, 1, None)])
    b.set_engine_seed(jax.random.split(jax.random.PRNGKey(2), 5))
    exc_digest("bad-seed", b.build, False)
    exc_digest("bad-seed-type", lambda: EngineBuilder("a", 2))
    b = base()
    b.set_epochs([EpochConfig(EpochType.INITIAL_VALUES, 1, 1, None)])
    rv = exc_digest("only-initial", b.build)
    if rv is not None:
        out("only-initial chunk", rv._jitted_sample_duration)
        rv.sample_all_epochs()
        tree_digest("only-initial samples", rv.get_results().get_samples())
    flush_logs("builder-errors")


def main():
    out("liesel-from-worktree-relative", "ok")
    section_pytree()
    section_chain()
    section_engine()
    section_builder()
    total = hashlib.sha256("\n".join(LINES).encode()).hexdigest()
    print("TOTAL", len(LINES), total)


if __name__ == "__main__":
    main()
    sys.stdout.flush()
