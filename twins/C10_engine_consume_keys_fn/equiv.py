"""
Deterministic exerciser for the seed / key / initial value plumbing of Goose
(EngineBuilder, Engine, KernelSequence).

Prints one line per scenario with a digest of everything that was computed, so
that two source trees can be compared with `diff`.  The worktree is taken from
PYTHONPATH / the current directory, nothing is hard-coded.
"""

import hashlib
import logging
import re
import warnings
from dataclasses import dataclass
from typing import ClassVar

import jax
import jax.numpy as jnp
import numpy as np

import liesel.goose as gs
from liesel.goose.builder import EngineBuilder
from liesel.goose.engine import Engine
from liesel.goose.epoch import EpochConfig, EpochType
from liesel.goose.interface import DictInterface
from liesel.goose.kernel import (
    DefaultTransitionInfo,
    ModelMixin,
    TransitionOutcome,
    TuningOutcome,
    WarmupOutcome,
)
from liesel.goose.kernel_sequence import KernelSequence
from liesel.goose.pytree import register_dataclass_as_pytree

warnings.simplefilter("ignore")


class _Collect(logging.Handler):
    def __init__(self):
        super().__init__(level=logging.DEBUG)
        self.records = []

    def emit(self, record):
        self.records.append(f"{record.name}|{record.levelname}|{record.getMessage()}")


LOG = _Collect()
_root = logging.getLogger("liesel")
_root.setLevel(logging.DEBUG)
_root.addHandler(LOG)
_root.propagate = False


# ---------------------------------------------------------------------------
# digest helpers


def digest(tree) -> str:
    h = hashlib.sha256()
    leaves, treedef = jax.tree_util.tree_flatten(tree)
    h.update(str(treedef).encode())
    for leaf in leaves:
        arr = np.asarray(leaf)
        h.update(str(arr.dtype).encode())
        h.update(str(arr.shape).encode())
        h.update(np.ascontiguousarray(arr).tobytes())
    return h.hexdigest()[:20]


def show(name, *parts):
    print(name, *parts, flush=True)


# ---------------------------------------------------------------------------
# an instrumented kernel that records every key it ever receives


@register_dataclass_as_pytree
@dataclass
class RecState:
    init_key: jax.Array
    start_key: jax.Array
    end_key: jax.Array
    tune_key: jax.Array
    warm_key: jax.Array
    calls: jax.Array


@register_dataclass_as_pytree
@dataclass
class RecInfo:
    error_code: int
    acceptance_prob: float
    position_moved: int
    key: jax.Array

    def minimize(self) -> DefaultTransitionInfo:
        return DefaultTransitionInfo(
            self.error_code, self.acceptance_prob, self.position_moved
        )


@register_dataclass_as_pytree
@dataclass
class RecTuneInfo:
    error_code: int
    time: int
    key: jax.Array
    hist_sum: jax.Array


class RecKernel(ModelMixin):
    error_book: ClassVar[dict[int, str]] = {0: "no errors", 1: "odd"}
    needs_history: bool = False
    identifier: str = ""

    def __init__(self, position_keys, needs_history=False, err=False, ident=""):
        self._model = None
        self.position_keys = tuple(position_keys)
        self.needs_history = needs_history
        self.err = err
        self.identifier = ident
        self.trace = []  # python-level call trace (order of hook invocations)

    def init_state(self, prng_key, model_state):
        self.trace.append("init")
        z = jnp.zeros_like(prng_key)
        return RecState(prng_key, z, z, z, z, jnp.array(0))

    def start_epoch(self, prng_key, kernel_state, model_state, epoch):
        self.trace.append("start")
        kernel_state.start_key = prng_key
        kernel_state.calls = kernel_state.calls + 1
        return kernel_state

    def end_epoch(self, prng_key, kernel_state, model_state, epoch):
        self.trace.append("end")
        kernel_state.end_key = prng_key
        kernel_state.calls = kernel_state.calls + 10
        return kernel_state

    def transition(self, prng_key, kernel_state, model_state, epoch):
        self.trace.append("trans")
        position = self.model.extract_position(self.position_keys, model_state)
        k = prng_key
        for name in position:
            k, sub = jax.random.split(k)
            step = 0.25 * jax.random.normal(sub, jnp.shape(position[name]))
            position[name] = position[name] + step
        new_state = self.model.update_state(position, model_state)
        kernel_state.calls = kernel_state.calls + 100
        ec = jnp.asarray(epoch.time % 7 == 3).astype(int) if self.err else 0
        info = RecInfo(ec, 1.0, 1, prng_key)
        return TransitionOutcome(info, kernel_state, new_state)

    def tune(self, prng_key, kernel_state, model_state, epoch, history):
        self.trace.append("tune")
        kernel_state.tune_key = prng_key
        hs = jnp.array(0.0)
        if history is not None:
            for name in sorted(history):
                hs = hs + jnp.sum(history[name])
        info = RecTuneInfo(0, epoch.time, prng_key, hs)
        return TuningOutcome(info, kernel_state)

    def end_warmup(self, prng_key, kernel_state, model_state, tuning_history):
        self.trace.append("warm" if tuning_history is None else "warm+hist")
        kernel_state.warm_key = prng_key
        ec = 1 if self.err else 0
        return WarmupOutcome(ec, kernel_state)


@register_dataclass_as_pytree
@dataclass
class Quant:
    error_code: int
    result: tuple


class RecQuantGen:
    error_book: ClassVar[dict[int, str]] = {0: "no errors"}

    def __init__(self, identifier):
        self.identifier = identifier
        self._has = False

    def set_model(self, model):
        self._has = True

    def has_model(self):
        return self._has

    def generate(self, prng_key, model_state, epoch):
        u = jax.random.normal(prng_key)
        return Quant(0, (u, prng_key, model_state["x"] * 2.0))


# ---------------------------------------------------------------------------
# scenario construction


def model():
    return DictInterface(lambda ms: -0.5 * jnp.sum(ms["x"] ** 2) - 0.5 * ms["y"] ** 2)


def epochs(a=6, b=4, c=8, thin=1):
    return [
        EpochConfig(EpochType.INITIAL_VALUES, 1, 1, None),
        EpochConfig(EpochType.FAST_ADAPTATION, a, 1, None),
        EpochConfig(EpochType.BURNIN, b, 1, None),
        EpochConfig(EpochType.POSTERIOR, c, thin, None),
    ]


def jit_uniform(key, val):
    return val + jax.random.uniform(key, val.shape, val.dtype, -1.0, 1.0)


def jit_normal(key, val):
    return val + 0.5 * jax.random.normal(key, val.shape, val.dtype)


def make_builder(
    seed,
    num_chains,
    init=None,
    multiple=False,
    jitter=None,
    ep=None,
    two_kernels=True,
    quants=0,
    store=False,
    minimize=False,
    history=False,
    err=False,
    include=(),
    exclude=(),
    engine_seed=None,
    progress=False,
):
    b = EngineBuilder(seed=seed, num_chains=num_chains)
    b.show_progress = progress
    b.set_epochs(ep if ep is not None else epochs())
    if init is None:
        init = {"x": jnp.array([0.5, -0.5]), "y": jnp.array(1.0)}
    b.set_initial_values(init, multiple_chains=multiple)
    if jitter is not None:
        b.set_jitter_fns(jitter)
    b.set_model(model())
    if two_kernels:
        b.add_kernel(RecKernel(["x"], needs_history=history, err=err))
        b.add_kernel(RecKernel(["y"]))
    else:
        b.add_kernel(RecKernel(["x", "y"], needs_history=history, err=err))
    for i in range(quants):
        b.add_quantity_generator(RecQuantGen(f"q{i}"))
    b.store_kernel_states = store
    b.minimize_transition_infos = minimize
    b.positions_included = list(include)
    b.positions_excluded = list(exclude)
    if engine_seed is not None:
        b.set_engine_seed(engine_seed)
    return b


def run(b):
    n0 = len(LOG.records)
    engine = b.build()
    built = {
        "seeds": engine._seeds,
        "init": engine._model_states,
        "kstates": engine._kernel_states,
        "poskeys": list(engine._position_keys),
        "jit": engine._jitted_sample_duration,
        "idents": [k.identifier for k in b.kernels],
    }
    engine.sample_all_epochs()
    res = engine.get_results()
    out = {
        "pos": res.positions.combine_all().unwrap(),
        "ti": res.transition_infos.combine_all().unwrap(),
        "tune": res.tuning_infos.unwrap().get().value,
        "ks": res.kernel_states.map(lambda c: c.combine_all().unwrap()).value,
        "gq": res.generated_quantities.map(lambda c: c.combine_all().unwrap()).value,
        "kcls": sorted(
            (k, v.__name__) for k, v in res.kernel_classes.unwrap().items()
        ),
        "kpos": sorted(res.kernels_by_pos_key.unwrap().items()),
        "final_key": engine._prng_key,
        "final_ms": engine._model_states,
        "final_ks": engine._kernel_states,
        "traces": [list(k.trace) for k in b.kernels],
        "done": engine.is_sampling_done(),
    }
    logs = LOG.records[n0:]
    return built, out, logs


def first_sample(out):
    return {k: np.asarray(v)[:, 0] for k, v in out["pos"].items()}


def report(name, b):
    built, out, logs = run(b)
    show(
        name,
        "built=" + digest({k: v for k, v in built.items() if k not in ("poskeys", "idents")}),
        "poskeys=" + ",".join(built["poskeys"]),
        "idents=" + ",".join(built["idents"]),
        "jit=%d" % built["jit"],
    )
    tr = out.pop("traces")
    kcls = out.pop("kcls")
    kpos = out.pop("kpos")
    done = out.pop("done")
    for k in sorted(out):
        show("   ", k, digest(out[k]))
    show("    traces", hashlib.sha256(repr(tr).encode()).hexdigest()[:16], [len(t) for t in tr])
    show("    kcls", kcls, "kpos", kpos, "done", done)
    show("    logs", hashlib.sha256("\n".join(logs).encode()).hexdigest()[:16], len(logs))
    for line in logs:
        if "WARNING" in line:
            show("      ", line)
    out["traces"] = tr
    return built, out


def expect_error(name, fn):
    try:
        fn()
    except Exception as e:  # noqa
        msg = re.sub(r"0x[0-9a-f]+", "0x?", str(e).replace("\n", " "))
        show(name, "raised", type(e).__name__, msg[:160])
    else:
        show(name, "no error")


def all_keys(out):
    """Collect every key handed to a kernel transition: (chain, time, kernel)."""
    ks = []
    for ident in sorted(out["ti"]):
        ks.append(np.asarray(out["ti"][ident].key))
    return np.stack(ks, axis=2)  # chain, time, kernel, 2


def main():
    # 1. reproducibility; int seed == key
    _, a = report("S1 int seed 3 chains jitter", make_builder(7, 3, jitter={"x": jit_uniform, "y": jit_normal}, quants=2, store=True))
    _, b = report("S1 same again", make_builder(7, 3, jitter={"x": jit_uniform, "y": jit_normal}, quants=2, store=True))
    _, c = report("S1 key seed", make_builder(jax.random.PRNGKey(7), 3, jitter={"x": jit_uniform, "y": jit_normal}, quants=2, store=True))
    show("S1 identical", digest(a["pos"]) == digest(b["pos"]) == digest(c["pos"]),
         digest(a["ti"]) == digest(b["ti"]) == digest(c["ti"]))
    keys = all_keys(a).reshape(-1, 2)
    show("S1 distinct keys", len({tuple(k) for k in keys.tolist()}) == keys.shape[0], keys.shape)

    # 2. one chain, no jitter, single kernel, chunk = gcd
    report("S2 one chain no jitter", make_builder(0, 1, two_kernels=False, ep=epochs(5, 5, 10)))
    report("S2 chunk 1", make_builder(11, 2, ep=epochs(3, 4, 5), minimize=True))
    report("S2 thinning", make_builder(11, 2, ep=epochs(6, 6, 12, thin=3), quants=1, include=["y"], exclude=["x"]))

    # 3. per-chain initial states; chain independence
    init3 = {"x": jnp.array([[0.0, 1.0], [2.0, 3.0], [4.0, 5.0]]), "y": jnp.array([0.1, 0.2, 0.3])}
    init3b = {"x": jnp.array([[0.0, 1.0], [2.0, 3.0], [-40.0, 50.0]]), "y": jnp.array([0.1, 0.2, 30.0])}
    _, m1 = report("S3 multiple_chains=True", make_builder(5, 3, init=init3, multiple=True, history=True, store=True))
    _, m2 = report("S3 perturbed chain 2", make_builder(5, 3, init=init3b, multiple=True, history=True, store=True))
    show("S3 first sample == init", all(np.array_equal(first_sample(m1)[k], np.asarray(init3[k])) for k in ("x", "y")))
    show("S3 chains 0,1 unaffected", all(np.array_equal(np.asarray(m1["pos"][k])[:2], np.asarray(m2["pos"][k])[:2]) for k in ("x", "y")))
    _, m3 = report("S3 multiple_chains + jitter on x only", make_builder(5, 3, init=init3, multiple=True, jitter={"x": jit_normal}))
    _, m4 = report("S3 jitter on y only (missing x)", make_builder(5, 3, init=init3, multiple=True, jitter={"y": jit_normal}))
    report("S3 empty jitter dict", make_builder(5, 2, jitter={}))
    report("S3 jitter for an untracked key", make_builder(5, 2, two_kernels=False, jitter={"y": jit_uniform, "x": jit_uniform}, include=["x"], exclude=["y"]))

    # 4. engine seed variants
    report("S4 engine seed int", make_builder(1, 2, engine_seed=99))
    report("S4 engine seed key", make_builder(1, 2, engine_seed=jax.random.PRNGKey(99)))
    report("S4 engine seed per chain", make_builder(1, 2, engine_seed=jax.random.split(jax.random.PRNGKey(3), 2)))
    report("S4 history + err + progress", make_builder(2, 2, history=True, err=True, progress=True, quants=1, store=True, minimize=True))

    # 5. error paths of builder
    expect_error("E seed float", lambda: EngineBuilder(seed=1.5, num_chains=2))
    expect_error("E seed str", lambda: EngineBuilder(seed="1", num_chains=2))
    expect_error("E seed np int", lambda: EngineBuilder(seed=np.int64(3), num_chains=2))
    expect_error("E seed bool", lambda: show("   keys", digest(EngineBuilder(seed=True, num_chains=2).engine_seed)))
    expect_error("E engine seed wrong chains", lambda: make_builder(1, 2, engine_seed=jax.random.split(jax.random.PRNGKey(3), 3)).build())

    def dup_pos():
        b = make_builder(1, 2)
        b.add_kernel(RecKernel(["y"]))
        b.build()

    def dup_quant():
        b = make_builder(1, 2, quants=1)
        b.add_quantity_generator(RecQuantGen("q0"))
        b.build()

    def dup_both_and_bad_seed():
        b = make_builder(1, 2, quants=1, engine_seed=jax.random.split(jax.random.PRNGKey(3), 3))
        b.add_quantity_generator(RecQuantGen("q0"))
        b.build()

    def no_model():
        b = EngineBuilder(1, 2)
        b.set_epochs(epochs())
        b.set_initial_values({"x": jnp.zeros(2), "y": jnp.array(0.0)})
        b.add_kernel(RecKernel(["x"]))
        b.build()

    def no_state():
        b = EngineBuilder(1, 2)
        b.set_epochs(epochs())
        b.set_model(model())
        k = RecKernel(["x"])
        b.add_kernel(k)
        try:
            b.build()
        finally:
            show("   side effects", k.has_model(), repr(k.identifier))

    def no_epochs():
        b = EngineBuilder(1, 2)
        b.set_model(model())
        b.add_kernel(RecKernel(["x"]))
        b.build()

    def dup_ident():
        b = make_builder(1, 2)
        for k in b.kernels:
            k.identifier = "same"
        b.build()

    def preset_ident():
        b = make_builder(1, 2)
        b.kernels[1].identifier = "mine"
        e = b.build()
        show("   idents", [k.identifier for k in e._kernel_sequence.get_kernels()])

    def bad_jitter():
        b = make_builder(1, 2, jitter={"nope": jit_uniform})
        b.build()

    expect_error("E duplicate position key", dup_pos)
    expect_error("E duplicate quantity ident", dup_quant)
    expect_error("E bad seed before dup ident", dup_both_and_bad_seed)
    expect_error("E no model", no_model)
    expect_error("E no state", no_state)
    expect_error("E no epochs", no_epochs)
    expect_error("E duplicate kernel ident", dup_ident)
    expect_error("E preset ident", preset_ident)
    expect_error("E jitter unknown key", bad_jitter)

    # 6. KernelSequence used directly
    con = model()
    k0, k1 = RecKernel(["x"], ident="a"), RecKernel(["y"], ident="b", err=True)
    k0.set_model(con)
    k1.set_model(con)
    seq = KernelSequence([k0, k1])
    ms = {"x": jnp.array([1.0, 2.0]), "y": jnp.array(0.0)}
    key = jax.random.PRNGKey(123)
    ep = EpochConfig(EpochType.FAST_ADAPTATION, 3, 1, None).to_state(1, 1)
    st = seq.init_states(key, ms)
    show("K init", digest(st))
    st = seq.start_epoch(key, st, ms, ep)
    show("K start", digest(st))
    tro = seq.transition(key, st, ms, ep)
    show("K trans", digest((tro.model_state, tro.kernel_states, tro.infos)), list(tro.infos))
    st = seq.end_epoch(key, tro.kernel_states, tro.model_state, ep)
    show("K end", digest(st))
    tu = seq.tune(key, st, tro.model_state, ep, {"x": jnp.ones((3, 2))})
    show("K tune", digest((tu.kernel_states, tu.infos)), list(tu.infos))
    w0 = seq.end_warmup(key, tu.kernel_states, ms, None)
    w1 = seq.end_warmup(key, tu.kernel_states, ms, tu.infos)
    show("K warm", digest((w0.kernel_states, w0.error_codes)), digest((w1.kernel_states, w1.error_codes)), list(w1.error_codes))
    show("K traces", k0.trace, k1.trace)
    expect_error("K short states start", lambda: seq.start_epoch(key, st[:1], ms, ep))
    expect_error("K short states trans", lambda: seq.transition(key, st[:1], ms, ep))
    expect_error("K short states warm", lambda: seq.end_warmup(key, st[:1], ms, None))
    expect_error("K long states", lambda: show("   ", digest(seq.end_epoch(key, st + st, ms, ep))))
    expect_error("K tuple states", lambda: show("   ", digest(seq.transition(key, tuple(st), ms, ep).kernel_states)))
    expect_error("K missing hist", lambda: seq.end_warmup(key, st, ms, {"a": tu.infos["a"]}))
    expect_error("K empty ident", lambda: KernelSequence([RecKernel(["x"])]))
    expect_error("K dup ident", lambda: KernelSequence([RecKernel(["x"], ident="a"), RecKernel(["y"], ident="a")]))
    empty = KernelSequence([])
    show("K empty", empty.init_states(key, ms), digest(empty.transition(key, [], ms, ep).model_state))

    # 7. Engine used directly (position_keys=None, default flags), partial sampling
    k0, k1 = RecKernel(["x"], ident="a"), RecKernel(["y"], ident="b")
    k0.set_model(con)
    k1.set_model(con)
    seeds = jax.random.split(jax.random.PRNGKey(4), 2)
    mss = {"x": jnp.array([[1.0, 2.0], [3.0, 4.0]]), "y": jnp.array([0.0, 1.0])}
    eng = Engine(seeds, mss, KernelSequence([k0, k1]), epochs(4, 4, 4), 2, con, None, show_progress=False)
    show("D keys0", digest(eng._prng_key), digest(eng._split_prng_key(3)), digest(eng._split_prng_key_one()), digest(eng._prng_key))
    eng.sample_next_epoch()
    expect_error("D no epoch", lambda: eng.current_epoch)
    eng.sample_next_epoch()
    eng.append_epoch(EpochConfig(EpochType.POSTERIOR, 6, 1, None))
    eng.sample_all_epochs()
    r = eng.get_results()
    show("D results", digest(r.positions.combine_all().unwrap()), digest(r.transition_infos.combine_all().unwrap()),
         r.kernel_states.is_none(), r.generated_quantities.is_none(), digest(eng._prng_key))
    eng2 = Engine(seeds, mss, KernelSequence([k0, k1]), epochs(4, 4, 4), 3, con, ["y"], show_progress=False)
    eng2.sample_next_epoch()
    expect_error("D bad chunk", eng2.sample_next_epoch)
    eng3 = Engine(seeds, mss, KernelSequence([k0, k1]), epochs(4, 4, 4), 2, con, ["y"], show_progress=False)
    eng3._start_epoch()
    expect_error("D active epoch", eng3._start_epoch)
    expect_error("D too long", lambda: eng3._sample_for_duration(5))


if __name__ == "__main__":
    main()
