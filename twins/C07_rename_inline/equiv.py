"""
Deterministic equivalence driver for the goose engine lifecycle (property C07).

Runs the Engine / EpochManager / KernelSequence / TransitionMixin / TuningMixin with
an instrumented kernel that folds EVERY argument of EVERY lifecycle call (prng key,
epoch clock, epoch config, history, tuning history) into a running uint32 hash that
is stored in the kernel state (-> store_kernel_states), in the position, in the
transition infos and in the tuning infos.  All results, exception types/messages and
log records are printed, followed by one sha256 over the whole output.

Usage:  PYTHONPATH=<worktree> python equiv.py        (no path is hard-coded)
"""

from __future__ import annotations

import hashlib
import io
import logging
import os
import sys
from dataclasses import dataclass

os.environ.setdefault("JAX_PLATFORMS", "cpu")

import jax  # noqa: E402
import jax.numpy as jnp  # noqa: E402
import numpy as np  # noqa: E402

import liesel  # noqa: E402
from liesel.goose.builder import EngineBuilder  # noqa: E402
from liesel.goose.engine import Engine, stack_for_multi  # noqa: E402
from liesel.goose.epoch import (  # noqa: E402
    EpochConfig,
    EpochManager,
    EpochState,
    EpochType,
)
from liesel.goose.interface import DictInterface  # noqa: E402
from liesel.goose.kernel import (  # noqa: E402
    TransitionMixin,
    TransitionOutcome,
    TuningMixin,
    TuningOutcome,
    WarmupOutcome,
)
from liesel.goose.kernel_sequence import KernelSequence  # noqa: E402
from liesel.goose.pytree import register_dataclass_as_pytree  # noqa: E402

OUT = io.StringIO()


def emit(*args):
    line = " ".join(str(a) for a in args)
    OUT.write(line + "\n")
    print(line)


# --------------------------------------------------------------------------------
# log capture (messages are part of the observable behaviour)
# --------------------------------------------------------------------------------


class ListHandler(logging.Handler):
    def __init__(self):
        super().__init__(level=logging.DEBUG)
        self.records: list[str] = []

    def emit(self, record):
        self.records.append(f"{record.name}|{record.levelname}|{record.getMessage()}")


LOG = ListHandler()
_lg = logging.getLogger("liesel")
for _h in list(_lg.handlers):
    _lg.removeHandler(_h)
_lg.addHandler(LOG)
_lg.setLevel(logging.DEBUG)
_lg.propagate = False


def flush_log(tag):
    emit(f"  log[{tag}] n={len(LOG.records)}")
    for r in LOG.records:
        emit("    " + r)
    LOG.records.clear()


# --------------------------------------------------------------------------------
# hashing helpers
# --------------------------------------------------------------------------------

U32 = jnp.uint32


def _to_u32(v):
    v = jnp.asarray(v)
    if jnp.issubdtype(v.dtype, jnp.floating):
        v = jax.lax.bitcast_convert_type(v.astype(jnp.float32), jnp.uint32)
    elif v.dtype == jnp.bool_:
        v = v.astype(jnp.uint32)
    else:
        v = v.astype(jnp.uint32)
    return v


def fold(h, *vals):
    for v in vals:
        v = _to_u32(v)
        if v.ndim == 0:
            h = (h * U32(16777619)) ^ v
        else:
            flat = v.reshape(-1)
            w = jnp.arange(1, flat.shape[0] + 1, dtype=jnp.uint32) * U32(2654435761)
            h = (h * U32(16777619)) ^ jnp.sum(flat * w, dtype=jnp.uint32)
            h = (h * U32(16777619)) ^ U32(flat.shape[0])
    return h


def fold_epoch(h, epoch: EpochState):
    cfg = epoch.config
    h = fold(
        h,
        cfg.type,
        cfg.duration,
        cfg.thinning,
        epoch.nth_epoch,
        epoch.time,
        epoch.time_before_epoch,
        epoch.time_in_epoch,
    )
    for leaf in jax.tree_util.tree_leaves(cfg.optional):
        h = fold(h, leaf)
    return h


def fold_tree(h, tree):
    if tree is None:
        return fold(h, 7)
    for leaf in jax.tree_util.tree_leaves(tree):
        h = fold(h, leaf)
    return fold(h, 11)


# --------------------------------------------------------------------------------
# instrumented kernel
# --------------------------------------------------------------------------------


@register_dataclass_as_pytree
@dataclass
class HState:
    h: jax.Array
    n_start: jax.Array
    n_end: jax.Array
    n_trans: jax.Array
    n_adaptive: jax.Array
    n_standard: jax.Array
    n_tune_fast: jax.Array
    n_tune_slow: jax.Array
    n_end_warmup: jax.Array
    last_time: jax.Array
    last_time_in_epoch: jax.Array


@register_dataclass_as_pytree
@dataclass
class HTransInfo:
    error_code: jax.Array
    acceptance_prob: jax.Array
    position_moved: jax.Array
    h: jax.Array
    adaptive: jax.Array
    time: jax.Array
    time_in_epoch: jax.Array

    def minimize(self):
        return HTransInfo(
            self.error_code,
            self.acceptance_prob,
            self.position_moved,
            U32(0),
            self.adaptive,
            self.time,
            self.time_in_epoch,
        )


@register_dataclass_as_pytree
@dataclass
class HTuneInfo:
    error_code: jax.Array
    time: jax.Array
    h: jax.Array
    slow: jax.Array
    hist_len: jax.Array


I32 = jnp.int32


class HashKernel(TransitionMixin[HState, HTransInfo], TuningMixin[HState, HTuneInfo]):
    error_book = {0: "no errors", 1: "synthetic"}

    def __init__(self, position_keys, identifier="", needs_history=False, salt=1):
        self.position_keys = tuple(position_keys)
        self.identifier = identifier
        self.needs_history = needs_history
        self._model = None
        self._salt = salt

    def __repr__(self):
        return f"HashKernel({self.position_keys!r}, {self.identifier!r})"

    def set_model(self, model):
        self._model = model

    def has_model(self):
        return self._model is not None

    def init_state(self, prng_key, model_state):
        z = I32(0)
        h = fold(U32(self._salt), 100, prng_key)
        for k in sorted(model_state):
            h = fold(h, model_state[k])
        return HState(h, z, z, z, z, z, z, z, z, I32(-1), I32(-1))

    def start_epoch(self, prng_key, kernel_state, model_state, epoch):
        h = fold(kernel_state.h, 200, prng_key)
        h = fold_epoch(h, epoch)
        for k in sorted(model_state):
            h = fold(h, model_state[k])
        kernel_state.h = h
        kernel_state.n_start = kernel_state.n_start + 1
        return kernel_state

    def end_epoch(self, prng_key, kernel_state, model_state, epoch):
        h = fold(kernel_state.h, 300, prng_key)
        h = fold_epoch(h, epoch)
        kernel_state.h = h
        kernel_state.n_end = kernel_state.n_end + 1
        return kernel_state

    def _do_transition(self, adaptive, prng_key, kernel_state, model_state, epoch):
        h = fold(kernel_state.h, 400 + adaptive, prng_key)
        h = fold_epoch(h, epoch)
        pos = self._model.extract_position(self.position_keys, model_state)
        new_pos = {}
        for k in self.position_keys:
            h = fold(h, pos[k])
            step = (h % U32(4096)).astype(jnp.float32) / jnp.float32(64.0)
            new_pos[k] = pos[k] * jnp.float32(0.5) + step - jnp.float32(31.7)
        new_ms = self._model.update_state(new_pos, model_state)
        st = HState(
            h,
            kernel_state.n_start,
            kernel_state.n_end,
            kernel_state.n_trans + 1,
            kernel_state.n_adaptive + adaptive,
            kernel_state.n_standard + (1 - adaptive),
            kernel_state.n_tune_fast,
            kernel_state.n_tune_slow,
            kernel_state.n_end_warmup,
            jnp.asarray(epoch.time, dtype=I32),
            jnp.asarray(epoch.time_in_epoch, dtype=I32),
        )
        info = HTransInfo(
            error_code=(h % U32(5) == 0).astype(I32),
            acceptance_prob=(h % U32(101)).astype(jnp.float32) / jnp.float32(100.0),
            position_moved=I32(1),
            h=h,
            adaptive=I32(adaptive),
            time=jnp.asarray(epoch.time, dtype=I32),
            time_in_epoch=jnp.asarray(epoch.time_in_epoch, dtype=I32),
        )
        return TransitionOutcome(info, st, new_ms)

    def _standard_transition(self, prng_key, kernel_state, model_state, epoch):
        return self._do_transition(0, prng_key, kernel_state, model_state, epoch)

    def _adaptive_transition(self, prng_key, kernel_state, model_state, epoch):
        return self._do_transition(1, prng_key, kernel_state, model_state, epoch)

    def _do_tune(self, slow, prng_key, kernel_state, model_state, epoch, history):
        h = fold(kernel_state.h, 500 + slow, prng_key)
        h = fold_epoch(h, epoch)
        hist_len = I32(-1)
        if history is None:
            h = fold(h, 13)
        else:
            for k in sorted(history):
                h = fold(h, history[k])
                hist_len = I32(history[k].shape[0])
        for k in sorted(model_state):
            h = fold(h, model_state[k])
        st = HState(
            h,
            kernel_state.n_start,
            kernel_state.n_end,
            kernel_state.n_trans,
            kernel_state.n_adaptive,
            kernel_state.n_standard,
            kernel_state.n_tune_fast + (1 - slow),
            kernel_state.n_tune_slow + slow,
            kernel_state.n_end_warmup,
            kernel_state.last_time,
            kernel_state.last_time_in_epoch,
        )
        info = HTuneInfo(
            error_code=(h % U32(3) == 0).astype(I32),
            time=jnp.asarray(epoch.time, dtype=I32),
            h=h,
            slow=I32(slow),
            hist_len=hist_len,
        )
        return TuningOutcome(info, st)

    def _tune_fast(self, prng_key, kernel_state, model_state, epoch, history):
        return self._do_tune(0, prng_key, kernel_state, model_state, epoch, history)

    def _tune_slow(self, prng_key, kernel_state, model_state, epoch, history):
        return self._do_tune(1, prng_key, kernel_state, model_state, epoch, history)

    def end_warmup(self, prng_key, kernel_state, model_state, tuning_history):
        h = fold(kernel_state.h, 600, prng_key)
        h = fold_tree(h, tuning_history)
        for k in sorted(model_state):
            h = fold(h, model_state[k])
        kernel_state.h = h
        kernel_state.n_end_warmup = kernel_state.n_end_warmup + 1
        return WarmupOutcome((h % U32(2) == 0).astype(I32), kernel_state)


class HashQuant:
    error_book = {0: "no errors"}

    def __init__(self, identifier):
        self.identifier = identifier

    def set_model(self, model):
        pass

    def has_model(self):
        return True

    def generate(self, prng_key, model_state, epoch):
        h = fold(U32(5), prng_key)
        h = fold_epoch(h, epoch)
        for k in sorted(model_state):
            h = fold(h, model_state[k])

        return _QUANT(I32(0), h)


@register_dataclass_as_pytree
@dataclass
class _QUANT:
    error_code: jax.Array
    result: jax.Array


# --------------------------------------------------------------------------------
# result digests
# --------------------------------------------------------------------------------


def tree_digest(tree):
    leaves, treedef = jax.tree_util.tree_flatten(tree)
    m = hashlib.sha256()
    m.update(str(treedef).encode())
    for leaf in leaves:
        a = np.asarray(leaf)
        m.update(str(a.dtype).encode())
        m.update(str(a.shape).encode())
        m.update(np.ascontiguousarray(a).tobytes())
    return m.hexdigest()[:20], [tuple(np.asarray(x).shape) for x in leaves][:4]


def opt_digest(opt):
    if opt.is_none():
        return "None"
    return tree_digest(opt.unwrap())


def describe_results(tag, engine: Engine):
    res = engine.get_results()
    emit(f"  [{tag}] sampling_done={engine.is_sampling_done()}")
    emit(f"  [{tag}] positions        ", opt_digest(res.positions.combine_all()))
    emit(
        f"  [{tag}] transition_infos ",
        opt_digest(res.transition_infos.combine_all()),
    )
    emit(f"  [{tag}] tuning_infos     ", opt_digest(res.tuning_infos.unwrap().get()))
    if res.kernel_states.is_some():
        ks = res.kernel_states.unwrap().combine_all()
        emit(f"  [{tag}] kernel_states    ", opt_digest(ks))
        if ks.is_some():
            for i, st in enumerate(ks.unwrap()):
                for field in (
                    "n_start",
                    "n_end",
                    "n_trans",
                    "n_adaptive",
                    "n_standard",
                    "n_tune_fast",
                    "n_tune_slow",
                    "n_end_warmup",
                    "last_time",
                    "last_time_in_epoch",
                ):
                    arr = np.asarray(getattr(st, field))
                    emit(f"    k{i}.{field:<19}", arr[0].tolist())
    else:
        emit(f"  [{tag}] kernel_states     not stored")
    if res.generated_quantities.is_some():
        emit(
            f"  [{tag}] quantities       ",
            opt_digest(res.generated_quantities.unwrap().combine_all()),
        )
    emit(f"  [{tag}] final kernel st  ", tree_digest(engine._kernel_states))
    emit(f"  [{tag}] final model st   ", tree_digest(engine._model_states))
    emit(f"  [{tag}] final prng key   ", tree_digest(engine._prng_key))
    emit(f"  [{tag}] warmup_has_ended ", engine._warmup_has_ended)
    tinf = res.tuning_infos.unwrap().get()
    if tinf.is_some():
        for kid, ti in tinf.unwrap().items():
            emit(
                f"    tune {kid}: time={np.asarray(ti.time)[0].tolist()} "
                f"slow={np.asarray(ti.slow)[0].tolist()} "
                f"hist_len={np.asarray(ti.hist_len)[0].tolist()}"
            )
    tis = res.transition_infos.combine_all()
    if tis.is_some():
        for kid, ti in tis.unwrap().items():
            emit(
                f"    trans {kid}: time={np.asarray(ti.time)[0].tolist()} "
                f"tie={np.asarray(ti.time_in_epoch)[0].tolist()} "
                f"adaptive={np.asarray(ti.adaptive)[0].tolist()}"
            )
    try:
        emit(f"  [{tag}] tuning_times     ", res.get_tuning_times())
    except Exception as e:  # noqa: BLE001
        emit(f"  [{tag}] tuning_times      EXC {type(e).__name__}: {e}")


def attempt(tag, f):
    try:
        r = f()
        if r is None or isinstance(r, (int, str, bool, list, tuple)):
            emit(f"  <{tag}> ok -> {r!r}")
        else:
            emit(f"  <{tag}> ok -> instance of {type(r).__name__}")
        return r
    except Exception as e:  # noqa: BLE001
        emit(f"  <{tag}> EXC {type(e).__name__}: {e}")
        return None


# --------------------------------------------------------------------------------
# engine construction
# --------------------------------------------------------------------------------

IV = EpochType.INITIAL_VALUES
FA = EpochType.FAST_ADAPTATION
SA = EpochType.SLOW_ADAPTATION
BU = EpochType.BURNIN
PO = EpochType.POSTERIOR


def cfg(t, d, th=1, opt=None):
    return EpochConfig(t, d, th, opt)


def make_model():
    return DictInterface(lambda ms: -0.5 * ms["x"] ** 2 - 0.5 * ms["y"] ** 2)


def make_engine(
    epochs,
    chunk,
    chains,
    kernel_specs,
    *,
    position_keys=("x", "y"),
    store=True,
    minimize=False,
    quants=(),
    show_progress=False,
    seed=0,
):
    model = make_model()
    ms = {"x": jnp.float32(1.25), "y": jnp.float32(-0.5), "z": jnp.float32(3.0)}
    mss = stack_for_multi([ms for _ in range(chains)])
    kernels = []
    for i, (keys, needs_hist) in enumerate(kernel_specs):
        k = HashKernel(keys, f"ker{i}", needs_history=needs_hist, salt=i + 1)
        k.set_model(model)
        kernels.append(k)
    seeds = jax.random.split(jax.random.PRNGKey(seed), chains)
    return Engine(
        seeds,
        mss,
        KernelSequence(kernels),
        epochs,
        chunk,
        model,
        None if position_keys is None else list(position_keys),
        minimize_transition_infos=minimize,
        store_kernel_states=store,
        quantity_generators=[HashQuant(q) for q in quants],
        show_progress=show_progress,
    )


# --------------------------------------------------------------------------------
# scenarios
# --------------------------------------------------------------------------------


def scen_full_schedules():
    emit("== scenario: full schedules via sample_all_epochs")
    schedules = {
        "A": (
            [cfg(IV, 1), cfg(FA, 3), cfg(SA, 4), cfg(BU, 2), cfg(PO, 5)],
            1,
            1,
            [(["x", "y"], False)],
        ),
        "B": (
            [cfg(IV, 1), cfg(SA, 4), cfg(FA, 2), cfg(SA, 6), cfg(PO, 4), cfg(PO, 2)],
            2,
            3,
            [(["x"], False), (["y"], True)],
        ),
        "C": ([cfg(IV, 1), cfg(PO, 3)], 3, 2, [(["x"], True), (["y"], True)]),
        "D": (
            [cfg(IV, 1), cfg(BU, 6, 3), cfg(PO, 6, 2, {"a": jnp.float32(2.5)})],
            3,
            2,
            [(["y"], False), (["x"], False), (["z"], True)],
        ),
        "E": ([cfg(IV, 1), cfg(FA, 1), cfg(BU, 1), cfg(PO, 1)], 1, 4, [(["x"], True)]),
    }
    for name, (epochs, chunk, chains, kspecs) in schedules.items():
        for store, minimize, quants, pk in (
            (True, False, (), ("x", "y")),
            (False, True, ("q0", "q1"), None),
        ):
            tag = f"{name}/store={store}/min={minimize}/q={len(quants)}/pk={pk}"
            emit(" config", tag)
            eng = make_engine(
                list(epochs),
                chunk,
                chains,
                kspecs,
                position_keys=pk,
                store=store,
                minimize=minimize,
                quants=quants,
            )
            attempt("current_epoch before", lambda: eng.current_epoch)
            eng.sample_all_epochs()
            attempt("current_epoch after", lambda: eng.current_epoch)
            describe_results(tag, eng)
            attempt("sample_next_epoch exhausted", eng.sample_next_epoch)
            attempt("sample_all_epochs exhausted", eng.sample_all_epochs)
            describe_results(tag + "/after", eng)
            flush_log(tag)


def scen_incremental():
    emit("== scenario: append_epoch / sample_next_epoch interleavings")
    epochs = [cfg(IV, 1), cfg(FA, 2), cfg(SA, 4), cfg(BU, 2), cfg(PO, 4), cfg(PO, 2)]
    kspecs = [(["x"], True), (["y"], False)]

    eng0 = make_engine(list(epochs), 2, 2, kspecs, quants=("q",))
    eng0.sample_all_epochs()
    describe_results("all-at-once", eng0)

    eng1 = make_engine([epochs[0]], 2, 2, kspecs, quants=("q",))
    eng1.sample_next_epoch()
    emit("  done after IV:", eng1.is_sampling_done())
    for e in epochs[1:]:
        eng1.append_epoch(e)
        emit("  done after append:", eng1.is_sampling_done())
        eng1.sample_next_epoch()
        emit(
            "  done after sample:",
            eng1.is_sampling_done(),
            "warmup_ended:",
            eng1._warmup_has_ended,
        )
    describe_results("one-by-one", eng1)

    eng2 = make_engine(epochs[:3], 2, 2, kspecs, quants=("q",))
    eng2.sample_next_epoch()
    eng2.append_epoch(epochs[3])
    eng2.sample_all_epochs()
    eng2.append_epoch(epochs[4])
    eng2.append_epoch(epochs[5])
    eng2.sample_next_epoch()
    eng2.sample_all_epochs()
    describe_results("mixed", eng2)

    # appending invalid epochs to a running engine
    attempt("append warmup after posterior", lambda: eng2.append_epoch(cfg(BU, 2)))
    attempt("append IV again", lambda: eng2.append_epoch(cfg(IV, 1)))
    attempt("append duration 0", lambda: eng2.append_epoch(cfg(PO, 0)))
    attempt("sample exhausted", eng2.sample_next_epoch)
    eng2.append_epoch(cfg(PO, 2))
    eng2.sample_all_epochs()
    describe_results("mixed+1", eng2)
    flush_log("incremental")


def scen_errors():
    emit("== scenario: error paths of the engine")
    # chunk does not divide duration
    eng = make_engine([cfg(IV, 1), cfg(BU, 5), cfg(PO, 2)], 2, 2, [(["x"], False)])
    eng.sample_next_epoch()
    attempt("non-multiple duration", eng.sample_next_epoch)
    attempt("epoch still active", eng.sample_next_epoch)
    attempt("sample_all while active", eng.sample_all_epochs)
    attempt("current_epoch nth", lambda: int(eng.current_epoch.nth_epoch))
    attempt("time_left", lambda: int(eng.current_epoch.time_left()))
    attempt("too long", lambda: eng._sample_for_duration(duration=6))
    attempt("manual 4", lambda: eng._sample_for_duration(duration=4))
    attempt("time_left", lambda: int(eng.current_epoch.time_left()))
    attempt("manual 2 (too long now)", lambda: eng._sample_for_duration(duration=2))
    attempt("end epoch", eng._end_epoch)
    attempt("current_epoch", lambda: eng.current_epoch)
    describe_results("errors", eng)
    attempt("next (posterior)", eng.sample_next_epoch)
    describe_results("errors/2", eng)

    # engine without any epoch
    e0 = attempt("no epochs", lambda: make_engine([], 1, 1, [(["x"], False)]))
    emit("  done:", e0.is_sampling_done())
    attempt("no epochs: sample_next_epoch", e0.sample_next_epoch)
    attempt("no epochs: sample_all_epochs", e0.sample_all_epochs)
    attempt("no epochs: append non-IV", lambda: e0.append_epoch(cfg(PO, 2)))
    e0.append_epoch(cfg(IV, 1))
    e0.append_epoch(cfg(PO, 2))
    e0.sample_all_epochs()
    describe_results("late-epochs", e0)
    attempt(
        "first not IV", lambda: make_engine([cfg(BU, 1)], 1, 1, [(["x"], False)])
    )
    e3 = attempt("epochs=IV only", lambda: make_engine([cfg(IV, 1)], 1, 1, [(["x"], 0)]))
    e3.sample_all_epochs()
    describe_results("iv-only", e3)
    attempt("exhausted", e3.sample_next_epoch)
    flush_log("errors")


def scen_progress():
    emit("== scenario: show_progress=True (log messages, error-count warnings)")
    stderr = sys.stderr
    sys.stderr = io.StringIO()  # tqdm bar
    try:
        eng = make_engine(
            [cfg(IV, 1), cfg(FA, 4), cfg(SA, 6), cfg(BU, 2), cfg(PO, 6)],
            2,
            3,
            [(["x"], True), (["y"], False)],
            show_progress=True,
            quants=("q",),
        )
        eng.sample_all_epochs()
    finally:
        sys.stderr = stderr
    describe_results("progress", eng)
    flush_log("progress")


def scen_builder():
    emit("== scenario: EngineBuilder (caller)")
    b = EngineBuilder(seed=3, num_chains=2)
    b.set_epochs([cfg(IV, 1), cfg(FA, 4), cfg(SA, 6), cfg(BU, 2), cfg(PO, 8, 2)])
    b.set_initial_values(
        {"x": jnp.float32(0.5), "y": jnp.float32(1.5), "z": jnp.float32(0.0)}
    )
    b.set_model(make_model())
    b.add_kernel(HashKernel(["x"], needs_history=True, salt=9))
    b.add_kernel(HashKernel(["y"], needs_history=False, salt=10))
    b.add_quantity_generator(HashQuant("q"))
    b.store_kernel_states = True
    b.show_progress = False
    eng = b.build()
    emit("  jitted duration:", eng._jitted_sample_duration)
    eng.sample_all_epochs()
    describe_results("builder", eng)
    flush_log("builder")


def scen_epoch_manager():
    emit("== scenario: EpochManager directly")

    def show(state):
        return (
            int(state.config.type),
            state.config.duration,
            state.config.thinning,
            state.nth_epoch,
            state.time,
            state.time_before_epoch,
            state.time_in_epoch,
            state.time_left(),
        )

    em = EpochManager(None)
    emit("  empty has_more:", em.has_more())
    attempt("next on empty", em.next)
    emit("  ptr/time:", em._next_epoch_ptr, em._next_start_time, em._nth_epoch)
    em = EpochManager(iter([cfg(IV, 1), cfg(FA, 3), cfg(BU, 4, 2)]))
    while em.has_more():
        emit("  next:", show(em.next()))
    attempt("next exhausted", em.next)
    emit("  ptr/time:", em._next_epoch_ptr, em._next_start_time, em._nth_epoch)
    em.append(cfg(PO, 6, 3))
    emit("  has_more:", em.has_more())
    st = em.next()
    emit("  next:", show(st))
    st.advance_time(2)
    emit("  advanced:", show(st))
    emit("  ptr/time:", em._next_epoch_ptr, em._next_start_time, em._nth_epoch)

    bad = {
        "first-not-iv": [cfg(PO, 1)],
        "two-iv": [cfg(IV, 1), cfg(IV, 1)],
        "iv-dur-2": [cfg(IV, 2)],
        "iv-dur-0": [cfg(IV, 0)],
        "warmup-after-post": [cfg(IV, 1), cfg(PO, 2), cfg(BU, 2)],
        "fast-after-post": [cfg(IV, 1), cfg(PO, 2), cfg(FA, 2)],
        "dur-0": [cfg(IV, 1), cfg(BU, 0)],
        "dur-neg": [cfg(IV, 1), cfg(PO, -2)],
        "thin-0": [cfg(IV, 1), cfg(BU, 2, 0)],
        "iv-thin-0": [cfg(IV, 1, 0)],
        "iv-thin-2": [cfg(IV, 1, 2)],
        "thin-gt-dur": [cfg(IV, 1), cfg(BU, 2, 3)],
        "post-thin-nondiv": [cfg(IV, 1), cfg(PO, 5, 2)],
        "burnin-thin-nondiv-ok": [cfg(IV, 1), cfg(BU, 5, 2)],
        "post-thin-div-ok": [cfg(IV, 1), cfg(PO, 6, 2), cfg(PO, 1)],
        "dur0-after-post-warmup": [cfg(IV, 1), cfg(PO, 1), cfg(SA, 0)],
    }
    for name, cs in bad.items():

        def run(cs=cs):
            m = EpochManager(cs)
            return [(int(c.type), c.duration, c.thinning) for c in m._configs]

        attempt(name, run)

    # partial failure leaves earlier configs appended
    m = EpochManager([cfg(IV, 1)])
    attempt("bad append", lambda: m.append(cfg(BU, 2, 3)))
    emit("  configs kept:", len(m._configs), "has_more:", m.has_more())


def scen_kernel_sequence():
    emit("== scenario: KernelSequence / mixins called directly (no engine, no jit)")
    model = make_model()
    attempt("empty identifier", lambda: KernelSequence([HashKernel(["x"], "")]))
    attempt(
        "duplicate identifier",
        lambda: KernelSequence([HashKernel(["x"], "a"), HashKernel(["y"], "a")]),
    )
    attempt("empty sequence", lambda: len(KernelSequence([]).get_kernels()))

    kernels = [
        HashKernel(["x"], "a", needs_history=True, salt=3),
        HashKernel(["y"], "b", salt=4),
        HashKernel(["x", "y"], "c", salt=5),
    ]
    for k in kernels:
        k.set_model(model)
    seq = KernelSequence(kernels)
    emit("  get_kernels is list of same objects:", seq.get_kernels() == kernels)
    ms = {"x": jnp.float32(0.25), "y": jnp.float32(-2.0)}
    key = jax.random.PRNGKey(42)
    states = seq.init_states(key, ms)
    emit("  init_states", type(states).__name__, len(states), tree_digest(states))

    empty = KernelSequence([])
    attempt("empty.init_states", lambda: empty.init_states(key, ms))
    attempt(
        "empty.start_epoch",
        lambda: empty.start_epoch(key, [], ms, cfg(BU, 2).to_state(1, 1)),
    )
    attempt(
        "empty.end_epoch",
        lambda: empty.end_epoch(key, [], ms, cfg(BU, 2).to_state(1, 1)),
    )
    attempt(
        "empty.end_warmup",
        lambda: tree_digest(empty.end_warmup(key, [], ms, None)),
    )

    tuning_hist = None
    tune_infos = []
    for nth, (t, tb) in enumerate(
        [(FA, 1), (SA, 4), (BU, 9), (PO, 12), (IV, 0)], start=1
    ):
        ep = cfg(t, 3).to_state(nth, tb)
        k1, k2, k3, k4, key = jax.random.split(key, 5)
        states = seq.start_epoch(k1, states, ms, ep)
        emit(f"  {t.name} start_epoch", type(states).__name__, tree_digest(states))
        for _ in range(2):
            k2, sub = jax.random.split(k2)
            out = seq.transition(sub, states, ms, ep)
            ep.advance_time(1)
            states, ms = out.kernel_states, out.model_state
            emit(
                f"  {t.name} transition",
                list(out.infos.keys()),
                tree_digest(out),
                [int(i.adaptive) for i in out.infos.values()],
            )
        states = seq.end_epoch(k3, states, ms, ep)
        emit(f"  {t.name} end_epoch", type(states).__name__, tree_digest(states))
        hist = {"x": jnp.arange(3, dtype=jnp.float32), "y": jnp.ones(3, jnp.float32)}
        for history in (None, hist):
            tout = seq.tune(k4, states, ms, ep, history)
            emit(
                f"  {t.name} tune hist={history is not None}",
                list(tout.infos.keys()),
                tree_digest(tout),
                [(int(i.slow), int(i.hist_len)) for i in tout.infos.values()],
            )
        states = tout.kernel_states
        tune_infos.append(tout.infos)
        for th in (None, tout.infos):
            wout = seq.end_warmup(key, states, ms, th)
            emit(
                f"  {t.name} end_warmup th={th is not None}",
                list(wout.error_codes.keys()),
                tree_digest(wout),
            )
    attempt(
        "end_warmup missing kernel id",
        lambda: seq.end_warmup(key, states, ms, {"a": tune_infos[0]["a"]}),
    )
    attempt(
        "start_epoch short state list",
        lambda: seq.start_epoch(key, states[:2], ms, cfg(BU, 2).to_state(1, 1)),
    )
    attempt(
        "end_epoch short state list",
        lambda: seq.end_epoch(key, states[:1], ms, cfg(BU, 2).to_state(1, 1)),
    )
    long_states = states + states
    r = seq.start_epoch(key, long_states, ms, cfg(BU, 2).to_state(1, 1))
    emit("  start_epoch long state list ->", len(r), tree_digest(r))

    # mixin dispatch on every epoch type, eager and jitted
    ker = kernels[0]
    st = ker.init_state(key, ms)
    for t in (IV, FA, SA, BU, PO):
        ep = cfg(t, 2).to_state(1, 5)
        o = ker.transition(key, st, ms, ep)
        oj = jax.jit(ker.transition)(key, st, ms, ep)
        tu = ker.tune(key, st, ms, ep, None)
        tuj = jax.jit(ker.tune)(key, st, ms, ep, {"x": jnp.zeros(2, jnp.float32)})
        emit(
            f"  mixin {t.name}: adaptive={int(o.info.adaptive)}/{int(oj.info.adaptive)}"
            f" slow={int(tu.info.slow)}/{int(tuj.info.slow)}",
            tree_digest(o),
            tree_digest(oj),
            tree_digest(tu),
            tree_digest(tuj),
        )
        emit(
            "   is_adaptation/is_warmup:",
            repr(EpochType.is_adaptation(t)),
            repr(EpochType.is_warmup(t)),
        )


def main():
    emit("liesel imported from a path ending in:", os.sep.join(liesel.__file__.split(os.sep)[-2:]))
    emit("jax x64:", jax.config.jax_enable_x64)
    scen_epoch_manager()
    scen_kernel_sequence()
    scen_full_schedules()
    scen_incremental()
    scen_errors()
    scen_progress()
    scen_builder()
    flush_log("final")
    digest = hashlib.sha256(OUT.getvalue().encode()).hexdigest()
    print("TOTAL-DIGEST", digest)


if __name__ == "__main__":
    main()
