"""
C04 -- every built-in kernel leaves the target distribution invariant.

Distributional invariance itself quantifies over distributions of runtime values and
is NOT decided.  Decided: the structural conditions named by the anchors, each of which
is necessary (breaking it changes the target or the move).
"""

from __future__ import annotations

import ast

from ..core.cfg import CFG, ENTRY, EXIT
from ..core.terms import (c, evaluate, fn_name, kw, make_inliner, n, pretty, subterms,
                          unwrap_callable)
from .common import LIB_FACTS, is_call, kernel_classes, method, short

SELF = n("self")
MS = n("model_state")
MODEL_T = ("a", SELF, "model")


def check(ctx):
    repo = ctx.repo
    ctx.rule("R1", "density closure: the function handed to blackjax / autodiff evaluates "
                   "model.log_prob of the state updated with the closure's OWN argument on "
                   "top of the transition's model state.")
    ctx.rule("R2", "NUTS/HMC build the blackjax state and the log-density from the same, "
                   "current model state in every transition and bind step size, inverse "
                   "mass matrix and trajectory length from the kernel state / kernel.")
    ctx.rule("R3", "the new blackjax position is written back with update_state on the "
                   "transition's input state.")
    ctx.rule("R4", "the builder rejects kernels that claim the same position key.")
    ctx.trust(LIB_FACTS["blackjax"])
    ctx.undecided("distributional invariance / exactness of the kernels (value-level; the "
                  "MH-type kernels' acceptance rule and corrections are C05 and C06, the "
                  "Gibbs conditionals C13)")

    mm = repo.cls("liesel.goose.kernel.ModelMixin")
    lpf = method(repo, mm, "log_prob_fn", own=True)
    inner = lpf.nested("log_prob_fn")
    rt = evaluate(repo, inner).ret()
    p = n(inner.params()[0])
    want = ("call", ("a", MODEL_T, "log_prob"),
            (("call", ("a", MODEL_T, "update_state"), (p, MS), ()),), ())
    ok = rt is not None and rt[0] == "call" and rt[1] == ("a", MODEL_T, "log_prob") \
        and len(rt[2]) == 1 and rt[2][0][0] == "call" \
        and rt[2][0][1] == ("a", MODEL_T, "update_state") \
        and kw(rt[2][0], "position", 0) == p and kw(rt[2][0], "model_state", 1) == MS
    ctx.ob("C04.R1", inner, "log_prob_fn(position) = model.log_prob(model.update_state("
                            "position, model_state)) -- the density of the block at the "
                            "argument, not of the old state", ok, detail=short(rt or ()),
           stmt="density closure " + pretty(rt or ())[:160])
    outer = evaluate(repo, lpf).ret()
    ctx.ob("C04.R1", lpf, "ModelMixin.log_prob_fn returns that closure",
           outer == ("fn", inner.qualname), detail=short(outer or ()))
    pos = method(repo, mm, "position", own=True)
    rp = evaluate(repo, pos).ret()
    ctx.ob("C04.R1", pos, "the kernel's position is the model's extract_position of its own "
                          "position keys",
           rp == ("call", ("a", MODEL_T, "extract_position"),
                  (("a", SELF, "position_keys"), MS), ()), detail=short(rp or ()))

    kernels = kernel_classes(repo)
    bj = {nm: ci for nm, ci in kernels.items() if repo.lookup_method(ci, "_blackjax_state")}
    ctx.require_min("blackjax-backed kernels", len(bj), 2)
    for nm, ci in sorted(bj.items()):
        allow = lambda f: f.name in ("_blackjax_state",)  # noqa: E731
        props = lambda a: repo.lookup_method(ci, a, "getter") if a == "_blackjax_kernel" else None  # noqa
        st = method(repo, ci, "_standard_transition", own=True)
        r = evaluate(repo, st, inline=make_inliner(repo, self_class=ci, allow=allow),
                     inline_depth=2, props=props)
        lp = ("call", ("a", SELF, "log_prob_fn"), (MS,), ())
        position = ("call", ("a", SELF, "position"), (MS,), ())
        steps = [t for t, _, _ in r.calls if t[0] == "call" and t[1][0] == "a"
                 and t[1][2] == "step"]
        ok_one = len(steps) == 1
        ctx.ob("C04.R2", st, "one blackjax step per transition", ok_one,
               detail=f"{len(steps)} step calls")
        if not ok_one:
            continue
        step = steps[0]
        key_a = kw(step, "rng_key", 0)
        state_a = kw(step, "state", 1)
        ok_state = (state_a is not None and state_a[0] == "call"
                    and (fn_name(state_a[1]) or "").endswith(".init")
                    and kw(state_a, "position", 0) == position
                    and kw(state_a, "logdensity_fn", 1) == lp)
        ctx.ob("C04.R2", st, "the blackjax state is initialised in this transition from "
                             "self.position(model_state) and self.log_prob_fn(model_state) "
                             "(the current state of ALL blocks; nothing cached from an "
                             "earlier iteration)", ok_state,
               detail=f"state argument {short(state_a or (), 160)}",
               stmt="blackjax state " + pretty(state_a or ())[:160])
        ctx.ob("C04.R2", st, "the step consumes the transition's key",
               key_a == n("prng_key"), detail=short(key_a or ()))
        kern = step[1][1]
        base = unwrap_callable(kern[1]) if kern[0] == "call" else None
        ks = n("kernel_state")
        binds = dict(kern[3]) if kern[0] == "call" else {}
        # functools.partial(kernel, max_num_doublings=...) contributes keywords too
        extra = {}
        if kern[0] == "call" and is_call(kern[1], "functools.partial"):
            extra = dict(kern[1][3])
        ok_b = (binds.get("logdensity_fn") == lp
                and binds.get("step_size") == ("a", ks, "step_size")
                and binds.get("inverse_mass_matrix") == ("a", ks, "inverse_mass_matrix"))
        traj = None
        if "num_integration_steps" in binds:
            traj = binds["num_integration_steps"] == ("a", SELF, "num_integration_steps")
        elif "max_num_doublings" in extra:
            traj = extra["max_num_doublings"] == ("a", SELF, "max_treedepth")
        elif "max_num_doublings" in binds:
            # partial(kernel, max_num_doublings=...)(...) in its merged normal form
            traj = binds["max_num_doublings"] == ("a", SELF, "max_treedepth")
        ctx.ob("C04.R2", st, "the blackjax kernel is built with the same log-density, the "
                             "kernel state's step size and inverse mass matrix, and the "
                             "kernel's trajectory-length setting", ok_b and traj is True,
               detail=f"bindings { {k: pretty(v)[:50] for k, v in {**extra, **binds}.items()} }",
               stmt="kernel bindings")
        # R3
        rt = r.ret()
        ms_out = kw(rt, "model_state", 2) if rt is not None and rt[0] == "call" else None
        new_pos = ("a", ("proj", step, 0), "position")
        ok_w = (ms_out is not None and ms_out[0] == "call"
                and ms_out[1] == ("a", MODEL_T, "update_state")
                and kw(ms_out, "position", 0) == new_pos and kw(ms_out, "model_state", 1) == MS)
        ctx.ob("C04.R3", st, "the outcome's model state is update_state(new blackjax "
                             "position, input model state)", ok_w,
               detail=short(ms_out or (), 160), stmt="write-back " + pretty(ms_out or ())[:160])
        info_a = kw(rt, "info", 0) if rt is not None and rt[0] == "call" else None
        ctx.ob("C04.R3", st, "the reported info is derived from this step's blackjax info",
               info_a is not None and any(x == ("proj", step, 1) for x in subterms(info_a)),
               detail=short(info_a or (), 100))
        # init_state
        ini = method(repo, ci, "init_state", own=True)
        ri = evaluate(repo, ini, inline=make_inliner(repo, self_class=ci, allow=allow),
                      inline_depth=2, props=props)
        frs = [t for t, _, _ in ri.calls if is_call(
            t, "blackjax.adaptation.step_size.find_reasonable_step_size")]
        ok_i = False
        if len(frs) == 1:
            st_arg = frs[0][2][2] if len(frs[0][2]) > 2 else kw(frs[0], "reference_state")
            ok_i = (st_arg is not None and st_arg[0] == "call"
                    and kw(st_arg, "position", 0) == position
                    and kw(st_arg, "logdensity_fn", 1) == lp)
        ctx.ob("C04.R2", ini, "the initial step-size search starts from the same model state "
                              "for position and density", ok_i)

    # ------------------------------------------------------------------ R4
    eb = repo.cls("liesel.goose.builder.EngineBuilder")
    build = method(repo, eb, "build")
    cfg = CFG(build.node)
    rb = evaluate(repo, build)
    from .common import collects_kernel_keys
    dup_calls = [t for t, _, _ in rb.calls if is_call(t, "liesel.goose.builder._find_duplicate")
                 and t[2] and collects_kernel_keys(t[2][0], ("a", SELF, "_kernels"))]
    ok = False
    detail = f"{len(dup_calls)} duplicate searches over the kernels' position keys"
    if len(dup_calls) == 1:
        is_some = ("call", ("a", dup_calls[0], "is_some"), (), ())
        guarded_raise = [rc for rc, _, _ in rb.raises if (is_some, True) in rc]
        rets = [rc for rc, rt_, _ in rb.returns]
        ok = len(guarded_raise) == 1 and bool(rets) and all((is_some, False) in rc
                                                            for rc in rets)
        detail += f"; raises guarded by it: {len(guarded_raise)}"
    ctx.ob("C04.R4", build, "the position keys of ALL kernels are collected and a duplicate "
                            "raises before the engine is constructed (blocks are disjoint)",
           ok, detail=detail, stmt="duplicate key check")
    fd = repo.func("liesel.goose.builder._find_duplicate")
    rf = evaluate(repo, fd)
    ok = False
    if len(rf.loops) == 1:
        lp_ = rf.loops[0]
        x = ("iter", n(fd.params()[0]))
        rets_in = [(rc, rt_) for rc, rt_, _ in rf.returns if any(a[0] == "inloop" for a, _ in rc)]
        adds = [t for t, _, _ in lp_["calls"] if t[1][0] == "a" and t[1][2] == "add"
                and t[2] == (x,)]
        ok = (len(rets_in) == 1 and is_call(rets_in[0][1], "liesel.option.Option")
              and rets_in[0][1][2] == (x,) and len(adds) == 1
              and any(a[0] == "cmp" and a[1] == "in" and a[2] == x and p
                      for a, p in rets_in[0][0]))
    ctx.ob("C04.R4", fd, "_find_duplicate reports an element seen before", ok)

    # ---- shared mechanisms: the neighbour's rules run as obligations of this property
    ctx.include("C14", "C04.R5", only=['C14.R1', 'C14.R2'])
    ctx.include("C11", "C04.R5", only=['C11.R4'])
    ctx.include("C05", "C04.R5", only=None)
    ctx.include("C06", "C04.R5", only=None)
    ctx.include("C09", "C04.R5", only=None)
    ctx.include("C13", "C04.R5", only=None)
    ctx.include("C07", "C04.R5", only=['C07.R3'])
    ctx.include("C02", "C04.R5", only=['C02.R2'])
    ctx.include("C01", "C04.R5", only=['C01.R6'])
    ctx.rule("R5", "shared mechanisms, run as obligations of this property: the target density the kernels read is the plain sum of all log-density terms (a NaN or -inf term stays one) (C02.R2); a targeted refresh of the density reaches every ancestor, also through `at` (C01.R6); a transformed parameter keeps the model density: transforms are dispatched and wired as C14 demands; tuning state is frozen outside adaptation epochs (C11.R4); the accept/reject step is exact (C05); the proposal corrections are the true density ratios (C06); blockwise composition keeps the state coherent (C09); the Gibbs kernels draw from the full conditional (C13); every transition of a chunk gets its own key and the current epoch state (C07.R3).")
