"""
Statement-level control-flow graph on networkx, with dominator queries.

Nodes are AST statement objects (compound statements stand for their header /
test), plus the sentinels ENTRY, EXIT (normal return or fall-through) and RAISE
(uncaught exception).  Edges out of an ``If`` / ``While`` header carry
``label=True/False``; edges out of a ``For`` header carry ``label='iter'/'done'``.
"""

from __future__ import annotations

import ast

import networkx as nx

ENTRY = "ENTRY"
EXIT = "EXIT"
RAISE = "RAISE"


class CFG:
    def __init__(self, fnode: ast.FunctionDef):
        self.fnode = fnode
        self.g = nx.DiGraph()
        self.g.add_nodes_from([ENTRY, EXIT, RAISE])
        self.stmts: list[ast.stmt] = []
        self._loops: list[tuple] = []  # (header, after_targets list)
        self._handlers: list[list] = []  # stack of handler entry lists
        outs = self._seq(fnode.body, [(ENTRY, None)])
        for src, lab in outs:
            self._edge(src, EXIT, lab)
        self._idom = None
        self._ipdom = None

    # ---------------------------------------------------------------- building

    def _edge(self, a, b, label=None):
        if self.g.has_edge(a, b):
            # keep both labels if they differ
            old = self.g[a][b].get("label")
            if old != label:
                self.g[a][b]["label"] = (old, label)
        else:
            self.g.add_edge(a, b, label=label)

    def _seq(self, stmts, ins):
        """ins: list of (pred, label) dangling edges; returns dangling outs."""
        cur = ins
        for st in stmts:
            if not cur:
                break  # unreachable code
            cur = self._stmt(st, cur)
        return cur

    def _first(self, st, ins):
        self.g.add_node(st)
        self.stmts.append(st)
        for src, lab in ins:
            self._edge(src, st, lab)
        # any statement may raise into the innermost enclosing handlers
        if self._handlers:
            for h in self._handlers[-1]:
                self._edge(st, h, "exc")

    def _stmt(self, st, ins):
        self._first(st, ins)
        if isinstance(st, ast.If):
            o1 = self._seq(st.body, [(st, True)])
            o2 = self._seq(st.orelse, [(st, False)]) if st.orelse else [(st, False)]
            return o1 + o2
        if isinstance(st, (ast.For, ast.AsyncFor)):
            self._loops.append((st, []))
            body_out = self._seq(st.body, [(st, "iter")])
            for src, lab in body_out:
                self._edge(src, st, lab)
            _, breaks = self._loops.pop()
            outs = self._seq(st.orelse, [(st, "done")]) if st.orelse else [(st, "done")]
            return outs + breaks
        if isinstance(st, ast.While):
            self._loops.append((st, []))
            body_out = self._seq(st.body, [(st, True)])
            for src, lab in body_out:
                self._edge(src, st, lab)
            _, breaks = self._loops.pop()
            infinite = isinstance(st.test, ast.Constant) and bool(st.test.value)
            outs = [] if infinite else (
                self._seq(st.orelse, [(st, False)]) if st.orelse else [(st, False)])
            return outs + breaks
        if isinstance(st, (ast.With, ast.AsyncWith)):
            return self._seq(st.body, [(st, None)])
        if isinstance(st, ast.Try):
            handler_entries = []
            for h in st.handlers:
                self.g.add_node(h)
                handler_entries.append(h)
            self._handlers.append(handler_entries)
            body_out = self._seq(st.body, [(st, None)])
            self._handlers.pop()
            if st.orelse:
                body_out = self._seq(st.orelse, body_out)
            outs = list(body_out)
            for h in st.handlers:
                outs += self._seq(h.body, [(h, None)])
            if st.finalbody:
                outs = self._seq(st.finalbody, outs)
            return outs
        if isinstance(st, ast.Match):
            outs = []
            for case in st.cases:
                outs += self._seq(case.body, [(st, ast.unparse(case.pattern))])
            wildcard = any(isinstance(c.pattern, ast.MatchAs) and c.pattern.pattern is None
                           and c.guard is None for c in st.cases)
            if not wildcard:
                outs.append((st, "nomatch"))
            return outs
        if isinstance(st, ast.Return):
            self._edge(st, EXIT, None)
            return []
        if isinstance(st, ast.Raise):
            if self._handlers:
                for h in self._handlers[-1]:
                    self._edge(st, h, "exc")
            else:
                self._edge(st, RAISE, None)
            return []
        if isinstance(st, ast.Break):
            if self._loops:
                self._loops[-1][1].append((st, None))
            return []
        if isinstance(st, ast.Continue):
            if self._loops:
                self._edge(st, self._loops[-1][0], None)
            return []
        return [(st, None)]

    # ---------------------------------------------------------------- queries

    def idom(self):
        if self._idom is None:
            self._idom = nx.immediate_dominators(self.g, ENTRY)
        return self._idom

    def dominates(self, a, b) -> bool:
        """a dominates b (every path ENTRY -> b passes through a)."""
        idom = self.idom()
        if b not in idom:
            return False  # unreachable
        x = b
        while True:
            if x == a:
                return True
            nxt = idom.get(x)
            if nxt is None or nxt == x:
                return x == a
            x = nxt

    def reachable(self, a, b, avoiding=()) -> bool:
        if a == b:
            return True
        g = self.g
        avoid = set(avoiding)
        seen = {a}
        stack = [a]
        while stack:
            x = stack.pop()
            for y in g.successors(x):
                if y in avoid or y in seen:
                    continue
                if y == b:
                    return True
                seen.add(y)
                stack.append(y)
        return False

    def must_pass_through(self, src, dst, through) -> bool:
        """Every path src -> dst contains a node of ``through``."""
        through = set(through)
        if src in through or dst in through:
            return True
        return not self.reachable(src, dst, avoiding=through)

    def succ(self, node, label=None):
        out = []
        for _, b, d in self.g.out_edges(node, data=True):
            if label is None or d.get("label") == label or (
                    isinstance(d.get("label"), tuple) and label in d["label"]):
                out.append(b)
        return out

    def in_loop(self, node) -> bool:
        """node lies on a cycle."""
        return any(self.reachable(s, node) for s in self.g.successors(node))

    def paths_count(self, limit=10000) -> int:
        """Number of acyclic ENTRY->EXIT paths (bounded)."""
        cnt = 0
        for _ in nx.all_simple_paths(self.g, ENTRY, EXIT):
            cnt += 1
            if cnt >= limit:
                break
        return cnt


def walk_shallow(node):
    """ast.walk that does not descend into nested function / class / lambda bodies."""
    stack = [node]
    first = True
    while stack:
        x = stack.pop()
        if not first and isinstance(
                x, (ast.FunctionDef, ast.AsyncFunctionDef, ast.ClassDef, ast.Lambda)):
            continue
        first = False
        yield x
        stack.extend(ast.iter_child_nodes(x))


def stmt_exprs(st):
    """The expressions evaluated *by this statement itself* (header only for
    compound statements)."""
    if isinstance(st, ast.If) or isinstance(st, ast.While):
        return [st.test]
    if isinstance(st, (ast.For, ast.AsyncFor)):
        return [st.iter]
    if isinstance(st, (ast.With, ast.AsyncWith)):
        return [i.context_expr for i in st.items]
    if isinstance(st, ast.Try):
        return []
    if isinstance(st, ast.Match):
        return [st.subject]
    if isinstance(st, (ast.FunctionDef, ast.AsyncFunctionDef, ast.ClassDef)):
        return list(st.decorator_list)
    return [st]


def calls_of_stmt(st):
    out = []
    for e in stmt_exprs(st):
        for x in walk_shallow(e):
            if isinstance(x, ast.Call):
                out.append(x)
    return out
