"""
Exercises MultivariateNormalDegenerate.from_penalty / from_penalty_smooth (and the
plain constructor for reference) and prints a bit-exact digest of all results.

Run from the worktree root with PYTHONPATH set to the worktree root.
"""

import hashlib
import itertools

import jax
import jax.numpy as jnp
import numpy as np

import liesel.distributions.mvn_degen as md
from liesel.distributions import MultivariateNormalDegenerate as MVND


def digest(label, value):
    try:
        arr = np.asarray(value)
        h = hashlib.sha256(arr.tobytes()).hexdigest()[:16]
        flat = arr.ravel()
        head = ",".join(float(v).hex() for v in flat[:4])
        print(f"{label}: shape={arr.shape} dtype={arr.dtype} sha={h} head={head}")
    except Exception as e:  # pragma: no cover
        print(f"{label}: DIGEST-ERROR {type(e).__name__}: {e}")


def attempt(label, fn):
    try:
        out = fn()
    except Exception as e:
        msg = str(e).splitlines()[0] if str(e) else ""
        print(f"{label}: RAISED {type(e).__name__}: {msg}")
        return None
    return out


def diff_penalty(m, order):
    d = np.eye(m)
    for _ in range(order):
        d = np.diff(d, axis=0)
    return jnp.asarray(d.T @ d, dtype=jnp.float32)


def describe(label, dist, xs, with_samples=True):
    digest(label + ".prec", dist.prec)
    digest(label + ".loc", dist.loc)
    digest(label + ".rank", dist.rank)
    digest(label + ".log_pdet", dist.log_pdet)
    print(label + ".types", type(dist.rank).__name__, type(dist.log_pdet).__name__)
    print(label + ".shapes", dist.batch_shape, dist.event_shape)
    params = dist.parameters
    print(label + ".param_keys", sorted(params))
    print(label + ".name", dist.name, params["name"], dist.validate_args,
          dist.allow_nan_stats)
    for j, x in enumerate(xs):
        lp = attempt(f"{label}.lp{j}", lambda: dist.log_prob(x))
        if lp is not None:
            digest(f"{label}.lp{j}", lp)
    if with_samples:
        s = attempt(label + ".sample", lambda: dist.sample(3, seed=jax.random.PRNGKey(7)))
        if s is not None:
            digest(label + ".sample", s)


def main():
    print("module file ok:", md.__name__)
    rng = np.random.default_rng(0)

    # ---------------------------------------------------------------- unbatched
    for m, order in [(3, 1), (5, 2), (6, 0), (4, 3)]:
        pen = diff_penalty(m, order)
        evals = jnp.linalg.eigvalsh(pen)
        true_rank = md._rank(evals)
        true_lpd = md._log_pdet(evals, rank=true_rank)
        loc = jnp.asarray(rng.normal(size=m), dtype=jnp.float32)
        xs = [
            jnp.asarray(rng.normal(size=m), dtype=jnp.float32),
            jnp.asarray(rng.normal(size=(2, m)), dtype=jnp.float32),
            jnp.ones(m, dtype=jnp.float32) * 3.0 + loc,  # null-space shift for order>=1
        ]
        for scale in [0.01, 1.0, 7.3, 1234.5]:
            for rank_arg, lpd_arg in itertools.product(
                [None, true_rank, int(true_rank), m - order],
                [None, true_lpd, float(true_lpd)],
            ):
                tag = (
                    f"m{m}o{order}s{scale}"
                    f"r{type(rank_arg).__name__}l{type(lpd_arg).__name__}"
                )
                d1 = attempt(
                    tag + ".var",
                    lambda: MVND.from_penalty(
                        loc, jnp.float32(scale), pen, rank=rank_arg, log_pdet=lpd_arg
                    ),
                )
                if d1 is not None:
                    describe(tag + ".var", d1, xs, with_samples=(scale == 7.3))
                d2 = attempt(
                    tag + ".smooth",
                    lambda: MVND.from_penalty_smooth(
                        loc, jnp.float32(scale), pen, rank=rank_arg, log_pdet=lpd_arg
                    ),
                )
                if d2 is not None:
                    describe(tag + ".smooth", d2, xs, with_samples=(scale == 7.3))

    # python-float scale, positional arguments, extra keywords
    pen = diff_penalty(5, 2)
    d = MVND.from_penalty(jnp.zeros(5), 2.5, pen, 3, None, True, False, "named")
    describe("positional.var", d, [jnp.arange(5.0)])
    d = MVND.from_penalty_smooth(jnp.zeros(5), 2.5, pen, None, 0.25, True, False, "nm2")
    describe("positional.smooth", d, [jnp.arange(5.0)])

    # wrong-but-accepted user input must be passed through untouched
    d = MVND.from_penalty(jnp.zeros(5), 2.0, pen, rank=2, log_pdet=None)
    describe("wrongrank.var", d, [jnp.arange(5.0)])
    d = MVND.from_penalty_smooth(jnp.zeros(5), 2.0, pen, rank=None, log_pdet=-1.0)
    describe("wronglpd.smooth", d, [jnp.arange(5.0)])
    d = MVND.from_penalty(jnp.zeros(5), 2.0, pen, rank=0, log_pdet=0.0)
    describe("zero.var", d, [jnp.arange(5.0)])

    # ------------------------------------------------------------------ batched
    pens = jnp.stack([diff_penalty(4, 1), diff_penalty(4, 2), diff_penalty(4, 0)])
    var = jnp.asarray([0.5, 2.0, 10.0], dtype=jnp.float32)
    loc = jnp.asarray(rng.normal(size=(3, 4)), dtype=jnp.float32)
    xs = [jnp.asarray(rng.normal(size=(3, 4)), dtype=jnp.float32),
          jnp.asarray(rng.normal(size=(5, 3, 4)), dtype=jnp.float32)]
    evals = jnp.linalg.eigvalsh(pens)
    rk = md._rank(evals)
    lpd = md._log_pdet(evals, rank=rk)
    for rank_arg, lpd_arg in itertools.product([None, rk], [None, lpd]):
        tag = f"batch.r{rank_arg is None}l{lpd_arg is None}"
        describe(tag + ".var",
                 MVND.from_penalty(loc, var, pens, rank=rank_arg, log_pdet=lpd_arg), xs)
        describe(tag + ".smooth",
                 MVND.from_penalty_smooth(loc, var, pens, rank=rank_arg,
                                          log_pdet=lpd_arg), xs)
    # batched var with a single penalty
    describe("bvar.var", MVND.from_penalty(jnp.zeros(4), var, pens[1]), xs)
    describe("bvar.smooth", MVND.from_penalty_smooth(jnp.zeros(4), var, pens[1]), xs)

    # --------------------------------------------------------------- jit / grad
    pen = diff_penalty(5, 2)
    x = jnp.asarray(rng.normal(size=5), dtype=jnp.float32)

    def lp_var(v, rank=None, log_pdet=None):
        return MVND.from_penalty(jnp.zeros(5), v, pen, rank=rank,
                                 log_pdet=log_pdet).log_prob(x)

    def lp_smooth(v, rank=None, log_pdet=None):
        return MVND.from_penalty_smooth(jnp.zeros(5), v, pen, rank=rank,
                                        log_pdet=log_pdet).log_prob(x)

    for name, fn in [("var", lp_var), ("smooth", lp_smooth)]:
        for v in [0.3, 1.0, 42.0]:
            digest(f"jit.{name}.{v}", jax.jit(fn)(v))
            digest(f"grad.{name}.{v}", jax.grad(fn)(v))
            digest(f"jit3.{name}.{v}", jax.jit(fn, static_argnames="rank")(v, rank=3))
            digest(f"jitboth.{name}.{v}", jax.jit(fn)(v, 3, 1.5))
            digest(f"jitlpd.{name}.{v}", jax.jit(fn)(v, None, 1.5))
        print(f"jaxpr.{name}",
              hashlib.sha256(str(jax.make_jaxpr(fn)(1.0)).encode()).hexdigest()[:16])
        print(f"jaxpr3.{name}",
              hashlib.sha256(
                  str(jax.make_jaxpr(lambda v: fn(v, 3))(1.0)).encode()
              ).hexdigest()[:16])
        print(f"jaxprboth.{name}",
              hashlib.sha256(
                  str(jax.make_jaxpr(lambda v: fn(v, 3, 0.5))(1.0)).encode()
              ).hexdigest()[:16])

    # --------------------------------------------------------------- exceptions
    bad = jnp.ones((3, 4))
    attempt("nonsquare.none.var", lambda: MVND.from_penalty(jnp.zeros(4), 1.0, bad))
    attempt("nonsquare.both.var",
            lambda: MVND.from_penalty(jnp.zeros(4), 1.0, bad, rank=2, log_pdet=0.0))
    attempt("nonsquare.rank.smooth",
            lambda: MVND.from_penalty_smooth(jnp.zeros(4), 1.0, bad, rank=2))
    attempt("nonsquare.both.smooth",
            lambda: MVND.from_penalty_smooth(jnp.zeros(4), 1.0, bad, rank=2,
                                             log_pdet=0.0))
    attempt("locmismatch.var", lambda: MVND.from_penalty(jnp.zeros(3), 1.0, pen))
    attempt("locmismatch.smooth",
            lambda: MVND.from_penalty_smooth(jnp.zeros(3), 1.0, pen, 3, 0.0))
    attempt("listpen.var", lambda: MVND.from_penalty(jnp.zeros(2), 1.0,
                                                     [[1.0, 0.0], [0.0, 1.0]]))
    attempt("listpen.both.var", lambda: MVND.from_penalty(
        jnp.zeros(2), 1.0, [[1.0, 0.0], [0.0, 1.0]], rank=2, log_pdet=0.0))
    attempt("strrank.var", lambda: MVND.from_penalty(jnp.zeros(5), 1.0, pen, rank="3"))
    attempt("strrank.both", lambda: MVND.from_penalty_smooth(
        jnp.zeros(5), 1.0, pen, rank="3", log_pdet=0.0))

    # ------------------------------------------------------ subclass / copy path
    class Sub(MVND):
        pass

    d = Sub.from_penalty(jnp.zeros(5), 2.0, pen)
    print("subclass", type(d).__name__)
    d2 = d.copy()
    describe("copy", d2, [x])

    # caller in liesel.model.distreg
    import tensorflow_probability.substrates.jax.bijectors as tfb
    import tensorflow_probability.substrates.jax.distributions as tfd

    from liesel.model.distreg import DistRegBuilder

    b = DistRegBuilder()
    X = np.asarray(rng.normal(size=(20, 5)), dtype=np.float32)
    y = np.asarray(rng.normal(size=20), dtype=np.float32)
    b.add_response(y, tfd.Normal)
    b.add_predictor("loc", tfb.Identity)
    b.add_predictor("scale", tfb.Exp)
    b.add_np_smooth(X, np.asarray(pen), 1.0, 0.01, "loc")
    b.add_p_smooth(np.ones((20, 1), dtype=np.float32), 0.0, 10.0, "scale")
    model = b.build_model()
    digest("distreg.log_prob", model.log_prob)
    digest("distreg.log_prior", model.log_prior)


if __name__ == "__main__":
    main()
