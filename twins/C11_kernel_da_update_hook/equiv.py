"""
Deterministic equivalence driver for the dual-averaging code (property C11).

Prints a line-per-result digest in which every floating-point number is given
bit-exactly (raw bytes as hex), so that two runs can be compared with ``diff``.

Run with ``PYTHONPATH=<tree that contains liesel/> python equiv.py``.
The script locates nothing by absolute path; it simply imports ``liesel``.
"""

from __future__ import annotations

import hashlib
import inspect
import logging
import sys
import warnings
from dataclasses import MISSING, fields
from types import SimpleNamespace

warnings.filterwarnings("ignore")
logging.disable(logging.CRITICAL)

import jax  # noqa: E402
import jax.numpy as jnp  # noqa: E402
import numpy as np  # noqa: E402

import liesel.goose as gs  # noqa: E402
from liesel.goose.da import da_finalize, da_init, da_step  # noqa: E402
from liesel.goose.epoch import EpochConfig, EpochType  # noqa: E402
from liesel.goose.hmc import HMCKernelState  # noqa: E402
from liesel.goose.iwls import IWLSKernelState  # noqa: E402
from liesel.goose.mh_kernel import MHProposal  # noqa: E402
from liesel.goose.nuts import NUTSKernelState  # noqa: E402
from liesel.goose.rw import RWKernelState  # noqa: E402
from liesel.goose.types import Position  # noqa: E402

LINES: list[str] = []


def bits(x) -> str:
    """Bit-exact, type-revealing rendering of a scalar/array/python number."""
    if isinstance(x, bool):
        return f"bool:{x}"
    if isinstance(x, int):
        return f"int:{x}"
    if isinstance(x, float):
        return f"pyfloat:{x.hex()}"
    a = np.asarray(x)
    return f"{type(x).__module__.split('.')[0]}:{a.dtype}:{a.shape}:{a.tobytes().hex()}"


def tree_bits(tree) -> str:
    leaves, treedef = jax.tree_util.tree_flatten(tree)
    h = hashlib.sha256()
    for leaf in leaves:
        h.update(bits(leaf).encode())
    return f"{treedef.num_leaves}leaves:{h.hexdigest()[:24]}"


def emit(label: str, *values) -> None:
    LINES.append(label + " | " + " | ".join(str(v) for v in values))


def state_bits(ks) -> str:
    return " ".join(
        f"{name}={bits(getattr(ks, name))}"
        for name in ("step_size", "error_sum", "log_avg_step_size", "mu")
    )


# --------------------------------------------------------------------------------------
# 1. direct calls of da_init / da_step / da_finalize
# --------------------------------------------------------------------------------------


class TracedState:
    """A DA kernel state that records the order of every attribute read and write."""

    def __init__(self, step_size):
        object.__setattr__(self, "log", [])
        object.__setattr__(self, "data", {"step_size": step_size})

    def __getattr__(self, name):
        data = object.__getattribute__(self, "data")
        if name not in data:
            self.log.append(f"miss:{name}")
            raise AttributeError(name)
        self.log.append(f"get:{name}")
        return data[name]

    def __setattr__(self, name, value):
        self.log.append(f"set:{name}")
        self.data[name] = value


ACC_SEQUENCES = {
    "zeros": [0.0] * 6,
    "ones": [1.0] * 6,
    "target": [0.8] * 4,
    "mixed": [0.0, 1.0, 0.3, 0.99, 0.234, 0.8, 1e-300, 0.5],
    "nan": [0.5, float("nan"), 0.7],
    "inf": [0.5, float("inf"), 0.2],
    "gt1": [1.5, 2.0, -0.5],
}

CONSTANTS = [
    {},
    {"target_accept": 0.234},
    {"target_accept": 0.65, "gamma": 0.1, "kappa": 0.6, "t0": 5},
    {"target_accept": 0.9, "gamma": 1.0, "kappa": 1.0, "t0": 0},
    {"target_accept": 0.5, "gamma": 0.05, "kappa": 0.0, "t0": 10},
]


def direct_da() -> None:
    wrappers = {
        "py": lambda v: v,
        "f32": lambda v: jnp.asarray(v, dtype=jnp.float32),
        "np64": lambda v: np.float64(v),
    }
    for wname, wrap in wrappers.items():
        for step0 in (1.0, 0.001, 37.5):
            for ci, const in enumerate(CONSTANTS):
                for sname, seq in ACC_SEQUENCES.items():
                    ks = SimpleNamespace(step_size=wrap(step0))
                    tag = f"da/{wname}/s{step0}/c{ci}/{sname}"
                    ret = da_init(ks)
                    emit(tag + "/init", ret, state_bits(ks))
                    # two epochs: restart from the current step size
                    for epoch in range(2):
                        for t, acc in enumerate(seq):
                            ret = da_step(ks, wrap(acc), t, **const)
                            emit(f"{tag}/e{epoch}/t{t}", ret, state_bits(ks))
                        ret = da_finalize(ks)
                        emit(f"{tag}/e{epoch}/fin", ret, state_bits(ks))
                        ret = da_init(ks)
                        emit(f"{tag}/e{epoch}/reinit", ret, state_bits(ks))

    # positional call, as the kernels did/do it
    ks = SimpleNamespace(step_size=0.5)
    da_init(ks)
    da_step(ks, 0.3, 4, 0.7, 0.2, 0.8, 3)
    emit("da/positional", state_bits(ks))

    # monotonicity probe: same state, increasing acceptance probability
    for t in (0, 1, 7, 100):
        row = []
        for acc in (0.0, 0.1, 0.5, 0.8, 0.9, 1.0):
            ks = SimpleNamespace(step_size=0.3)
            da_init(ks)
            ks.error_sum = 0.37
            da_step(ks, acc, t)
            row.append(bits(ks.step_size))
        emit(f"da/monotone/t{t}", *row)

    # order of attribute reads and writes on a user object
    ts = TracedState(0.25)
    da_init(ts)
    da_step(ts, 0.4, 0)
    da_step(ts, 0.9, 1, 0.6, 0.07, 0.7, 8)
    da_finalize(ts)
    emit("da/traced/log", ",".join(ts.log))
    emit("da/traced/data", {k: bits(v) for k, v in sorted(ts.data.items())})

    # missing attribute -> same exception at the same point
    broken = TracedState(0.25)
    try:
        da_step(broken, 0.4, 0)
    except Exception as e:  # noqa: BLE001
        emit("da/broken", type(e).__name__, e.args, ",".join(broken.log))
    try:
        da_finalize(broken)
    except Exception as e:  # noqa: BLE001
        emit("da/broken-fin", type(e).__name__, e.args, ",".join(broken.log))

    # wrong-arity / keyword errors
    for name, call in {
        "kw-unknown": lambda: da_step(SimpleNamespace(step_size=1.0), 0.1, 0, foo=1),
        "too-many": lambda: da_step(
            SimpleNamespace(step_size=1.0), 0.1, 0, 0.8, 0.05, 0.75, 10, 11
        ),
        "too-few": lambda: da_step(SimpleNamespace(step_size=1.0), 0.1),
        "init-none": lambda: da_init(None),
        "fin-none": lambda: da_finalize(None),
        "t-negative": lambda: _neg_time(),
    }.items():
        try:
            out = call()
            emit(f"da/err/{name}", "ok", out)
        except Exception as e:  # noqa: BLE001
            emit(f"da/err/{name}", type(e).__name__, str(e))

    # jitted use on the registered dataclass pytrees
    for cls, args in (
        (RWKernelState, (0.7,)),
        (IWLSKernelState, (0.7,)),
        (HMCKernelState, (0.7, jnp.ones(3))),
        (NUTSKernelState, (0.7, jnp.eye(2))),
    ):
        ks = cls(*args)
        emit(f"da/jit/{cls.__name__}/new", tree_bits(ks), state_bits(ks))

        @jax.jit
        def run(ks, accs):
            da_init(ks)

            def body(carry, x):
                t, acc = x
                da_step(carry, acc, t, 0.6, 0.05, 0.75, 10)
                return carry, carry.step_size

            ks, trace = jax.lax.scan(body, ks, (jnp.arange(accs.shape[0]), accs))
            da_finalize(ks)
            return ks, trace

        accs = jnp.asarray(ACC_SEQUENCES["mixed"] + ACC_SEQUENCES["ones"])
        out, trace = run(ks, accs)
        emit(f"da/jit/{cls.__name__}/out", state_bits(out), bits(trace))


def _neg_time():
    ks = SimpleNamespace(step_size=1.0)
    da_init(ks)
    da_step(ks, 0.5, -1)
    return state_bits(ks)


# --------------------------------------------------------------------------------------
# 2. kernels: transition / start_epoch / end_epoch / tune / end_warmup
# --------------------------------------------------------------------------------------

_rng = np.random.default_rng(1337)
_n, _p = 30, 2
_X = np.column_stack([np.ones(_n), _rng.uniform(size=[_n, _p - 1])])
_y = _rng.normal(_X @ np.ones(_p), 0.1, size=_n)
MODEL_STATE = {
    "y": jnp.asarray(_y),
    "X": jnp.asarray(_X),
    "beta": jnp.ones(_p),
    "log_sigma": jnp.log(0.1),
}


def log_prob(model_state):
    mu = model_state["X"] @ model_state["beta"]
    sigma = jnp.exp(model_state["log_sigma"])
    return jnp.sum(jax.scipy.stats.norm.logpdf(model_state["y"], mu, sigma))


def proposal_fn(key, model_state, step_size):
    key0, key1 = jax.random.split(key)
    beta = model_state["beta"] + step_size * jax.random.normal(
        key0, model_state["beta"].shape
    )
    log_sigma = model_state["log_sigma"] + step_size * jax.random.normal(
        key1, model_state["log_sigma"].shape
    )
    return MHProposal(
        position=Position({"beta": beta, "log_sigma": log_sigma}), log_correction=0.0
    )


KEYS = ["beta", "log_sigma"]


def make_kernels():
    return {
        "rw": gs.RWKernel(KEYS, initial_step_size=0.05),
        "rw-const": gs.RWKernel(
            KEYS, 0.02, da_target_accept=0.4, da_gamma=0.1, da_kappa=0.6, da_t0=4
        ),
        "mh-tune": gs.MHKernel(
            KEYS, proposal_fn, initial_step_size=0.05, da_tune_step_size=True
        ),
        "mh-notune": gs.MHKernel(KEYS, proposal_fn, initial_step_size=0.05),
        "mh-const": gs.MHKernel(
            KEYS,
            proposal_fn,
            0.03,
            True,
            da_target_accept=0.5,
            da_gamma=0.2,
            da_kappa=0.9,
            da_t0=2,
        ),
        "iwls": gs.IWLSKernel(KEYS, initial_step_size=0.5),
        "iwls-const": gs.IWLSKernel(
            KEYS, initial_step_size=0.3, da_target_accept=0.6, da_gamma=0.1, da_t0=3
        ),
        "hmc": gs.HMCKernel(KEYS, initial_step_size=0.01, num_integration_steps=4),
        "hmc-auto": gs.HMCKernel(KEYS, num_integration_steps=3, da_target_accept=0.7),
        "nuts": gs.NUTSKernel(KEYS, initial_step_size=0.01, max_treedepth=4),
        "nuts-full": gs.NUTSKernel(
            KEYS, max_treedepth=3, mm_diag=False, da_kappa=0.6, da_t0=5
        ),
    }


def epoch_state(etype, time_in_epoch, duration=20):
    cfg = EpochConfig(etype, duration, 1, None)
    es = cfg.to_state(2, 100)
    es.advance_time(time_in_epoch)
    return es


def kernels_direct() -> None:
    model = gs.DictInterface(log_prob)
    for name, kernel in make_kernels().items():
        kernel.set_model(model)
        key = jax.random.PRNGKey(7)
        ks0 = kernel.init_state(key, MODEL_STATE)
        emit(f"k/{name}/init", type(ks0).__name__, state_bits(ks0), tree_bits(ks0))

        jitted = jax.jit(kernel.transition)
        for etype in EpochType:
            for jit in (False, True):
                eager_types = (EpochType.SLOW_ADAPTATION, EpochType.POSTERIOR)
                if not jit and etype not in eager_types:
                    continue
                ks = jax.tree_util.tree_map(lambda x: x, ks0)
                ms = MODEL_STATE
                fn = jitted if jit else kernel.transition
                for t in (0, 1, 5) if jit else (0, 5):
                    es = epoch_state(etype, t)
                    key, sub = jax.random.split(key)
                    try:
                        out = fn(sub, ks, ms, es)
                    except Exception as e:  # noqa: BLE001
                        emit(
                            f"k/{name}/{etype.name}/jit{jit}/t{t}",
                            "EXC",
                            type(e).__name__,
                        )
                        break
                    ks, ms = out.kernel_state, out.model_state
                    emit(
                        f"k/{name}/{etype.name}/jit{jit}/t{t}",
                        type(out).__name__,
                        state_bits(ks),
                        tree_bits(out.info),
                        bits(out.info.acceptance_prob),
                        tree_bits(kernel.position(ms)),
                    )

        # adaptive and standard transitions called directly + the epoch hooks
        es = epoch_state(EpochType.FAST_ADAPTATION, 3)
        ks = jax.tree_util.tree_map(lambda x: x, ks0)
        out = kernel._adaptive_transition(key, ks, MODEL_STATE, es)
        emit(
            f"k/{name}/adaptive",
            out.kernel_state is ks,
            state_bits(ks),
            tree_bits(out.info),
        )
        before = state_bits(ks)
        out2 = kernel._standard_transition(key, ks, MODEL_STATE, es)
        emit(
            f"k/{name}/standard",
            out2.kernel_state is ks,
            before == state_bits(ks),
            tree_bits(out2.info),
        )
        ret = kernel.end_epoch(key, ks, MODEL_STATE, es)
        emit(f"k/{name}/end_epoch", ret is ks, state_bits(ks), tree_bits(ks))
        ret = kernel.start_epoch(key, ks, MODEL_STATE, es)
        emit(f"k/{name}/start_epoch", ret is ks, state_bits(ks), tree_bits(ks))
        tout = kernel.tune(key, ks, MODEL_STATE, es, None)
        emit(
            f"k/{name}/tune",
            type(tout).__name__,
            tout.kernel_state is ks,
            tree_bits(tout.info),
            state_bits(ks),
        )
        wout = kernel.end_warmup(key, ks, MODEL_STATE, None)
        emit(
            f"k/{name}/end_warmup",
            type(wout).__name__,
            wout.kernel_state is ks,
            bits(wout.error_code),
            state_bits(ks),
        )

        # class surface that callers / the engine builder may look at
        cls = type(kernel)
        emit(
            f"k/{name}/surface",
            cls.error_book,
            cls.needs_history,
            [c.__name__ for c in cls.__mro__],
            sorted(vars(kernel)),
        )

    # transition without a model -> same error
    k = gs.RWKernel(KEYS)
    try:
        k.transition(
            jax.random.PRNGKey(0),
            k.init_state(None, None),
            MODEL_STATE,
            epoch_state(EpochType.FAST_ADAPTATION, 0),
        )
    except Exception as e:  # noqa: BLE001
        emit("k/nomodel", type(e).__name__, str(e))


# --------------------------------------------------------------------------------------
# 3. whole engine, kernel states stored per iteration
# --------------------------------------------------------------------------------------


def engine_runs() -> None:
    combos = {
        "rw": lambda: [gs.RWKernel(KEYS, initial_step_size=0.05)],
        "mh-tune": lambda: [
            gs.MHKernel(KEYS, proposal_fn, 0.05, da_tune_step_size=True)
        ],
        "mh-notune": lambda: [gs.MHKernel(KEYS, proposal_fn, 0.05)],
        "iwls+rw": lambda: [
            gs.IWLSKernel(["beta"], initial_step_size=0.5),
            gs.RWKernel(["log_sigma"], initial_step_size=0.1),
        ],
        "hmc": lambda: [gs.HMCKernel(KEYS, num_integration_steps=3)],
        "nuts": lambda: [gs.NUTSKernel(KEYS, max_treedepth=4)],
    }
    for name, mk in combos.items():
        builder = gs.EngineBuilder(seed=11, num_chains=2)
        for kernel in mk():
            builder.add_kernel(kernel)
        builder.set_model(gs.DictInterface(log_prob))
        builder.set_initial_values(MODEL_STATE)
        builder.set_epochs(
            gs.stan_epochs(
                warmup_duration=60,
                posterior_duration=15,
                init_duration=15,
                term_duration=15,
                base_duration=10,
            )
        )
        builder.store_kernel_states = True
        builder.show_progress = False
        engine = builder.build()
        engine.sample_all_epochs()
        results = engine.get_results()

        chain = results.kernel_states.unwrap()
        for i, cfg in enumerate(chain.get_epochs()):
            per_epoch = chain.get_specific_chain(i).get().unwrap()
            emit(
                f"e/{name}/ks/epoch{i}/{cfg.type.name}/{cfg.duration}",
                tree_bits(per_epoch),
            )
            for kid, ks in enumerate(per_epoch):
                # first and last stored step size of the epoch, every chain
                emit(
                    f"e/{name}/ks/epoch{i}/{kid}",
                    bits(ks.step_size[:, 0]),
                    bits(ks.step_size[:, -1]),
                )
        all_ks = chain.combine_all().unwrap()
        for kid, ks in enumerate(all_ks):
            emit(f"e/{name}/ks/{kid}/step_size", bits(ks.step_size))
            emit(f"e/{name}/ks/{kid}/error_sum", bits(ks.error_sum))
            emit(f"e/{name}/ks/{kid}/log_avg", bits(ks.log_avg_step_size))
            emit(f"e/{name}/ks/{kid}/mu", bits(ks.mu))
        emit(f"e/{name}/samples", tree_bits(results.get_samples()))
        emit(
            f"e/{name}/infos",
            tree_bits(results.transition_infos.combine_all().unwrap()),
        )
        emit(f"e/{name}/final-ks", tree_bits(engine._kernel_states))


# --------------------------------------------------------------------------------------
# 4. public surface: parameter names, kinds and defaults (annotations and docstrings
#    are documentation and deliberately not part of the digest)
# --------------------------------------------------------------------------------------


def sig(fn) -> str:
    params = inspect.signature(fn).parameters.values()
    return ",".join(
        f"{p.name}:{p.kind.name}"
        + ("" if p.default is inspect.Parameter.empty else f"={p.default!r}")
        for p in params
    )


def surface() -> None:
    import liesel.goose.da as da_module

    for fname in ("da_init", "da_step", "da_finalize"):
        fn = getattr(da_module, fname)
        emit(f"s/da/{fname}", sig(fn), fn.__module__, fn.__qualname__)
        emit(f"s/da/{fname}/reexport", getattr(gs, fname, None) is fn)
    emit(
        "s/da/public-names",
        sorted(n for n in vars(da_module) if not n.startswith("_")),
    )

    for name, kernel in make_kernels().items():
        kernel.set_model(gs.DictInterface(log_prob))
        cls = type(kernel)
        public = sorted(
            n
            for n in dir(cls)
            if not n.startswith("_") and callable(getattr(cls, n, None))
        )
        emit(f"s/{name}/public-methods", public)
        for meth in public + ["_standard_transition", "_adaptive_transition"]:
            fn = getattr(cls, meth)
            try:
                emit(f"s/{name}/{meth}", sig(fn), fn.__qualname__)
            except (TypeError, ValueError) as e:
                emit(f"s/{name}/{meth}", type(e).__name__)
        state = (
            kernel.init_state(jax.random.PRNGKey(0), MODEL_STATE)
            if (name in ("rw", "mh-tune", "iwls", "hmc", "nuts"))
            else None
        )
        if state is not None:
            emit(
                f"s/{name}/state",
                type(state).__name__,
                [
                    (
                        f.name,
                        f.init,
                        "MISSING" if f.default is MISSING else repr(f.default),
                    )
                    for f in fields(state)
                ],
                sig(type(state)),
            )


def main() -> None:
    import time

    for section in (surface, direct_da, kernels_direct, engine_runs):
        start = time.time()
        section()
        sys.stderr.write(f"{section.__name__}: {time.time() - start:.1f}s\n")
    digest = hashlib.sha256("\n".join(LINES).encode()).hexdigest()
    sys.stdout.write("\n".join(LINES) + "\n")
    sys.stdout.write(f"TOTAL {len(LINES)} lines sha256={digest}\n")


if __name__ == "__main__":
    main()
