#!/bin/bash
# usage: tools/rebase_seed.sh <seed_dir>   -- if <seed_dir>/patch.diff no longer applies to /repo
# HEAD, finds the newest ancestor commit it applies to, and cherry-picks it onto HEAD
# (3-way).  Keeps the original as patch.orig_<commit>.diff.  Prints the outcome.
sd="$(realpath "$1")"
tmp=$(mktemp -d /dev/shm/rebase_XXXX)
git clone -q /repo "$tmp/r" || exit 2
cd "$tmp/r"
if git apply --check "$sd/patch.diff" 2>/dev/null; then echo "applies: $sd"; rm -rf "$tmp"; exit 0; fi
base=""
for c in $(git log --format=%h -n 40); do
  git checkout -q "$c" 2>/dev/null
  if git apply --check "$sd/patch.diff" 2>/dev/null; then base="$c"; break; fi
done
if [ -z "$base" ]; then echo "NO-BASE: $sd"; rm -rf "$tmp"; exit 1; fi
git checkout -q -b seedbranch "$base"
git apply "$sd/patch.diff" && git -c user.email=a@b -c user.name=x commit -qam seed
git checkout -q main 2>/dev/null || git checkout -q master
if git -c user.email=a@b -c user.name=x cherry-pick seedbranch >/dev/null 2>&1; then
  cp "$sd/patch.diff" "$sd/patch.orig_${base}.diff"
  git diff HEAD~1 HEAD > "$sd/patch.diff"
  echo "REBASED from $base: $sd"
else
  echo "CONFLICT (base $base): $sd"
  git cherry-pick --abort 2>/dev/null
  rm -rf "$tmp"; exit 1
fi
rm -rf "$tmp"
