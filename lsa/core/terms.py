"""
Symbolic term construction (global value numbering style) for function bodies.

A function body is executed abstractly: every local becomes the *term* of the
expression that defines it, attribute / subscript stores go to a symbolic heap, an
``if`` joins both arms with a ``phi`` term, loops are executed once with symbolic
iteration variables.  Terms are hashable nested tuples, so a rule compares what a
value *is* (modulo temporaries, helper extraction, keyword vs positional
arguments) instead of how the source spells it.  Nothing is executed concretely
and no paths are handed to a solver.

Term grammar (first element is the tag):
  ('c', v)                      constant
  ('n', name)                   parameter / unresolved free name
  ('g', qualname)               resolved global (import, module function, class)
  ('a', base, attr)             attribute read
  ('s', base, index)            subscript read
  ('call', f, args, kwargs)     call; kwargs is a sorted tuple of (name, term)
  ('op', o, l, r) ('u', o, x)   arithmetic;  ('cmp', o, l, r);  ('bool', o, terms)
  ('tuple'|'list'|'set', items) ('dict', ((k, v), ...))
  ('lambda', params, body)      lambda / closure body term (single-return closures)
  ('fn', qualname)              reference to a nested function definition
  ('ifexp', c, a, b)            conditional expression
  ('phi', c, a, b)              join of an ``if`` statement
  ('proj', t, i)                i-th component of an unpacked value
  ('iter', t)                   element of iterating t;  ('loop', name, t) loop-carried
  ('comp', kind, elt, gens)     comprehension
  ('slice', lo, hi, step)  ('star', t)  ('fstr', parts)  ('opaque', text)
"""

from __future__ import annotations

import ast
from typing import Callable

from .loader import FunctionInfo, ModuleInfo, Repo, dotted

Term = tuple

BINOPS = {
    ast.Add: "+", ast.Sub: "-", ast.Mult: "*", ast.Div: "/", ast.Pow: "**",
    ast.Mod: "%", ast.FloorDiv: "//", ast.MatMult: "@", ast.BitOr: "|",
    ast.BitAnd: "&", ast.BitXor: "^", ast.LShift: "<<", ast.RShift: ">>",
}
UNOPS = {ast.USub: "-", ast.UAdd: "+", ast.Not: "not", ast.Invert: "~"}
CMPOPS = {
    ast.Lt: "<", ast.LtE: "<=", ast.Gt: ">", ast.GtE: ">=", ast.Eq: "==",
    ast.NotEq: "!=", ast.Is: "is", ast.IsNot: "is not", ast.In: "in",
    ast.NotIn: "not in",
}
FLIP = {"<": ">", "<=": ">=", ">": "<", ">=": "<=", "==": "==", "!=": "!="}


def c(v) -> Term:
    return ("c", v)


def n(name) -> Term:
    return ("n", name)


def g(q) -> Term:
    return ("g", q)


def attr(base, name) -> Term:
    return ("a", base, name)


def call(f, *args, **kw) -> Term:
    return ("call", f, tuple(args), tuple(sorted(kw.items())))


def _rank(t) -> tuple:
    return ({"c": 2, "g": 1}.get(t[0], 0), repr(t))


def not_(x: Term) -> Term:
    """Canonical negation: double negations vanish, negated order comparisons become the
    complementary comparison."""
    if x[0] == "u" and x[1] == "not":
        return x[2]
    if x[0] == "cmp" and x[1] == "<":
        return ("cmp", "<=", x[3], x[2])
    if x[0] == "cmp" and x[1] == "<=":
        return ("cmp", "<", x[3], x[2])
    if x[0] == "c" and isinstance(x[1], bool):
        return ("c", not x[1])
    return ("u", "not", x)


def cmp_(op: str, l: Term, r: Term) -> Term:
    """Canonical comparison: only <, <=, ==, is, in occur; >, >= are flipped, !=, is not,
    not in become negations; the operands of == / is are ordered (variables first)."""
    if op == ">":
        return ("cmp", "<", r, l)
    if op == ">=":
        return ("cmp", "<=", r, l)
    if op in ("==", "is"):
        a, b = sorted((l, r), key=_rank)
        return ("cmp", op, a, b)
    if op == "!=":
        return not_(cmp_("==", l, r))
    if op == "is not":
        return not_(cmp_("is", l, r))
    if op == "not in":
        return not_(("cmp", "in", l, r))
    return ("cmp", op, l, r)


def pc(cond: Term, pol: bool) -> tuple:
    """Canonical path-condition entry: the atom carries no outer negation."""
    while cond[0] == "u" and cond[1] == "not":
        cond, pol = cond[2], not pol
    # an arithmetic result compared with zero is its truth value: `a % b != 0` == `a % b`
    if cond[0] == "cmp" and cond[1] in ("!=", "==") and len(cond) == 4:
        x, z = (cond[2], cond[3]) if cond[3] in (("c", 0), ("c", 0.0)) else (cond[3], cond[2])
        if z in (("c", 0), ("c", 0.0)) and x[0] == "op" and x[1] in ("%", "//", "-", "+", "*"):
            return (x, pol if cond[1] == "!=" else not pol)
    return (cond, pol)


def pcs(cond: Term, pol: bool) -> tuple:
    """Canonical path-condition entries: negations stripped, a true conjunction / false
    disjunction split into its atoms (so `if a and b:` and `if a:` + `if b:` agree)."""
    cond, pol = pc(cond, pol)
    if cond[0] == "bool" and ((cond[1] == "and" and pol) or (cond[1] == "or" and not pol)):
        out = ()
        for x in cond[2]:
            out += pcs(x, pol)
        return out
    # a boolean written as a join (a helper that returns early): phi(c, False, d) is
    # `not c and d`, phi(c, d, False) is `c and d` (and the duals for a False condition)
    if cond[0] == "phi" and len(cond) == 4:
        c_, a, b = cond[1], cond[2], cond[3]
        if pol:
            if a == ("c", False):
                return pcs(c_, False) + pcs(b, True)
            if b == ("c", False):
                return pcs(c_, True) + pcs(a, True)
        else:
            if a == ("c", True):
                return pcs(c_, False) + pcs(b, False)
            if b == ("c", True):
                return pcs(c_, True) + pcs(a, False)
    return ((cond, pol),)


def phi_(cond: Term, a: Term, b: Term, tag: str = "phi") -> Term:
    """Canonical join: no negated condition; conjunctions / disjunctions are expanded into
    nested joins (normal form shared with nested if statements)."""
    while cond[0] == "u" and cond[1] == "not":
        cond, a, b = cond[2], b, a
    if a == b:
        return a
    if cond[0] == "bool" and len(cond[2]) >= 2:
        first, rest = cond[2][0], cond[2][1:]
        rest_t = rest[0] if len(rest) == 1 else ("bool", cond[1], rest)
        if cond[1] == "and":
            return phi_(first, phi_(rest_t, a, b, tag), b, tag)
        return phi_(first, a, phi_(rest_t, a, b, tag), tag)
    return (tag, cond, a, b)



_REPO = [None]

#: leading positional parameters of library callables the package passes arguments to both
#: ways (so `split(key, num=3)` and `split(key, 3)` are one term); by full name or, for the
#: TFP classes that are reached through several substrate aliases, by class name
LIB_SIGNATURES = {
    "jax.random.split": ["key", "num"], "jax.random.PRNGKey": ["seed"],
    "jax.random.fold_in": ["key", "data"], "jax.random.normal": ["key", "shape", "dtype"],
    "jax.random.uniform": ["key", "shape", "dtype", "minval", "maxval"],
    "jax.random.permutation": ["key", "x"], "jax.random.gamma": ["key", "a", "shape"],
    "jax.random.categorical": ["key", "logits", "axis", "shape"],
    "jax.lax.cond": ["pred", "true_fun", "false_fun"],
    "jax.lax.scan": ["f", "init", "xs", "length"],
    "jax.lax.fori_loop": ["lower", "upper", "body_fun", "init_val"],
    "jax.lax.while_loop": ["cond_fun", "body_fun", "init_val"],
    "jax.vmap": ["fun", "in_axes", "out_axes"], "jax.tree_util.tree_map": ["f", "tree"],
    "open": ["file", "mode"], "dill.dump": ["obj", "file"], "dill.load": ["file"], "copy.deepcopy": ["x", "memo"],
    "dataclasses.replace": ["obj"],
}
LIB_CLASS_SIGNATURES = {"Invert": ["bijector"],
                        "TransformedDistribution": ["distribution", "bijector"]}


def _lib_params(f):
    nm = fn_name(f) if f[0] in ("g", "n") else None
    if nm is None and f[0] == "a":
        return LIB_CLASS_SIGNATURES.get(f[2])
    if nm is None:
        return None
    if nm in LIB_SIGNATURES:
        return LIB_SIGNATURES[nm]
    return LIB_CLASS_SIGNATURES.get(nm.rsplit(".", 1)[-1])


def callee_params(repo, f, self_cls=None):
    """Ordered parameter names of a resolvable liesel callee (without self/cls)."""
    fi = None
    skip = 0
    if f[0] == "g":
        fi = repo.functions.get(f[1])
        if fi is None and f[1] in repo.classes:
            ci = repo.classes[f[1]]
            init = repo.lookup_method(ci, "__init__")
            if init is not None:
                fi, skip = init, 1
            else:
                fields = []
                for c_ in reversed(repo.mro(ci)):
                    for fld in c_.annotated_fields():
                        if fld not in fields:
                            fields.append(fld)
                return fields or None
        elif fi is not None and fi.cls is not None:
            skip = 0 if "staticmethod" in fi.decorators() else 1
    elif f[0] == "fn":
        fi = repo.functions.get(f[1])
    elif f[0] == "a" and f[1] == n("self") and self_cls is not None:
        fi = repo.lookup_method(self_cls, f[2])
        skip = 1
        if fi is not None:
            decs = fi.decorators()
            if "property" in decs:
                return None
            if "staticmethod" in decs:
                skip = 0
    if fi is None or isinstance(fi.node, ast.Lambda):
        return None
    a = fi.node.args
    if a.posonlyargs:
        return None
    return [x.arg for x in a.args][skip:]


class Env:
    def __init__(self):
        self.vars: dict[str, Term] = {}
        self.heap: dict[Term, Term] = {}

    def copy(self) -> "Env":
        e = Env()
        e.vars = dict(self.vars)
        e.heap = dict(self.heap)
        return e


class Effect:
    """A call evaluated for its side effect (expression statement)."""

    def __init__(self, term: Term, node: ast.AST, cond: tuple):
        self.term = term
        self.node = node
        self.cond = cond  # tuple of (cond_term, polarity)

    def __repr__(self):
        return f"Effect({pretty(self.term)})"


import itertools as _it

_TICK = _it.count(1)


class TickList(list):
    """A list that remembers WHEN (global evaluation order) each entry was appended:
    `ticks[i]` orders stores and calls of one evaluation against each other, also across
    helpers that were read through (source line numbers do not: a helper may be defined
    anywhere in the file)."""

    def __init__(self, *a):
        super().__init__(*a)
        self.ticks = [next(_TICK) for _ in self]

    def append(self, x, tick=None):
        super().append(x)
        self.ticks.append(next(_TICK) if tick is None else tick)

    def __delitem__(self, k):
        super().__delitem__(k)
        del self.ticks[k]

    def tick_of(self, i):
        return self.ticks[i]


class Result:
    def __init__(self):
        self.returns: list[tuple[tuple, Term, ast.AST]] = []  # (pathcond, term, node)
        self.raises: TickList = TickList()
        self.effects: list[Effect] = []
        self.env: Env | None = None  # environment at normal fall-through / merged
        self.stores: TickList = TickList()  # (loc, value, node, cond)
        self.calls: TickList = TickList()  # every call, in eval order
        self.loops: list[dict] = []
        self.local_defs: dict = {}

    def closure(self) -> dict:
        """Environment visible to a nested function defined in this one."""
        return {**self.local_defs, **(self.env.vars if self.env else {})}

    def ret(self) -> Term | None:
        """Single merged return term or None: the returns of all paths as ONE decision tree
        over the path-condition atoms, built by splitting on atoms (never on source order),
        so `if c: return A` / `return B`, the swapped `if not c: return B` / `return A` and
        `return A if c else B` all give phi(c, A, B).  A prefix of conditions shared by all
        returns (the caller's context of an inlined helper) is not part of the value."""
        if not self.returns:
            return None
        rs = [(tuple(c_), t) for c_, t, _ in self.returns]
        while all(c_ for c_, _ in rs) and len({c_[0] for c_, _ in rs}) == 1:
            rs = [(c_[1:], t) for c_, t in rs]

        def strip(c_, atom):
            return tuple(x for x in c_ if x[0] != atom)

        def build(rs, depth=0):
            if len({t for _, t in rs}) == 1 or depth > 40:
                return rs[0][1]
            atom = next((c_[0][0] for c_, _ in rs if c_), None)
            if atom is None:
                # (entries that matched the split atoms come first: the more specific
                # return wins over an unconditional one, e.g. `except` over the try body)
                return rs[0][1]
            tt = [(strip(c_, atom), t) for c_, t in rs if (atom, True) in c_]
            ff = [(strip(c_, atom), t) for c_, t in rs if (atom, False) in c_]
            nn = [(c_, t) for c_, t in rs if all(a != atom for a, _ in c_)]
            tt, ff = tt + nn, ff + nn
            if not tt:
                return build(ff, depth + 1)
            if not ff:
                return build(tt, depth + 1)
            return phi_(atom, build(tt, depth + 1), build(ff, depth + 1))
        return build(rs)


class Evaluator:
    """Abstractly executes one function."""

    def __init__(self, repo: Repo, fi: FunctionInfo, *, inline: Callable | None = None,
                 inline_depth: int = 2, bindings: dict[str, Term] | None = None,
                 closure: dict[str, Term] | None = None):
        self.repo = repo
        _REPO[0] = repo
        self.fi = fi
        self.mi: ModuleInfo = fi.module
        self.inline = _with_new_helpers(repo, fi, inline)
        self.inline_depth = inline_depth
        self.res = Result()
        self.env = Env()
        self.cond: tuple = ()
        self.local_defs: dict[str, FunctionInfo] = {}
        self.closure = closure or {}
        self.fresh = None  # predicate: call term -> is a stateful fresh-value source
        self.fresh_counter = [0]
        self.props = None  # attr name -> FunctionInfo of a property getter to inline
        a = fi.node.args
        params = [x.arg for x in a.posonlyargs + a.args + a.kwonlyargs]
        if a.vararg:
            params.append(a.vararg.arg)
        if a.kwarg:
            params.append(a.kwarg.arg)
        for p in params:
            self.env.vars[p] = (bindings or {}).get(p, n(p))
        self.params = params

    # ------------------------------------------------------------- running

    def run(self) -> Result:
        node = self.fi.node
        if isinstance(node, ast.Lambda):
            t = self.expr(node.body)
            self.res.returns.append(((), t, node.body))
        else:
            self.block(node.body)
        self.res.env = self.env
        self.res.local_defs = {k: ("fn", v.qualname) for k, v in self.local_defs.items()}
        return self.res

    def closure_env(self) -> dict:
        return {**{k: ("fn", v.qualname) for k, v in self.local_defs.items()},
                **self.env.vars}

    # ------------------------------------------------------------- expressions

    def name(self, ident: str) -> Term:
        if ident in self.env.vars:
            return self.env.vars[ident]
        if ident in self.local_defs:
            return ("fn", self.local_defs[ident].qualname)
        if ident in self.closure:
            return self.closure[ident]
        q = self.repo.resolve_in(self.mi, ident)
        if q is not None:
            return self._global(q)
        return n(ident)

    def _global(self, q: str) -> Term:
        # follow simple module-level aliases   x = some.dotted.name
        mod, _, nm = q.rpartition(".")
        mi = self.repo.modules.get(mod)
        # a module-level name bound to a literal is that literal (`_JITTER = 0.001`)
        if mi is not None and nm in mi.assigns and q not in self.repo.functions \
                and q not in self.repo.classes:
            lit = mi.assigns[nm]
            if isinstance(lit, ast.Constant) and isinstance(lit.value, (int, float, str)) \
                    and not isinstance(lit.value, bool):
                return c(lit.value)
            if isinstance(lit, ast.UnaryOp) and isinstance(lit.op, ast.USub) and isinstance(
                    lit.operand, ast.Constant) and isinstance(lit.operand.value, (int, float)):
                return c(-lit.operand.value)
            # NAME = {True: (f, g), False: (h, k)} / (a, b): a small table of names
            if isinstance(lit, (ast.Dict, ast.Tuple)) and not getattr(self, "_in_table", False) \
                    and sum(1 for _ in ast.walk(lit)) <= 40 and all(
                        isinstance(x, (ast.Dict, ast.Tuple, ast.Name, ast.Attribute, ast.Constant,
                                       ast.Load)) for x in ast.walk(lit)):
                ctx_fi = next((f_ for f_ in self.repo.functions.values() if f_.module is mi), None)
                if ctx_fi is not None:
                    sub_ev = Evaluator(self.repo, ctx_fi)
                    sub_ev._in_table = True
                    sub_ev.env.vars.clear()
                    return sub_ev.expr(lit)
            # NAME = functools.partial(f, k=const): the partial application itself
            if isinstance(lit, ast.Call) and ast.unparse(lit.func).endswith("partial") \
                    and lit.args and isinstance(lit.args[0], (ast.Name, ast.Attribute)) \
                    and all(isinstance(a_, ast.Constant) for a_ in lit.args[1:]) \
                    and all(k_.arg and isinstance(k_.value, ast.Constant) for k_ in lit.keywords):
                tgt = self.repo.resolve_in(mi, dotted(lit.args[0]) or "") if dotted(lit.args[0]) else None
                if tgt:
                    return ("call", ("g", "functools.partial"),
                            (self._global(tgt),) + tuple(c(a_.value) for a_ in lit.args[1:]),
                            tuple(sorted((k_.arg, c(k_.value.value)) for k_ in lit.keywords)))
            # NAME = operator.attrgetter("field"): the getter itself
            if isinstance(lit, ast.Call) and len(lit.args) == 1 and not lit.keywords \
                    and isinstance(lit.args[0], ast.Constant) and isinstance(lit.args[0].value, str) \
                    and ast.unparse(lit.func).endswith("attrgetter"):
                return ("call", ("g", "operator.attrgetter"), (c(lit.args[0].value),), ())
        if mi is not None and nm in mi.assigns and q not in self.repo.functions:
            tgt = dotted(mi.assigns[nm])
            if tgt:
                r = self.repo.resolve_in(mi, tgt)
                if r and r != q:
                    return self._global(r)
        return g(q)

    def expr(self, e: ast.AST | None) -> Term:
        if e is None:
            return c(None)
        m = getattr(self, "e_" + type(e).__name__, None)
        if m is None:
            return ("opaque", ast.unparse(e))
        return m(e)

    def e_Constant(self, e):
        return c(e.value)

    def e_Name(self, e):
        return self.name(e.id)

    def e_Attribute(self, e):
        base = self.expr(e.value)
        if base[0] == "g":
            q = f"{base[1]}.{e.attr}"
            q2 = self.repo._follow(q)
            return self._global(q2)
        # field of a record chosen by a test: (A(..) if c else B(..)).f is A(..).f if c else B(..).f
        if base[0] == "phi" and len(base) == 4 and base[1][0] != "path" and all(
                arm[0] == "call" and arm[1][0] == "g" and arm[1][1] in self.repo.classes
                for arm in (base[2], base[3])):
            arms = []
            for arm in (base[2], base[3]):
                fake = ast.Attribute(value=ast.Constant(value=None), attr=e.attr, ctx=ast.Load())
                arms.append(self._field_of(arm, e.attr))
            if all(a is not None for a in arms):
                return phi_(base[1], arms[0], arms[1])
        # field of a freshly constructed (data)class instance: Carry(a, b, c).epoch -> c
        if base[0] == "call" and base[1][0] == "g" and base[1][1] in self.repo.classes:
            ci = self.repo.classes[base[1][1]]
            fields = ci.annotated_fields()
            if e.attr in fields and ci.own_method("__init__") is None \
                    and not any(t[0] == "star" for t in base[2]):
                for k, v in base[3]:
                    if k == e.attr:
                        return v
                i = fields.index(e.attr)
                if i < len(base[2]):
                    return base[2][i]
        loc = ("a", base, e.attr)
        if loc in self.env.heap and e.attr not in self.repo.property_names:
            # (a store through a property setter is not a plain field write: a later
            # read runs the getter, so the stored term is not forwarded)
            return self.env.heap[loc]
        if self.props is not None and base == n("self") and isinstance(e.ctx, ast.Load):
            getter = self.props(e.attr)
            if getter is not None and self.inline_depth > 0:
                sub = Evaluator(self.repo, getter, inline=getattr(self.inline, "_custom", None),
                                inline_depth=self.inline_depth - 1,
                                bindings={"self": n("self")})
                sub.env.heap.update(self.env.heap)
                sub.props = self.props
                sub.cond = self.cond
                r = sub.run().ret()
                if r is not None:
                    return r
        return loc

    def _tupleish(self, v, depth=0):
        """a NamedTuple built on the spot (positional arguments) unpacks like the tuple of
        its arguments -- also when it is chosen by a test"""
        if depth > 4 or not isinstance(v, tuple) or not v:
            return v
        if v[0] == "call" and v[1][0] == "g" and v[1][1] in self.repo.classes and not v[3] \
                and not any(a_[0] == "star" for a_ in v[2]) \
                and self.repo.classes[v[1][1]].own_method("__init__") is None \
                and any("NamedTuple" in str(b_) for b_ in self.repo.classes[v[1][1]].base_names):
            return ("tuple", tuple(v[2]))
        if v[0] == "phi" and len(v) == 4 and v[1][0] != "path":
            a, b = self._tupleish(v[2], depth + 1), self._tupleish(v[3], depth + 1)
            if a[0] == "tuple" and b[0] == "tuple":
                return ("phi", v[1], a, b)
        return v

    def _field_of(self, base, attr):
        """value of field `attr` of a constructor-call term of a plain record class"""
        if not (base[0] == "call" and base[1][0] == "g" and base[1][1] in self.repo.classes):
            return None
        ci = self.repo.classes[base[1][1]]
        fields = ci.annotated_fields()
        if attr not in fields or ci.own_method("__init__") is not None \
                or any(t[0] == "star" for t in base[2]):
            return None
        for k, v in base[3]:
            if k == attr:
                return v
        i = fields.index(attr)
        return base[2][i] if i < len(base[2]) else None

    def e_Subscript(self, e):
        base = self.expr(e.value)
        idx = self.expr(e.slice)
        loc = ("s", base, idx)
        if loc in self.env.heap:
            return self.env.heap[loc]
        # f(...)[i] with a constant index is the i-th component of the result: the same
        # term as tuple unpacking  a, b = f(...)
        if idx[0] == "c" and isinstance(idx[1], int) and not isinstance(idx[1], bool) \
                and idx[1] >= 0 and base[0] in ("call", "fresh", "proj"):
            # Record(x, y)[0] of a NamedTuple built on the spot is x
            if base[0] == "call" and base[1][0] == "g" and base[1][1] in self.repo.classes \
                    and not base[3] and idx[1] < len(base[2]) \
                    and not any(a_[0] == "star" for a_ in base[2]) \
                    and any("NamedTuple" in str(b_) for b_ in
                            self.repo.classes[base[1][1]].base_names):
                return base[2][idx[1]]
            return ("proj", base, idx[1])
        # projection of literal containers
        if base[0] in ("tuple", "list") and idx[0] == "c" and isinstance(idx[1], int):
            items = base[1]
            if -len(items) <= idx[1] < len(items):
                return items[idx[1]]
        if base[0] == "dict" and idx[0] == "c":
            for k, v in base[1]:
                if k == idx:
                    return v
        # a two-entry table indexed by a truth value is a choice:
        # {True: a, False: b}[bool(x)]  and  (b, a)[bool(x)]  are  a if x else b
        key = idx[2][0] if idx[0] == "call" and idx[1] in (("n", "bool"), ("g", "bool")) \
            and len(idx[2]) == 1 else None
        if key is not None:
            if base[0] == "dict" and len(base) == 2 and {k for k, _ in base[1]} == {
                    ("c", True), ("c", False)}:
                d_ = dict(base[1])
                return phi_(key, d_[("c", True)], d_[("c", False)])
            if base[0] == "tuple" and len(base[1]) == 2:
                return phi_(key, base[1][1], base[1][0])
        return loc

    def e_Slice(self, e):
        return ("slice", self.expr(e.lower), self.expr(e.upper), self.expr(e.step))

    def e_Tuple(self, e):
        return ("tuple", tuple(self.expr(x) for x in e.elts))

    def _uid(self):
        self.fresh_counter[0] += 1
        return ("id", self.fresh_counter[0])

    def e_List(self, e):
        if not e.elts:
            # an empty display is a fresh mutable accumulator: keep distinct ones apart
            return ("list", (), self._uid())
        return ("list", tuple(self.expr(x) for x in e.elts))

    def e_Set(self, e):
        return ("set", tuple(self.expr(x) for x in e.elts))

    def e_Dict(self, e):
        if not e.keys:
            return ("dict", (), self._uid())
        items = []
        for k, v in zip(e.keys, e.values):
            if k is None:
                items.append((("star2",), self.expr(v)))
            else:
                items.append((self.expr(k), self.expr(v)))
        return ("dict", tuple(items))

    def e_Starred(self, e):
        return ("star", self.expr(e.value))

    def e_BinOp(self, e):
        return ("op", BINOPS.get(type(e.op), type(e.op).__name__),
                self.expr(e.left), self.expr(e.right))

    def e_UnaryOp(self, e):
        x = self.expr(e.operand)
        o = UNOPS.get(type(e.op), "?")
        if o == "-" and x[0] == "c" and isinstance(x[1], (int, float)):
            return c(-x[1])
        if o == "not":
            return not_(x)
        return ("u", o, x)

    def e_BoolOp(self, e):
        return ("bool", "and" if isinstance(e.op, ast.And) else "or",
                tuple(self.expr(v) for v in e.values))

    def e_Compare(self, e):
        left = self.expr(e.left)
        parts = []
        for op, right in zip(e.ops, e.comparators):
            r = self.expr(right)
            parts.append(cmp_(CMPOPS.get(type(op), "?"), left, r))
            left = r
        if len(parts) == 1:
            return parts[0]
        return ("bool", "and", tuple(parts))

    def e_IfExp(self, e):
        return phi_(self.expr(e.test), self.expr(e.body), self.expr(e.orelse))

    def e_JoinedStr(self, e):
        parts = []
        for v in e.values:
            if isinstance(v, ast.Constant):
                parts.append(c(v.value))
            elif isinstance(v, ast.FormattedValue):
                parts.append(self.expr(v.value))
        return ("fstr", tuple(parts))

    def e_NamedExpr(self, e):
        v = self.expr(e.value)
        self.assign(e.target, v, e)
        return v

    def e_Lambda(self, e):
        params = [a.arg for a in e.args.posonlyargs + e.args.args + e.args.kwonlyargs]
        if e.args.vararg:
            params.append("*" + e.args.vararg.arg)
        # bound names are canonical (`_l<depth>_<i>`): renaming a lambda's parameter
        # changes no term
        depth = getattr(self, "_lam_depth", 0)
        self._lam_depth = depth + 1
        canon = []
        saved = {}
        for i_, p in enumerate(params):
            p_ = p.lstrip("*")
            cn = f"_l{depth}_{i_}"
            canon.append(("*" if p.startswith("*") else "") + cn)
            saved[p_] = self.env.vars.get(p_)
            self.env.vars[p_] = n(cn)
        body = self.expr(e.body)
        self._lam_depth = depth
        for p_, old in saved.items():
            if old is None:
                self.env.vars.pop(p_, None)
            else:
                self.env.vars[p_] = old
        return ("lambda", tuple(canon), body)

    def _comp(self, kind, elts, generators):
        saved = dict(self.env.vars)
        saved_cond = self.cond
        gens = []
        for gen in generators:
            it = self.expr(gen.iter)
            self.assign(gen.target, ("iter", it), gen)
            self.cond = self.cond + ((("inloop", it), True),)
            # filters in a flat normal form: conjunctions split, negations pushed to the
            # atoms (`if a and not (b or c)` == `if a if not b if not c`)
            conds = tuple(a_ if p_ else not_(a_)
                          for i in gen.ifs for a_, p_ in pcs(self.expr(i), True))
            gens.append((self._target_term(gen.target), it, conds))
        elt = tuple(self.expr(x) for x in elts)
        self.env.vars = saved
        self.cond = saved_cond
        return ("comp", kind, elt if len(elt) > 1 else elt[0], tuple(gens))

    def _target_term(self, t) -> Term:
        if isinstance(t, ast.Name):
            return n(t.id)
        if isinstance(t, (ast.Tuple, ast.List)):
            return ("tuple", tuple(self._target_term(x) for x in t.elts))
        return ("opaque", ast.unparse(t))

    def e_ListComp(self, e):
        return self._comp("list", [e.elt], e.generators)

    def e_SetComp(self, e):
        return self._comp("set", [e.elt], e.generators)

    def e_GeneratorExp(self, e):
        return self._comp("gen", [e.elt], e.generators)

    def e_DictComp(self, e):
        return self._comp("dict", [e.key, e.value], e.generators)

    def e_Call(self, e):
        # Option.is_none() is the negation of Option.is_some() (one canonical test)
        if isinstance(e.func, ast.Attribute) and e.func.attr == "is_none" \
                and not e.args and not e.keywords:
            twin = ast.Call(func=ast.Attribute(value=e.func.value, attr="is_some",
                                               ctx=ast.Load()), args=[], keywords=[])
            ast.copy_location(twin, e)
            ast.copy_location(twin.func, e.func)
            return not_(self.e_Call(twin))
        f = self.expr(e.func)
        args = tuple(self.expr(a) for a in e.args)
        kwargs = []
        for kw in e.keywords:
            if kw.arg is None:
                kwargs.append(("**", self.expr(kw.value)))
            else:
                kwargs.append((kw.arg, self.expr(kw.value)))
        args = tuple(self._fn_value(a) for a in args)
        kwargs = [(k, self._fn_value(v)) for k, v in kwargs]
        # f(*(a, b)) is f(a, b): unpacking a literal display passes its items
        if any(a[0] == "star" and a[1][0] in ("tuple", "list") and len(a[1]) == 2 for a in args):
            flat = []
            for a in args:
                if a[0] == "star" and a[1][0] in ("tuple", "list") and len(a[1]) == 2:
                    flat.extend(a[1][1])
                else:
                    flat.append(a)
            args = tuple(flat)
        # getattr(x, "name") and operator.attrgetter("name")(x) are x.name
        if f in (("n", "getattr"), ("g", "getattr")) and len(args) == 2 and not kwargs \
                and args[1][0] == "c" and isinstance(args[1][1], str):
            loc = ("a", args[0], args[1][1])
            return self.env.heap.get(loc, loc)
        if f[0] == "call" and fn_name(f[1]) == "operator.attrgetter" and len(f[2]) == 1 \
                and f[2][0][0] == "c" and isinstance(f[2][0][1], str) and len(args) == 1 \
                and not kwargs and "." not in f[2][0][1]:
            loc = ("a", args[0], f[2][0][1])
            return self.env.heap.get(loc, loc)
        # functools.partial(g, a, k=v)(b) is g(a, b, k=v)
        if f[0] == "call" and fn_name(f[1]) == "functools.partial" and f[2] \
                and not any(a[0] == "star" for a in f[2]):
            inner_f = f[2][0]
            merged_kw = dict(f[3])
            merged_kw.update(dict(kwargs))
            a2 = tuple(f[2][1:]) + tuple(args)
            if inner_f[0] == "lambda":
                fake_call = ast.copy_location(ast.Call(func=e.func, args=[], keywords=[]), e)
                params = list(inner_f[1])
                if not merged_kw and len(a2) == len(params) and not any(
                        p_.startswith("*") for p_ in params):
                    return substitute(inner_f[2], {n(p_): v_ for p_, v_ in zip(params, a2)})
            a3, k3 = self._canon_call(inner_f, a2, list(merged_kw.items()))
            t2 = ("call", inner_f, a3, tuple(sorted(k3)))
            self.res.calls.append((t2, e, self.cond))
            if self.inline is not None:
                r = self.inline(self, t2, e)
                if r is not None:
                    return r
            return t2
        if f[0] == "phi" and len(f) == 4 and f[1][0] != "path":
            # calling a conditionally chosen function: (f if c else g)(x) is
            # f(x) if c else g(x) -- the choice may be made before or around the call
            outs = []
            for arm, pol in ((f[2], True), (f[3], False)):
                a2, k2 = self._canon_call(arm, args, list(kwargs))
                t_arm = ("call", arm, a2, tuple(sorted(k2)))
                saved_cond = self.cond
                self.cond = self.cond + pcs(f[1], pol)
                self.res.calls.append((t_arm, e, self.cond))
                r_arm = self.inline(self, t_arm, e) if self.inline is not None else None
                self.cond = saved_cond
                outs.append(r_arm if r_arm is not None else t_arm)
            return phi_(f[1], outs[0], outs[1])
        args, kwargs = self._canon_call(f, args, kwargs)
        if f[0] == "lambda" and not kwargs:
            # applying a function value on the spot: (lambda a, b: e)(x, *ys) is e[a := x, ...]
            params = [p for p in f[1]]
            bound, i_p, ok_b = {}, 0, not any(p.startswith("*") for p in params)
            for a_ in args:
                if not ok_b:
                    break
                if a_[0] == "star":
                    k_ = 0
                    while i_p < len(params):
                        bound[n(params[i_p])] = ("proj", a_[1], k_)
                        i_p, k_ = i_p + 1, k_ + 1
                elif i_p < len(params):
                    bound[n(params[i_p])] = a_
                    i_p += 1
                else:
                    ok_b = False
            if ok_b and i_p == len(params):
                return substitute(f[2], bound)
        t = ("call", f, args, tuple(sorted(kwargs)))
        if not args and not kwargs and f in (("n", "dict"), ("n", "list"), ("n", "set")):
            t = (f[1], (), self._uid()) if f[1] != "set" else ("set", (), self._uid())
            return t
        if self.fresh is not None and self.fresh(t):
            self.fresh_counter[0] += 1
            t = ("fresh", self.fresh_counter[0], t)
            self.res.calls.append((t, e, self.cond))
            return t
        self.res.calls.append((t, e, self.cond))
        if self.inline is not None:
            r = self.inline(self, t, e)
            if r is not None:
                return r
        return t

    def _fn_value(self, t):
        """A reference to a NEW function (not in the baseline list) used as a value --
        handed to vmap / cond / combine_filtered / a node -- is read as the lambda it
        stands for, so naming a lambda (or un-naming a function) changes no term."""
        fi, bind_self = None, False
        if t[0] == "fn":
            # a local `def f(a): return e` is the lambda `lambda a: e` with a name
            lf = self.repo.functions.get(t[1])
            if lf is not None and isinstance(lf.node, ast.FunctionDef):
                body = [x for x in lf.node.body if not (isinstance(x, ast.Expr) and isinstance(
                    x.value, ast.Constant))]
                a = lf.node.args
                if len(body) == 1 and isinstance(body[0], ast.Return) and body[0].value is not None \
                        and not (a.vararg or a.kwarg or a.kwonlyargs or a.defaults):
                    lam = ast.Lambda(args=a, body=body[0].value)
                    ast.copy_location(lam, lf.node)
                    return self.e_Lambda(lam)
            return t
        if t[0] == "g":
            fi = self.repo.functions.get(t[1])
        elif t[0] == "a" and t[1] == n("self") and self.fi.cls is not None:
            fi = self.repo.lookup_method(self.fi.cls, t[2])
            bind_self = fi is not None and "staticmethod" not in fi.decorators()
        if fi is None or fi.qualname in baseline_functions() or "<locals>" in fi.qualname \
                or not isinstance(fi.node, ast.FunctionDef) or getattr(self, "_fv_depth", 0) > 2:
            return t
        a = fi.node.args
        if a.vararg or a.kwarg or a.kwonlyargs:
            return t
        params = [x.arg for x in a.posonlyargs + a.args]
        if bind_self:
            params = params[1:]
        sub = Evaluator(self.repo, fi, inline=getattr(self.inline, "_custom", None),
                        inline_depth=self.inline_depth,
                        bindings={"self": n("self")} if bind_self else None)
        sub._fv_depth = getattr(self, "_fv_depth", 0) + 1
        body = sub.run().ret()
        if body is None:
            return t
        depth = getattr(self, "_lam_depth", 0)
        canon = tuple(f"_l{depth}_{i_}" for i_ in range(len(params)))
        return ("lambda", canon, substitute(body, {n(p_): n(c_) for p_, c_ in zip(params, canon)}))

    def _canon_call(self, f, args, kwargs):
        """Keyword arguments of calls to liesel functions become positional where that
        is unambiguous (so f(a, b=x) and f(a, x) are the same term)."""
        if not kwargs or any(k == "**" for k, _ in kwargs) or any(
                a[0] == "star" for a in args):
            return args, kwargs
        try:
            params = callee_params(self.repo, f, self.fi.cls)
        except Exception:
            params = None
        if not params:
            params = _lib_params(f)
        if not params and f[0] == "a":
            # a method called on a value of unknown class: if exactly one class of the
            # package defines a method of that name, it is that one
            owners_ = [fi_ for ci_ in self.repo.classes.values()
                       for fi_ in ci_.methods.get(f[2], [])]
            sigs = {tuple(fi_.pos_params()[1:]) for fi_ in owners_
                    if "staticmethod" not in fi_.decorators()}
            if len(sigs) == 1 and owners_:
                params = list(next(iter(sigs)))
        if not params:
            return args, kwargs
        kw_ = dict(kwargs)
        out = list(args)
        i = len(out)
        while i < len(params) and params[i] in kw_:
            out.append(kw_.pop(params[i]))
            i += 1
        return tuple(out), list(kw_.items())

    def e_Await(self, e):
        return self.expr(e.value)

    # ------------------------------------------------------------- statements

    @staticmethod
    def _search_loops(stmts):
        """`for x in it: if p: return True` / `return False`  ==  `return any(p for x in
        it)` (and the dual with `all`): the explicit search loop gets the normal form of
        the generator expression."""
        out, i = [], 0
        while i < len(stmts):
            st = stmts[i]
            nxt = stmts[i + 1] if i + 1 < len(stmts) else None
            if isinstance(st, ast.For) and not st.orelse and len(st.body) == 1 \
                    and isinstance(st.body[0], ast.If) and not st.body[0].orelse \
                    and len(st.body[0].body) == 1 and isinstance(st.body[0].body[0], ast.Return) \
                    and isinstance(nxt, ast.Return) \
                    and isinstance(st.body[0].body[0].value, ast.Constant) \
                    and isinstance(getattr(nxt, "value", None), ast.Constant) \
                    and isinstance(st.body[0].body[0].value.value, bool) \
                    and isinstance(nxt.value.value, bool) \
                    and st.body[0].body[0].value.value != nxt.value.value:
                found = st.body[0].body[0].value.value
                test = st.body[0].test
                elt = test if found else ast.UnaryOp(op=ast.Not(), operand=test)
                gen = ast.GeneratorExp(elt=elt, generators=[ast.comprehension(
                    target=st.target, iter=st.iter, ifs=[], is_async=0)])
                call = ast.Call(func=ast.Name(id="any" if found else "all", ctx=ast.Load()),
                                args=[gen], keywords=[])
                new = ast.Return(value=call)
                ast.copy_location(new, st)
                ast.fix_missing_locations(new)
                out.append(new)
                i += 2
                continue
            out.append(st)
            i += 1
        return out

    @staticmethod
    def _continue_guards(stmts):
        """`if c: A; continue` followed by R  ==  `if c: A` / `else: R`: a guard clause in
        a loop body gets the normal form of the nested conditional."""
        for i, st in enumerate(stmts):
            if isinstance(st, ast.If) and not st.orelse and st.body \
                    and isinstance(st.body[-1], ast.Continue) and i + 1 < len(stmts) \
                    and not any(isinstance(x, (ast.Continue, ast.Break))
                                for b in st.body[:-1] for x in ast.walk(b)):
                rest = Evaluator._continue_guards(list(stmts[i + 1:]))
                if len(st.body) == 1:
                    # a bare guard: `if c: continue` + R  ==  `if not c: R`
                    new = ast.If(test=ast.UnaryOp(op=ast.Not(), operand=st.test), body=rest,
                                 orelse=[])
                else:
                    new = ast.If(test=st.test, body=list(st.body[:-1]), orelse=rest)
                ast.copy_location(new, st)
                ast.fix_missing_locations(new)
                return list(stmts[:i]) + [new]
        return stmts

    def block(self, stmts) -> bool:
        """Returns False when control cannot fall through."""
        stmts = self._search_loops(list(stmts))
        stmts = self._continue_guards(stmts)
        for st in stmts:
            m = getattr(self, "s_" + type(st).__name__, None)
            if m is None:
                continue
            if m(st) is False:
                return False
        return True

    def assign(self, target, value: Term, node) -> None:
        if isinstance(target, ast.Name):
            self.env.vars[target.id] = value
        elif isinstance(target, (ast.Tuple, ast.List)):
            value = self._tupleish(value)
            for i, t in enumerate(target.elts):
                if isinstance(t, ast.Starred):
                    self.assign(t.value, ("proj", value, f"{i}:"), node)
                elif value[0] in ("tuple", "list") and len(value[1]) == len(target.elts):
                    self.assign(t, value[1][i], node)
                elif value[0] == "phi" and len(value) == 4 and value[1][0] != "path" and all(
                        arm[0] in ("tuple", "list") and len(arm) == 2
                        and len(arm[1]) == len(target.elts) for arm in (value[2], value[3])):
                    # a, b = (x, y) if c else (u, v)
                    self.assign(t, phi_(value[1], value[2][1][i], value[3][1][i]), node)
                elif value[0] == "call" and value[1][0] == "g" and value[1][1] in self.repo.classes \
                        and self.repo.classes[value[1][1]].own_method("__init__") is None \
                        and not value[3] and len(value[2]) == len(target.elts) \
                        and not any(a_[0] == "star" for a_ in value[2]) \
                        and any("NamedTuple" in str(b_) for b_ in
                                self.repo.classes[value[1][1]].base_names):
                    # a, b = Record(x, y)   (a NamedTuple unpacks to its fields)
                    self.assign(t, value[2][i], node)
                else:
                    self.assign(t, ("proj", value, i), node)
        elif isinstance(target, ast.Attribute):
            base = self.expr(target.value)
            loc = ("a", base, target.attr)
            self.env.heap[loc] = value
            self.res.stores.append((loc, value, node, self.cond))
        elif isinstance(target, ast.Subscript):
            base = self.expr(target.value)
            loc = ("s", base, self.expr(target.slice))
            self.env.heap[loc] = value
            self.res.stores.append((loc, value, node, self.cond))

    def s_Assign(self, st):
        v = self.expr(st.value)
        for t in st.targets:
            self.assign(t, v, st)

    def s_AnnAssign(self, st):
        if st.value is not None:
            self.assign(st.target, self.expr(st.value), st)

    def s_AugAssign(self, st):
        if isinstance(st.target, ast.Name):
            old = self.name(st.target.id)
        else:
            old = self.expr(st.target)
        v = ("op", BINOPS.get(type(st.op), "?"), old, self.expr(st.value))
        self.assign(st.target, v, st)

    MUTATORS = ("append", "extend", "add", "update", "insert", "remove", "clear",
                "setdefault", "discard")

    def s_Expr(self, st):
        t = self.expr(st.value)
        # x.append(v) on a local accumulator: x now denotes the mutated object
        v = st.value
        if isinstance(v, ast.Call) and isinstance(v.func, ast.Attribute) \
                and v.func.attr in self.MUTATORS and isinstance(v.func.value, ast.Name) \
                and v.func.value.id in self.env.vars and t[0] == "call":
            old = self.env.vars[v.func.value.id]
            fresh_copy = old[0] == "call" and (
                (old[1][0] == "a" and old[1][2] == "copy" and not old[2])
                or (fn_name(old[1]) or "") in ("dict", "list", "set", "copy.copy",
                                               "copy.deepcopy"))
            if old[0] in ("list", "dict", "set", "mut", "comp", "carried", "loop", "phi") \
                    or fresh_copy:
                self.env.vars[v.func.value.id] = ("mut", old, v.func.attr, t[2], t[3])
        if t[0] == "call" or (t[0] not in ("c",)):
            self.res.effects.append(Effect(t, st, self.cond))

    def s_Return(self, st):
        self.res.returns.append((self.cond, self.expr(st.value), st))
        return False

    def s_Raise(self, st):
        self.res.raises.append((self.cond, self.expr(st.exc), st))
        return False

    def s_Assert(self, st):
        t = self.expr(st.test)
        self.res.effects.append(Effect(("assert", t), st, self.cond))

    def s_Pass(self, st):
        return None

    def s_Delete(self, st):
        for t in st.targets:
            self.res.effects.append(Effect(("del", self.expr(t)), st, self.cond))

    def s_FunctionDef(self, st):
        q = f"{self.fi.qualname}.<locals>.{st.name}"
        fi = self.repo.functions.get(q)
        if fi is not None:
            self.local_defs[st.name] = fi
            self.env.vars.pop(st.name, None)

    def s_ClassDef(self, st):
        self.env.vars[st.name] = ("opaque", f"class {st.name}")

    def s_Import(self, st):
        return None

    s_ImportFrom = s_Import
    s_Global = s_Import
    s_Nonlocal = s_Import

    def _join(self, cond: Term, e1: Env | None, e2: Env | None) -> None:
        if e1 is None and e2 is None:
            return
        if e1 is None:
            self.env = e2
            return
        if e2 is None:
            self.env = e1
            return
        out = Env()
        for k in set(e1.vars) | set(e2.vars):
            a, b = e1.vars.get(k), e2.vars.get(k)
            if a == b:
                out.vars[k] = a
            else:
                out.vars[k] = phi_(cond, a if a is not None else ("undef", k),
                                   b if b is not None else ("undef", k))
        for k in set(e1.heap) | set(e2.heap):
            a, b = e1.heap.get(k, k), e2.heap.get(k, k)
            out.heap[k] = a if a == b else phi_(cond, a, b)
        self.env = out

    def s_If(self, st):
        cond = self.expr(st.test)
        base_env, base_cond = self.env, self.cond
        self.env, self.cond = base_env.copy(), base_cond + pcs(cond, True)
        f1 = self.block(st.body)
        e1 = self.env if f1 else None
        self.env, self.cond = base_env.copy(), base_cond + pcs(cond, False)
        f2 = self.block(st.orelse)
        e2 = self.env if f2 else None
        self.cond = base_cond
        if e1 is None and e2 is None:
            self.env = base_env
            return False
        self._join(cond, e1, e2)
        # after an early exit in one arm the surviving arm's condition persists
        if e1 is None:
            self.cond = base_cond + pcs(cond, False)
        elif e2 is None:
            self.cond = base_cond + pcs(cond, True)

    def _loop(self, st, it: Term | None, cond: Term | None):
        before = self.env.copy()
        base_cond = self.cond
        # ---- pass 1 (discovery): which variables / heap locations does the body
        # write?  Those are loop-carried: inside the body, before the write, they
        # hold the value of the *previous* iteration, not the pre-loop value.
        marks = (len(self.res.stores), len(self.res.effects), len(self.res.calls),
                 len(self.res.returns), len(self.res.raises), len(self.res.loops),
                 len(getattr(self.res, "inlined", [])))
        fresh_saved = self.fresh_counter[0]
        if it is not None:
            self.assign(st.target, ("iter", it), st)
        else:
            self.expr(st.test)
        self.block(st.body)
        after1 = self.env
        changed_vars = [k for k in set(before.vars) | set(after1.vars)
                        if before.vars.get(k) != after1.vars.get(k)]
        changed_heap = [k for k in set(before.heap) | set(after1.heap)
                        if before.heap.get(k, k) != after1.heap.get(k, k)]
        del self.res.stores[marks[0]:], self.res.effects[marks[1]:], self.res.calls[marks[2]:]
        del self.res.returns[marks[3]:], self.res.raises[marks[4]:], self.res.loops[marks[5]:]
        if hasattr(self.res, "inlined"):
            del self.res.inlined[marks[6]:]
        self.fresh_counter[0] = fresh_saved
        # ---- pass 2: the real evaluation with carried locations marked
        self.env = before.copy()
        target_names = set()
        if it is not None:
            for x in ast.walk(st.target):
                if isinstance(x, ast.Name):
                    target_names.add(x.id)
        for k in changed_vars:
            if k in target_names:
                continue
            self.env.vars[k] = ("carried", k, before.vars.get(k, ("undef", k)))
        for k in changed_heap:
            # a location selected by the iteration variable is a different location in
            # every iteration: nothing is carried through it
            if any(x[0] == "iter" for x in subterms(k)):
                continue
            self.env.heap[k] = ("carried", k, before.heap.get(k, k))
        if it is not None:
            self.assign(st.target, ("iter", it), st)
        else:
            # the loop test sees the carried values
            cond = self.expr(st.test)
        self.cond = base_cond + ((("inloop", it if it is not None else cond), True),)
        stores0 = len(self.res.stores)
        eff0 = len(self.res.effects)
        calls0 = len(self.res.calls)
        self.block(st.body)
        self.cond = base_cond
        after = self.env
        merged = Env()
        carried = {}
        for k in set(before.vars) | set(after.vars):
            a, b = before.vars.get(k), after.vars.get(k)
            if a == b:
                merged.vars[k] = a
            else:
                merged.vars[k] = ("loop", k, b if b is not None else a)
                carried[k] = b
        for k in set(before.heap) | set(after.heap):
            a, b = before.heap.get(k, k), after.heap.get(k, k)
            merged.heap[k] = a if a == b else ("loop", k, b)
        self.res.loops.append({
            "node": st, "iter": it, "cond": cond, "carried": carried,
            "before": dict(before.vars), "before_heap": dict(before.heap),
            "stores": self.res.stores[stores0:], "effects": self.res.effects[eff0:],
            "calls": self.res.calls[calls0:], "env_after_body": after,
        })
        self.env = merged
        if st.orelse:
            self.block(st.orelse)

    def _accumulator_loop(self, st):
        """`x = []` ... `for t in it: [if c:] x.append(e)` is the comprehension
        `[e for t in it if c]`: (name, element ast, condition asts) or None."""
        if st.orelse:
            return None
        body, conds = self._continue_guards(list(st.body)), []
        while len(body) == 1 and isinstance(body[0], ast.If) and not body[0].orelse:
            conds.append(body[0].test)
            body = body[0].body
        # `d = {}` ... `for t in it: [if c:] d[k] = e` is the comprehension {k: e for ...}
        if len(body) == 1 and isinstance(body[0], ast.Assign) and len(body[0].targets) == 1 \
                and isinstance(body[0].targets[0], ast.Subscript) \
                and isinstance(body[0].targets[0].value, ast.Name):
            tg = body[0].targets[0]
            name = tg.value.id
            old = self.env.vars.get(name)
            if isinstance(old, tuple) and len(old) == 3 and old[0] == "dict" and old[1] == () \
                    and isinstance(old[2], tuple) and old[2][:1] == ("id",):
                parts = [st.iter, tg.slice, body[0].value, *conds]
                if not any(isinstance(x, ast.Name) and x.id == name
                           for part in parts for x in ast.walk(part)):
                    return name, (tg.slice, body[0].value), conds
            return None
        if len(body) != 1 or not isinstance(body[0], ast.Expr):
            return None
        v = body[0].value
        if not (isinstance(v, ast.Call) and isinstance(v.func, ast.Attribute)
                and v.func.attr in ("append", "extend") and isinstance(v.func.value, ast.Name)
                and len(v.args) == 1 and not v.keywords
                and not isinstance(v.args[0], ast.Starred)):
            return None
        name = v.func.value.id
        old = self.env.vars.get(name)
        if not (isinstance(old, tuple) and len(old) == 3 and old[0] == "list" and old[1] == ()
                and isinstance(old[2], tuple) and old[2][:1] == ("id",)):
            return None
        for part in [st.iter, v.args[0], *conds]:
            if any(isinstance(x, ast.Name) and x.id == name for x in ast.walk(part)):
                return None
        if v.func.attr == "extend":
            # x.extend(e) per iteration: [k for t in it if c for k in e]
            return name, ("extend", v.args[0]), conds
        return name, v.args[0], conds

    def s_For(self, st):
        acc = self._accumulator_loop(st)
        if acc is not None:
            name, elt, conds = acc
            gen = ast.comprehension(target=st.target, iter=st.iter, ifs=conds, is_async=0)
            ast.copy_location(gen, st)
            if isinstance(elt, tuple) and elt[0] == "extend" and isinstance(
                    elt[1], (ast.GeneratorExp, ast.ListComp)):
                # extend(<comprehension>): its generators simply follow the loop's
                self.env.vars[name] = self._comp("list", [elt[1].elt], [gen, *elt[1].generators])
            elif isinstance(elt, tuple) and elt[0] == "extend":
                inner = ast.comprehension(target=ast.Name(id="_lsa_k", ctx=ast.Store()),
                                          iter=elt[1], ifs=[], is_async=0)
                ast.copy_location(inner, st)
                ast.fix_missing_locations(inner)
                k_ = ast.Name(id="_lsa_k", ctx=ast.Load())
                ast.copy_location(k_, st)
                self.env.vars[name] = self._comp("list", [k_], [gen, inner])
            elif isinstance(elt, tuple):
                self.env.vars[name] = self._comp("dict", list(elt), [gen])
            else:
                self.env.vars[name] = self._comp("list", [elt], [gen])
            return None
        # a loop over a short literal display is the statements written out
        if isinstance(st.iter, (ast.Tuple, ast.List)) and 1 <= len(st.iter.elts) <= 4 \
                and not st.orelse and not any(isinstance(x, ast.Starred) for x in st.iter.elts) \
                and not any(isinstance(x, (ast.Break, ast.Continue, ast.Return))
                            for b in st.body for x in ast.walk(b)):
            for elt in st.iter.elts:
                self.assign(st.target, self.expr(elt), st)
                if self.block(st.body) is False:
                    return False
            return None
        self._loop(st, self.expr(st.iter), None)

    def s_While(self, st):
        self._loop(st, None, ("whiletest",))

    def s_With(self, st):
        for item in st.items:
            v = self.expr(item.context_expr)
            if item.optional_vars is not None:
                self.assign(item.optional_vars, ("enter", v), st)
        return self.block(st.body)

    def s_Try(self, st):
        base = self.env.copy()
        f = self.block(st.body)
        e_body = self.env if f else None
        if f and st.orelse:
            f = self.block(st.orelse)
            e_body = self.env if f else None
        outs = [e_body]
        base_cond = self.cond
        for h in st.handlers:
            self.env = base.copy()
            ht = self.expr(h.type) if h.type is not None else c(None)
            self.cond = base_cond + ((("except", ht), True),)
            if h.name:
                self.env.vars[h.name] = ("exc", ht)
            fh = self.block(h.body)
            outs.append(self.env if fh else None)
        self.cond = base_cond
        live = [e for e in outs if e is not None]
        if not live:
            self.env = base
            if st.finalbody:
                self.block(st.finalbody)
            return False
        self.env = live[0]
        for other in live[1:]:
            self._join(("except?",), self.env, other)
        if st.finalbody:
            return self.block(st.finalbody)

    def s_Match(self, st):
        subj = self.expr(st.subject)
        base = self.env.copy()
        outs = []
        for case in st.cases:
            self.env = base.copy()
            base_cond = self.cond
            self.cond = base_cond + ((("case", subj, ast.unparse(case.pattern)), True),)
            f = self.block(case.body)
            self.cond = base_cond
            outs.append(self.env if f else None)
        live = [e for e in outs if e is not None]
        if not live:
            self.env = base
            return False
        self.env = live[0]
        for other in live[1:]:
            self._join(("case?",), self.env, other)

    def s_Break(self, st):
        return False

    s_Continue = s_Break


# --------------------------------------------------------------------- running


def evaluate(repo: Repo, fi: FunctionInfo, *, inline=None, inline_depth=2,
             bindings=None, closure=None, fresh=None, props=None) -> Result:
    ev = Evaluator(repo, fi, inline=inline, inline_depth=inline_depth,
                   bindings=bindings, closure=closure)
    ev.fresh = fresh
    ev.props = props
    return ev.run()


def bind_args(fi: FunctionInfo, args: tuple, kwargs: tuple, skip_self: bool = False,
              evaluator: Evaluator | None = None) -> dict[str, Term] | None:
    """Bind call arguments to the parameter names of ``fi`` (None if not bindable)."""
    a = fi.node.args
    pos = [x.arg for x in a.posonlyargs + a.args]
    if skip_self and pos and pos[0] in ("self", "cls"):
        pos = pos[1:]
    out: dict[str, Term] = {}
    if any(t[0] == "star" for t in args) or any(k == "**" for k, _ in kwargs):
        return None
    if len(args) > len(pos) and a.vararg is None:
        return None
    for p, t in zip(pos, args):
        out[p] = t
    if a.vararg is not None and len(args) > len(pos):
        out[a.vararg.arg] = ("tuple", tuple(args[len(pos):]))
    allowed = set(pos) | {x.arg for x in a.kwonlyargs}
    for k, t in kwargs:
        if k not in allowed:
            if a.kwarg is None:
                return None
            continue
        if k in out:
            return None
        out[k] = t
    # defaults
    defaults = a.defaults
    all_pos = [x.arg for x in a.posonlyargs + a.args]
    for name_, d in zip(all_pos[len(all_pos) - len(defaults):], defaults):
        if name_ not in out:
            out[name_] = const_expr(d)
    for x, d in zip(a.kwonlyargs, a.kw_defaults):
        if x.arg not in out and d is not None:
            out[x.arg] = const_expr(d)
    return out


def const_expr(e: ast.AST) -> Term:
    if isinstance(e, ast.Constant):
        return c(e.value)
    if isinstance(e, ast.UnaryOp) and isinstance(e.op, ast.USub) and isinstance(
            e.operand, ast.Constant):
        return c(-e.operand.value)
    return ("opaque", ast.unparse(e))


def unwrap_callable(t: Term) -> Term:
    """jit(vmap(partial(f, ...))) -> f"""
    while t[0] == "call" and t[2]:
        nm = fn_name(t[1]) or ""
        if nm in ("jax.jit", "jax.vmap", "jax.pmap", "functools.partial",
                  "jax.checkpoint", "jax.remat"):
            t = t[2][0]
        else:
            break
    return t


_BASELINE: set[str] | None = None


def baseline_functions() -> set[str]:
    """Functions the rules were written against (lsa/baseline_functions.txt).  A function
    that is NOT in this list did not exist then: no rule can be asking about it by name, so
    a call to it is read through (inlined) wherever a rule interprets its caller -- an
    "extract helper" refactor is transparent, and a helper that changes behaviour is
    judged by what it does."""
    global _BASELINE
    if _BASELINE is None:
        import os
        p = os.path.join(os.path.dirname(os.path.dirname(os.path.abspath(__file__))),
                         "baseline_functions.txt")
        with open(p) as fh:
            _BASELINE = {l.strip() for l in fh if l.strip()}
    return _BASELINE


def _with_new_helpers(repo: Repo, fi: FunctionInfo, custom):
    base = baseline_functions()
    new = make_inliner(repo, self_class=fi.cls, keep_depth=True,
                       allow=lambda f: f.qualname not in base and "<locals>" not in f.qualname
                       and "property" not in f.decorators())

    def composed(ev, t, node):
        if custom is not None and ev.inline_depth > 0:
            r = custom(ev, t, node)
            if r is not None:
                return r
        if len(getattr(ev, "_new_chain", ())) < 4:
            return new(ev, t, node)
        return None
    composed._custom = custom
    return composed


def make_inliner(repo: Repo, targets: dict[str, FunctionInfo] | None = None,
                 self_class=None, allow: Callable[[FunctionInfo], bool] | None = None,
                 field_table: dict[str, FunctionInfo] | None = None, keep_depth: bool = False):
    """
    Inline calls to liesel functions: ``self.m(...)`` via the MRO of ``self_class``
    and resolved module-level functions.  Only single-return-term callees are
    inlined (their merged return term replaces the call).
    """

    def inliner(ev: Evaluator, t: Term, node: ast.Call):
        f = t[1]
        callee = None
        skip_self = False
        if f[0] == "a" and f[1] == n("self") and self_class is not None:
            callee = repo.lookup_method(self_class, f[2])
            skip_self = True
            if callee is not None and "property" in callee.decorators():
                callee = None
            if callee is None and field_table and f[2] in field_table:
                callee = field_table[f[2]]
        elif f[0] == "g":
            callee = repo.functions.get(f[1])
        elif f[0] == "fn":
            callee = repo.functions.get(f[1])
        recv_term = None
        if callee is None and keep_depth and f[0] == "a" and f[1][0] == "call" \
                and f[1][1][0] == "g" and f[1][1][1] in repo.classes:
            # obj.method(...) on a record built on the spot: the method of that (new) class
            callee = repo.lookup_method(repo.classes[f[1][1][1]], f[2])
            if callee is not None and ("property" in callee.decorators()
                                       or "staticmethod" in callee.decorators()):
                callee = None
            skip_self, recv_term = True, f[1]
        if callee is None or isinstance(callee.node, ast.Lambda):
            return None
        if allow is not None and not allow(callee):
            return None
        if callee.qualname == ev.fi.qualname:
            return None
        b = bind_args(callee, t[2], t[3], skip_self=skip_self)
        if b is None:
            return None
        if skip_self:
            b["self"] = n("self") if recv_term is None else recv_term
            if recv_term is not None and callee.pos_params():
                b[callee.pos_params()[0]] = recv_term
        closure = dict(ev.env.vars) if f[0] == "fn" else None
        if keep_depth:
            # reading through a NEW helper costs the rule nothing of its own inlining budget;
            # the helper's callees are seen by the caller's own (custom) inliner
            sub = Evaluator(repo, callee, inline=getattr(ev.inline, "_custom", None),
                            inline_depth=ev.inline_depth, bindings=b, closure=closure)
            sub._new_chain = getattr(ev, "_new_chain", ()) + (callee.qualname,)
        else:
            sub = Evaluator(repo, callee, inline=inliner, inline_depth=ev.inline_depth - 1,
                            bindings=b, closure=closure)
        sub.env.heap.update(ev.env.heap)
        sub.cond = ev.cond
        sub.fresh = ev.fresh
        sub.fresh_counter = ev.fresh_counter
        sub.props = ev.props
        r = sub.run()
        rt = r.ret()
        if rt is None:
            rt = c(None)
        # propagate heap effects of the callee (mutation of arguments)
        for loc, val in sub.env.heap.items():
            if ev.env.heap.get(loc) != val:
                ev.env.heap[loc] = val
        # (entries keep the moment they were evaluated at: see TickList)
        for i_, s in enumerate(r.stores):
            ev.res.stores.append(s, tick=r.stores.ticks[i_])
        for e in r.effects:
            ev.res.effects.append(e)
        for i_, cl in enumerate(r.calls):
            ev.res.calls.append(cl, tick=r.calls.ticks[i_])
        for lp in r.loops:
            ev.res.loops.append(lp)
        # a guard that rejects inside the callee rejects the caller's call as well
        for i_, rz in enumerate(r.raises):
            ev.res.raises.append(rz, tick=r.raises.ticks[i_])
        ev.res.inlined = getattr(ev.res, "inlined", [])
        ev.res.inlined.append((callee, r, t))
        ev.res.inlined.extend(getattr(r, "inlined", []))
        return rt

    return inliner


# --------------------------------------------------------------------- utilities


def subterms(t):
    """All sub-terms (pre-order), including t."""
    stack = [t]
    while stack:
        x = stack.pop()
        if not isinstance(x, tuple):
            continue
        if x and isinstance(x[0], str):
            yield x
        for y in x[1:] if (x and isinstance(x[0], str)) else x:
            if isinstance(y, tuple):
                stack.append(y)


def contains(t, sub) -> bool:
    return any(x == sub for x in subterms(t))


def names_in(t) -> set[str]:
    return {x[1] for x in subterms(t) if x[0] == "n"}


def calls_in(t, fname: str | None = None):
    for x in subterms(t):
        if x[0] == "call":
            if fname is None or fn_name(x[1]) == fname or (
                    fn_name(x[1]) or "").endswith("." + fname):
                yield x


def fn_name(f: Term) -> str | None:
    """Readable dotted name of a callee term."""
    if f[0] == "g":
        return f[1]
    if f[0] == "n":
        return f[1]
    if f[0] == "fn":
        return f[1]
    if f[0] == "a":
        b = fn_name(f[1])
        return f"{b}.{f[2]}" if b else None
    return None


def kw(t: Term, name: str, pos: int | None = None) -> Term | None:
    """Argument of a call term by keyword name or position."""
    assert t[0] == "call"
    for k, v in t[3]:
        if k == name:
            return v
    if pos is not None and pos < len(t[2]):
        return t[2][pos]
    if pos is None and _REPO[0] is not None:
        # calls to liesel functions / classes are stored with canonical positional
        # arguments: find the parameter's position from the callee's signature
        try:
            params = callee_params(_REPO[0], t[1])
        except Exception:
            params = None
        if params and name in params and params.index(name) < len(t[2]):
            return t[2][params.index(name)]
    return None


def substitute(t, mapping: dict):
    if not isinstance(t, tuple):
        return t
    if t in mapping:
        return mapping[t]
    return tuple(substitute(x, mapping) for x in t)


def strip_phi(t, choose=None):
    """Replace loop/phi wrappers by the chosen arm (default: keep)."""
    return t


def pretty(t, depth: int = 0) -> str:
    if not isinstance(t, tuple) or not t:
        return repr(t)
    tag = t[0]
    if depth > 12:
        return "..."
    if not isinstance(tag, str):
        return "[" + ", ".join(pretty(x, depth + 1) for x in t) + "]"
    p = lambda x: pretty(x, depth + 1)
    if tag == "c":
        return repr(t[1])
    if tag in ("n", "g"):
        return t[1].rsplit(".", 2)[-1] if tag == "n" else t[1]
    if tag == "fn":
        return f"<fn {t[1].rsplit('.', 1)[-1]}>"
    if tag == "a":
        return f"{p(t[1])}.{t[2]}"
    if tag == "s":
        return f"{p(t[1])}[{p(t[2])}]"
    if tag == "call":
        args = [p(a) for a in t[2]] + [f"{k}={p(v)}" for k, v in t[3]]
        return f"{p(t[1])}({', '.join(args)})"
    if tag == "op":
        return f"({p(t[2])} {t[1]} {p(t[3])})"
    if tag == "u":
        return f"({t[1]} {p(t[2])})"
    if tag == "cmp":
        return f"({p(t[2])} {t[1]} {p(t[3])})"
    if tag == "bool":
        return "(" + f" {t[1]} ".join(p(x) for x in t[2]) + ")"
    if tag in ("tuple", "list", "set"):
        return f"{tag}(" + ", ".join(p(x) for x in t[1]) + ")" + (
            f"#{t[2][1]}" if len(t) > 2 else "")
    if tag == "dict":
        return "{" + ", ".join(f"{p(k)}: {p(v)}" for k, v in t[1]) + "}" + (
            f"#{t[2][1]}" if len(t) > 2 else "")
    if tag == "lambda":
        return f"(lambda {', '.join(t[1])}: {p(t[2])})"
    if tag in ("phi", "ifexp"):
        return f"{tag}({p(t[1])} ? {p(t[2])} : {p(t[3])})"
    if tag == "proj":
        return f"{p(t[1])}#{t[2]}"
    if tag == "iter":
        return f"each({p(t[1])})"
    if tag == "loop":
        return f"loop[{t[1] if isinstance(t[1], str) else p(t[1])}]({p(t[2])})"
    if tag == "comp":
        return f"{t[1]}comp({p(t[2])} for {', '.join(p(g_[0]) + ' in ' + p(g_[1]) for g_ in t[3])})"
    if tag == "slice":
        return f"{p(t[1])}:{p(t[2])}:{p(t[3])}"
    if tag == "opaque":
        return f"<{t[1]}>"
    if tag == "fresh":
        return f"{p(t[2])}@{t[1]}"
    if tag == "mut":
        args = [p(a) for a in t[3]] + [f"{k}={p(v)}" for k, v in t[4]]
        return f"{p(t[1])}.{t[2]}!({', '.join(args)})"
    if tag == "carried":
        return f"carried[{t[1] if isinstance(t[1], str) else p(t[1])}]"
    return tag + "(" + ", ".join(p(x) if isinstance(x, tuple) else repr(x) for x in t[1:]) + ")"
