"""
C12 -- mass-matrix adaptation is aligned with the parameters it scales.

Leaf-order provenance: every value stored into ``kernel_state.inverse_mass_matrix``
is consumed by blackjax coordinate-wise against ``ravel_pytree(position)`` (sorted key
order).  The abstract order of a value is CANON (pytree flatten order), SORTED (sorted
by key, equal to CANON for flat string-keyed positions), INSERTION(src) (dict
insertion / iteration order of ``src``) or UNKNOWN.
"""

from __future__ import annotations

from ..core.terms import (c, evaluate, fn_name, kw, make_inliner, n, pretty, subterms)
from .c07 import kernel_sequence_obligations
from .common import LIB_FACTS, is_call, method, short

CANON, SORTED, UNKNOWN = ("CANON",), ("SORTED",), ("UNKNOWN",)

ELEMENTWISE = {"var", "cov", "atleast_1d", "atleast_2d", "sqrt", "asarray", "array", "abs",
               "square", "std", "nanvar", "diag", "ones_like", "zeros_like", "log", "exp"}
STACKERS = {"column_stack", "concatenate", "stack", "hstack", "vstack"}
CANON_FNS = {"jax.flatten_util.ravel_pytree", "jax.tree_util.tree_leaves",
             "jax.tree_util.tree_flatten", "jax.tree.leaves", "jax.tree.flatten",
             "jax.tree_util.tree_map", "jax.tree.map"}


_REPO = None


def order_of(t, depth=0):
    """Abstract leaf order of the coordinates of an array-valued term."""
    if depth > 60 or not isinstance(t, tuple) or not t:
        return UNKNOWN
    tag = t[0]
    if tag == "proj":
        if is_call(t[1], "jax.flatten_util.ravel_pytree") and t[2] == 0:
            return CANON
        return order_of(t[1], depth + 1)
    if tag == "s":
        if is_call(t[1], "jax.flatten_util.ravel_pytree") and t[2] == c(0):
            return CANON
        return order_of(t[1], depth + 1)
    if tag == "op":
        a, b = order_of(t[2], depth + 1), order_of(t[3], depth + 1)
        if t[2][0] == "c":
            return b
        if t[3][0] == "c":
            return a
        return a if a == b else (a if b == UNKNOWN and t[3][0] in ("c", "n", "a") else
                                 (b if a == UNKNOWN and t[2][0] in ("c", "n", "a") else UNKNOWN))
    if tag in ("phi", "ifexp"):
        a, b = order_of(t[2], depth + 1), order_of(t[3], depth + 1)
        if a == b:
            return a
        if {a, b} <= {CANON, SORTED}:
            return SORTED
        return a if a[0] == "INSERTION" else (b if b[0] == "INSERTION" else UNKNOWN)
    if tag == "call":
        f = t[1]
        name = fn_name(f) or ""
        short_name = name.rsplit(".", 1)[-1]
        if name in CANON_FNS:
            return CANON
        # jax.vmap(g)(x): order of g's result
        if f[0] == "call" and is_call(f, "jax.vmap") and f[2]:
            g = f[2][0]
            if g[0] == "lambda":
                return order_of(g[2], depth + 1)
            if g[0] == "g" and g[1] in CANON_FNS:
                return CANON
            if g[0] == "g" and g[1] in ("jax.numpy.ravel",) and t[2]:
                return order_of(t[2][0], depth + 1)
            if g[0] in ("fn", "g") and _REPO is not None:
                # a named (local / module-level) function: the order of what it returns
                from .common import fn_parts
                parts = fn_parts(_REPO, g)
                if parts is not None and parts[1] is not None:
                    return order_of(parts[1], depth + 1)
            return UNKNOWN
        # x.at[...].add(v) / set(v)
        if f[0] == "a" and f[2] in ("add", "set", "multiply") and f[1][0] == "s" \
                and f[1][1][0] == "a" and f[1][1][2] == "at":
            return order_of(f[1][1][1], depth + 1)
        if name.startswith(("jax.numpy.", "numpy.")):
            if short_name in STACKERS and t[2]:
                return seq_order(t[2][0], depth + 1)
            if short_name in ELEMENTWISE and t[2]:
                return order_of(t[2][0], depth + 1)
            if short_name == "eye":
                return order_of(t[2][0], depth + 1) if t[2] else UNKNOWN
        if f[0] == "a" and f[2] in ("size", "shape"):
            return order_of(f[1], depth + 1)
        return UNKNOWN
    if tag == "a" and t[2] in ("size", "shape", "T"):
        return order_of(t[1], depth + 1)
    return UNKNOWN


TRANSPOSERS = {"transpose", "swapaxes", "moveaxis", "rollaxis", "permute_dims", "matrix_transpose"}
FLATTENERS = {"reshape", "ravel", "flatten"}


def _is_transposed(t):
    """Terms inside ``t`` that permute array axes (x.T, x.mT, transpose(x), swapaxes...)."""
    out = []
    for x in subterms(t):
        if x[0] == "a" and x[2] in ("T", "mT"):
            out.append(x)
        elif x[0] == "call":
            nm = (fn_name(x[1]) or "").rsplit(".", 1)[-1]
            if x[1][0] == "a" and x[1][2] in TRANSPOSERS:
                nm = x[1][2]
            if nm in TRANSPOSERS:
                # moveaxis(x, 0, -1) keeps the relative order of the remaining axes
                args = x[2][1:] if x[1][0] != "a" or x[1][2] not in TRANSPOSERS else x[2]
                if nm == "moveaxis" and tuple(args) in ((c(0), c(-1)), (c(-1), c(0))):
                    continue
                out.append(x)
            elif kw(x, "order") not in (None, c("C")):
                out.append(x)
    return out


def layout_breaks(t):
    """Flattening calls whose operand had its axes permuted first: the element order
    inside a leaf is then not the row-major order of ravel_pytree."""
    bad = []
    for x in subterms(t):
        if x[0] != "call":
            continue
        f = x[1]
        nm = (fn_name(f) or "").rsplit(".", 1)[-1]
        operand = None
        if f[0] == "a" and f[2] in FLATTENERS:
            operand = f[1]
        elif nm in FLATTENERS and x[2]:
            operand = x[2][0]
        if operand is None:
            continue
        if kw(x, "order") not in (None, c("C")):
            bad.append(x)
        elif _is_transposed(operand):
            bad.append(x)
    return bad


def seq_order(t, depth=0):
    """Order of a *sequence* of arrays (the operand of column_stack etc.)."""
    if t[0] == "comp":
        gens = t[3]
        if len(gens) != 1:
            return UNKNOWN
        return iter_order(gens[0][1], depth + 1)
    if t[0] in ("list", "tuple"):
        return UNKNOWN
    if t[0] == "call":
        name = fn_name(t[1]) or ""
        if name in ("jax.tree_util.tree_leaves", "jax.tree.leaves"):
            return CANON
        if name in ("list", "tuple") and t[2]:
            return iter_order(t[2][0], depth + 1)
    return UNKNOWN


def iter_order(it, depth=0):
    """Order in which iterating ``it`` visits the entries of a mapping."""
    if it[0] == "call":
        f = it[1]
        name = fn_name(f) or ""
        if name == "sorted":
            return SORTED
        if f[0] == "a" and f[2] in ("values", "items", "keys"):
            src = f[1]
            return ("INSERTION", pretty(src))
        if name in ("jax.tree_util.tree_leaves", "jax.tree.leaves"):
            return CANON
        if name in ("list", "tuple", "reversed", "enumerate", "zip") and it[2]:
            return iter_order(it[2][0], depth + 1)
    if it[0] in ("n", "a"):
        return ("INSERTION", pretty(it))
    return UNKNOWN


def check(ctx):
    global _REPO
    repo = _REPO = ctx.repo
    ctx.rule("R1", "every value stored into kernel_state.inverse_mass_matrix has the leaf "
                   "order of ravel_pytree(position) (CANON / SORTED).")
    ctx.rule("R2", "the tuner sees the history of the kernel's own position keys only; the "
                   "step-size rescaling uses matching trace functions for old and new "
                   "matrix.")
    ctx.rule("R3", "the history given to tune is mapped over chains (axis 0).")
    ctx.trust(LIB_FACTS["dict_order"], LIB_FACTS["blackjax"])
    ctx.undecided("that the matrix equals the regularised sample (co)variance numerically")

    kernels = {}
    for q in ("liesel.goose.nuts.NUTSKernel", "liesel.goose.hmc.HMCKernel"):
        kernels[q] = repo.cls(q)
    # every class with a _tune_slow that stores inverse_mass_matrix
    for q, ci in repo.classes.items():
        if q.startswith("liesel.goose.") and ci.own_method("_tune_slow") and q not in kernels \
                and q != "liesel.goose.kernel.TuningMixin":
            kernels[q] = ci
    ctx.require_min("kernels with a mass-matrix tuner", len(kernels), 2)

    allow = lambda f: f.module.name in ("liesel.goose.mm",) or (  # noqa: E731
        f.cls is not None and f.name in ("position", "_tune_fast"))
    for q, ci in sorted(kernels.items()):
        inl = make_inliner(repo, self_class=ci, allow=allow)
        ts = method(repo, ci, "_tune_slow")
        res = evaluate(repo, ts, inline=inl, inline_depth=4)
        for callee, _, _ in getattr(res, "inlined", []):
            ctx.saw(callee)
        ks = n("kernel_state")
        stores = [(loc, val, node, cond) for loc, val, node, cond in res.stores
                  if loc == ("a", ks, "inverse_mass_matrix")]
        ctx.ob("C12.R1", ts, "_tune_slow stores the tuned inverse mass matrix", len(stores) == 1,
               detail=f"{len(stores)} stores")
        for loc, val, node, cond in stores:
            arms = [val]
            if val[0] == "phi":
                arms = [val[2], val[3]]
            for arm in arms:
                o = order_of(arm)
                ok = o in (CANON, SORTED)
                ctx.ob("C12.R1", ts, "the tuned inverse mass matrix is laid out in the "
                                     "flatten order of the position (not in the order the "
                                     "position keys were listed)", ok, unproven=o == UNKNOWN,
                       detail=f"coordinate order of the stored value: {o}; value "
                              f"{short(arm, 200)}", node=node,
                       stmt=f"inverse_mass_matrix order {o[0]}",
                       facts={"order": list(o), "path": f"{ci.name}._tune_slow -> "
                                                        "tune_inv_mm_* -> _history_to_matrix"})
                lb = layout_breaks(arm)
                ctx.ob("C12.R1", ts, "no axis permutation precedes a reshape/ravel on the way "
                                     "from the history to the stored matrix (row-major element "
                                     "order inside each leaf, as in ravel_pytree)", not lb,
                       unproven=True, detail="; ".join(short(x, 100) for x in lb[:2]),
                       node=node, stmt="tuned matrix layout " + (pretty(lb[0])[:100] if lb else ""))
        # the stored value is the tuner's result itself (selected by mm_diag), not a
        # post-processed version of it (e.g. its diagonal only, a blend with the old one)
        res0 = evaluate(repo, ts, inline=make_inliner(
            repo, self_class=ci, allow=lambda f: f.cls is not None and f.name in (
                "position", "_tune_fast")), inline_depth=2)
        st0 = [val for loc, val, _, _ in res0.stores
               if loc == ("a", ks, "inverse_mass_matrix")]
        ok_raw = False
        if len(st0) == 1 and st0[0][0] == "phi" and st0[0][1] == ("a", n("self"), "mm_diag"):
            d_arm, f_arm = st0[0][2], st0[0][3]
            ok_raw = (is_call(d_arm, "liesel.goose.mm.tune_inv_mm_diag")
                      and is_call(f_arm, "liesel.goose.mm.tune_inv_mm_full")
                      and d_arm[2] == f_arm[2] and len(d_arm[2]) == 1)
        ctx.ob("C12.R1", ts, "the stored matrix is exactly tune_inv_mm_diag(history) in "
                             "diagonal mode and tune_inv_mm_full(history) in dense mode (no "
                             "post-processing of the tuned matrix)", ok_raw,
               detail=short(st0[0], 200) if st0 else "no store", stmt="stored matrix is the tuner result")
        # ---- R2: history restricted to own keys
        calls = [t for t, _, _ in res.calls if is_call(t, "liesel.goose.mm.tune_inv_mm_diag",
                                                       "liesel.goose.mm.tune_inv_mm_full")]
        ctx.call_sites += len(calls)
        ctx.ob("C12.R2", ts, "diag and dense tuner are both reachable", len(calls) == 2,
               detail=f"{len(calls)} tuner calls")
        for t in calls:
            h = t[2][0] if t[2] else kw(t, "history")
            inner = h
            if inner is not None and is_call(inner, "liesel.goose.types.Position") and inner[2]:
                inner = inner[2][0]
            ok = False
            if inner is not None and inner[0] == "comp" and inner[1] == "dict":
                (kt, vt), gens = inner[2], inner[3]
                if len(gens) == 1:
                    tgt, it, conds = gens[0]
                    ok = (it == ("a", n("self"), "position_keys") and not conds
                          and kt[0] == "iter" and vt == ("s", n("history"), kt))
            ctx.ob("C12.R2", ts, "the tuner receives {k: history[k] for k in "
                                 "self.position_keys} (own parameters only)", ok,
                   detail=f"history argument {short(h or ())}",
                   stmt="tuner history " + pretty(h or ())[:160])
        # trace functions
        st_step = [val for loc, val, _, _ in res.stores if loc == ("a", ks, "step_size")]
        ok_trace = False
        detail = ""
        if len(st_step) == 1:
            v = st_step[0]
            sq = [x for x in subterms(v) if is_call(x, "jax.numpy.sqrt")]
            if len(sq) == 1 and sq[0][2][0][0] == "op" and sq[0][2][0][1] == "/":
                num, den = sq[0][2][0][2], sq[0][2][0][3]
                detail = f"sqrt({short(num, 80)} / {short(den, 80)})"

                def trace_pairs(x):
                    # phi(mm_diag ? sum : trace)(arg)  ==  phi(mm_diag ? sum(arg) : trace(arg))
                    if x[0] == "call" and x[1][0] == "phi":
                        return x[1], x[2][0]
                    if x[0] == "phi" and x[2][0] == "call" and x[3][0] == "call" \
                            and x[2][2][:1] == x[3][2][:1] and len(x[2][2]) == 1:
                        return ("phi", x[1], x[2][1], x[3][1]), x[2][2][0]
                    return None, None
                fn_n, arg_n = trace_pairs(num)
                fn_d, arg_d = trace_pairs(den)
                mm = ("a", n("self"), "mm_diag")
                good_fn = ("phi", mm, ("g", "jax.numpy.sum"), ("g", "jax.numpy.trace"))
                new = stores[0][1] if stores else None
                ok_trace = (fn_n == good_fn and fn_d == good_fn
                            and arg_n == ("a", ks, "inverse_mass_matrix")
                            and arg_d == new and new is not None and new[0] == "phi"
                            and new[1] == mm
                            and is_call(new[2], "jax.numpy.add") is False)
                if ok_trace:
                    # diag arm pairs with sum, dense arm with trace
                    d_arm, f_arm = new[2], new[3]
                    ok_trace = (any(is_call(x, "jax.numpy.var") for x in subterms(d_arm))
                                and any(is_call(x, "jax.numpy.cov") for x in subterms(f_arm)))
        if ok_trace:
            v = st_step[0]
            old_ss = ("a", ks, "step_size")
            ok_trace = v[0] == "op" and v[1] == "*" and {v[2], v[3]} == {sq[0], old_ss}
        hist_guard = ((("cmp", "is", n("history"), c(None)), False),)
        guarded = [cond for loc, val, _, cond in res.stores
                   if loc in (("a", ks, "step_size"), ("a", ks, "inverse_mass_matrix"))]
        ctx.ob("C12.R2", ts, "the matrix and the step size are re-tuned exactly when a "
                             "history is supplied", len(guarded) == 2
               and all(tuple(g) == hist_guard for g in guarded),
               detail=str([[pretty(a)[:40] + "=" + str(p_) for a, p_ in g] for g in guarded]),
               stmt="slow tuning guard")
        tf = [t for t, _, cond in res.calls if t[0] == "call"
              and t[1] == ("a", n("self"), "_tune_fast")]
        ctx.ob("C12.R2", ts, "_tune_slow ends with the fast tuning step on the same "
                             "arguments", len(tf) >= 1 and all(t_[2][:4] == (
                                 n("prng_key"), ks, n("model_state"), n("epoch")) for t_ in tf)
               and len({cd for t_, _, cd in res.calls if t_ in tf}) == len(tf),
               detail=short(tf[0], 120) if tf else "", stmt="tune_fast hand-over")
        ctx.ob("C12.R2", ts, "step size is rescaled by sqrt(tr(old)/tr(new)) with sum for "
                             "the diagonal and trace for the dense matrix, selected by the "
                             "same mm_diag flag as the tuner", ok_trace, detail=detail,
               stmt="trace rescaling")
        # ---- init_state
        ist = method(repo, ci, "init_state")
        ri = evaluate(repo, ist, inline=make_inliner(repo, self_class=ci, allow=lambda f: f.name == "position"),
                      inline_depth=2)
        rt = ri.ret()
        imm = None
        from .common import leaf_under, map_leaves
        if rt is not None:
            # (the state may be built in one place or in the arms of an early return)
            imm = map_leaves(rt, lambda x: kw(x, "inverse_mass_matrix", 1)
                             if x and x[0] == "call" else None)
        ok_init = False
        if imm is not None:
            user_t = ("a", n("self"), "initial_inverse_mass_matrix")
            a_none, a_diag = ("cmp", "is", user_t, c(None)), ("a", n("self"), "mm_diag")
            given = {leaf_under(imm, {a_none: False, a_diag: d_}) for d_ in (False, True)}
            vec = leaf_under(imm, {a_none: True, a_diag: True})
            mat = leaf_under(imm, {a_none: True, a_diag: False})
            # the vector goes with the diagonal mode, the square matrix with the dense one
            ok_init = (given == {user_t} and vec is not None and mat is not None
                       and order_of(vec) == CANON and order_of(mat) == CANON
                       and is_call(vec, "jax.numpy.ones_like", "jax.numpy.ones")
                       and is_call(mat, "jax.numpy.eye", "jax.numpy.identity"))
        ctx.ob("C12.R1", ist, "the initial inverse mass matrix is the identity shaped like "
                              "ravel_pytree(position) unless supplied by the user", ok_init,
               detail=short(imm or ()), stmt="initial inverse mass matrix")

    # ------------------------------------------------------------- mm helpers
    h2m = repo.func("liesel.goose.mm._history_to_matrix")
    r = evaluate(repo, h2m).ret()
    o = order_of(r) if r is not None else UNKNOWN
    ctx.ob("C12.R1", h2m, "_history_to_matrix lays the history out in pytree flatten order",
           o in (CANON, SORTED), unproven=o == UNKNOWN,
           detail=f"order {o}: {short(r or ())}", stmt=f"history matrix order {o[0]}")

    # ... and it is each TIME POINT's position that is flattened: the mapped function
    # ravels its own argument, the map runs over the history that was passed in
    # (only for the map-over-time form; other layouts are judged by the order / leaf-layout
    # obligations above and below)
    ok_tp = None
    if r is not None and r[0] == "call" and r[1][0] == "call" and is_call(r[1], "jax.vmap") \
            and r[1][2] and r[1][2][0][0] == "lambda":
        ok_tp = False
    if ok_tp is False and r[2] == (n(h2m.params()[0]),):
        g = r[1][2][0]
        if g[0] == "lambda" and len(g[1]) == 1:
            rp = [x for x in subterms(g[2]) if is_call(x, "jax.flatten_util.ravel_pytree")]
            ok_tp = len(rp) == 1 and rp[0][2] == (n(g[1][0]),) and g[2] in (
                ("s", rp[0], c(0)), ("proj", rp[0], 0))
        elif g[0] in ("g", "fn"):
            ok_tp = None
    if ok_tp is not None:
        ctx.ob("C12.R1", h2m, "_history_to_matrix maps over the history's time points and "
                              "flattens each time point's own position (row t = "
                              "ravel_pytree(position at t)[0])", ok_tp, detail=short(r or (), 160),
               stmt="history rows " + pretty(r or ())[:120])
    sib = {}
    for fname, stat, axis_kw, axis_want in (("tune_inv_mm_diag", "var", "axis", c(0)),
                                            ("tune_inv_mm_full", "cov", "rowvar", c(False))):
        tfi = repo.func(f"liesel.goose.mm.{fname}")
        rr_ = evaluate(repo, tfi).ret()
        stat_calls = sorted({x for x in subterms(rr_ or ()) if is_call(x, f"jax.numpy.{stat}")})
        h2m_call = ("call", ("g", "liesel.goose.mm._history_to_matrix"), (n("history"),), ())
        ok_stat = (len(stat_calls) == 1 and stat_calls[0][2][:1] == (h2m_call,)
                   and kw(stat_calls[0], axis_kw, 1 if stat == "var" else 2) == axis_want
                   and type(kw(stat_calls[0], axis_kw, 1 if stat == "var" else 2)[1])
                   is type(axis_want[1]))
        ctx.ob("C12.R1", tfi, f"{fname}: the sample {'variance' if stat == 'var' else 'covariance'} "
                              f"is taken over the time axis of the history matrix "
                              f"({axis_kw}={pretty(axis_want)}; one entry per flat coordinate)",
               ok_stat, detail=short(stat_calls[0], 120) if stat_calls else short(rr_ or ()),
               stmt=f"{fname} statistic")
        # regulariser: a positive constant ADDED (to the diagonal)
        ok_reg = False
        if rr_ is not None and rr_[0] == "op" and rr_[1] == "+":
            cst = [x for x in (rr_[2], rr_[3]) if x[0] == "c"]
            ok_reg = len(cst) == 1 and isinstance(cst[0][1], (int, float)) and cst[0][1] > 0 \
                and stat == "var"
        elif rr_ is not None and rr_[0] == "call" and rr_[1][0] == "a" and rr_[1][2] == "add" \
                and rr_[1][1][0] == "s" and rr_[1][1][1][0] == "a" and rr_[1][1][1][2] == "at":
            base, idx_ = rr_[1][1][1][1], rr_[1][1][2]
            ok_reg = (is_call(idx_, "jax.numpy.diag_indices_from") and idx_[2] == (base,)
                      and len(rr_[2]) == 1 and rr_[2][0][0] == "c"
                      and isinstance(rr_[2][0][1], (int, float)) and rr_[2][0][1] > 0)
        ctx.ob("C12.R1", tfi, f"{fname}: the regulariser is a positive constant added to the "
                              f"diagonal (keeps the matrix positive definite, moves no entry "
                              f"to another coordinate)", ok_reg, detail=short(rr_ or (), 160),
               stmt=f"{fname} regulariser")
        # what the two modes must agree on (sibling cross-check below)
        reg_c = None
        if ok_reg:
            reg_c = ([x for x in (rr_[2], rr_[3]) if x[0] == "c"][0][1] if rr_[0] == "op"
                     else rr_[2][0][1])
        if stat_calls:
            sc = stat_calls[0]
            if stat == "var":
                dd = kw(sc, "ddof", 4)
                norm = "n-1" if dd == c(1) else ("n" if dd in (None, c(0)) else "?")
            else:
                dd, bias = kw(sc, "ddof", 4), kw(sc, "bias", 3)
                norm = ("n-1" if dd in (None, c(1)) and bias in (None, c(False))
                        else ("n" if dd in (None, c(0)) and bias == c(True) or dd == c(0) else "?"))
            sib[fname] = (reg_c, norm)
    if len(sib) == 2:
        (rd, nd_), (rf, nf_) = sib["tune_inv_mm_diag"], sib["tune_inv_mm_full"]
        ctx.ob("C12.R1", repo.func("liesel.goose.mm.tune_inv_mm_diag"),
               "the diagonal tuner computes the diagonal of what the dense tuner computes: "
               "same normalisation of the sample (co)variance (both n-1) and the same "
               "regularising constant", rd is not None and rd == rf and nd_ == nf_ == "n-1",
               detail=f"diag: +{rd}, 1/({nd_}); dense: +{rf}, 1/({nf_})",
               stmt=f"tuner agreement diag +{rd} /{nd_} dense +{rf} /{nf_}")
    lb = layout_breaks(r) if r is not None else []
    ctx.ob("C12.R1", h2m, "inside a leaf the history matrix keeps the row-major element "
                          "order of ravel_pytree (no axis permutation before a "
                          "reshape/ravel)", not lb, unproven=True,
           detail="; ".join(short(x, 100) for x in lb[:2]), stmt="leaf layout " + (
               pretty(lb[0])[:100] if lb else ""))

    # ------------------------------------------------------------- R3 sequence
    kernel_sequence_obligations(ctx, "C12.R3", ("tune",))

    # ------------------------------------------------------------- R3 engine
    eng = repo.cls("liesel.goose.engine.Engine")
    tk = method(repo, eng, "_tune_kernels")
    rk = evaluate(repo, tk)
    ok = False
    for t, node, cond in rk.calls:
        if t[0] == "call" and t[1][0] == "call" and is_call(t[1], "jax.vmap"):
            tgt = t[1][2][0]
            if tgt[0] == "a" and tgt[2] == "tune":
                ia = kw(t[1], "in_axes", 1)
                ok = (ia is not None and ia[0] == "tuple" and len(ia[1]) == 5
                      and ia[1][4] == c(0) and ia[1][3] == c(None))
    ctx.ob("C12.R3", tk, "the history is mapped over chains when handed to the kernels' "
                         "tune (each chain tunes on its own history)", ok)
    # the history is the CURRENT epoch's chain (not looked up by value, not all epochs)
    hist = None
    for t, node, cond in rk.calls:
        if t[0] == "call" and t[1][0] == "call" and is_call(t[1], "jax.vmap") \
                and t[1][2][0][0] == "a" and t[1][2][0][2] == "tune":
            hist = t[2][4] if len(t[2]) > 4 else None
    hr = ("a", n("self"), "_history_required_for_tuning")
    cur = ("call", ("a", ("a", n("self"), "_position_chain"), "get_current_chain"), (), ())
    want_h = [("phi", hr, ("call", ("a", ("call", ("a", cur, "get"), (), ()), m_), a_, ()),
               c(None)) for m_ in ("expect", "unwrap") for a_ in ((), None)]
    ok_h = (hist is not None and hist[0] == "phi" and hist[1] == hr and hist[3] == c(None)
            and hist[2][0] == "call" and hist[2][1][0] == "a"
            and hist[2][1][2] in ("expect", "unwrap")
            and hist[2][1][1] == ("call", ("a", cur, "get"), (), ()))
    ctx.ob("C12.R3", tk, "the history handed to the tuner is the position chain of the epoch "
                         "that just ended (get_current_chain().get()), i.e. that epoch's own "
                         "recorded history", ok_h, detail=short(hist or (), 200),
           stmt="history source " + pretty(hist or ())[:160])

    # ---- shared mechanisms: the neighbour's rules run as obligations of this property
    ctx.include("C07", "C12.R4", only=['C07.R4'])
    ctx.include("C03", "C12.R4", only=['C03.R4', 'C03.R6'])
    ctx.rule("R4", "shared mechanisms, run as obligations of this property: the engine calls "
                   "the tuner after EVERY adaptation epoch (guard exactly is_adaptation) and "
                   "hands it the recorded history whenever a kernel needs it (C07.R4); positions are "
                   "plain dicts (sorted-key pytrees), so the sampler's coordinate order is the one "
                   "the flattened history has (C03.R4/R6).")
