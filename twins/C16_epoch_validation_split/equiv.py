"""
Deterministic equivalence driver for property C16 (epoch schedules / Stan warmup /
builder JIT chunk).  Prints a digest of everything it observes.  Run it with
PYTHONPATH pointing at the tree under test; it does not know where that tree is.

Sections
  E  EpochManager: exhaustive schedules over small domains (accept / reject + message),
     handed-out epoch states, next() on exhausted manager, append after construction
  W  stan_epochs: wide grid of argument combinations (returned configs or exception)
  B  EngineBuilder: set_epochs / set_duration / epochs / build (chunk length, errors,
     log messages, position keys), plus a short sampling run
"""

import hashlib
import itertools
import logging
import sys

import jax
import jax.numpy as jnp

import liesel.goose as gs
from liesel.goose.builder import EngineBuilder
from liesel.goose.epoch import EpochConfig, EpochManager, EpochState, EpochType
from liesel.goose.interface import DictInterface
from liesel.goose.warmup import stan_epochs

LINES: list[str] = []


def emit(section: str, *parts) -> None:
    LINES.append(section + " " + " | ".join(str(p) for p in parts))


def outcome(fn):
    try:
        return ("ok", fn())
    except BaseException as exc:  # noqa: BLE001
        return ("exc", type(exc).__name__, str(exc))


def cfg_repr(c: EpochConfig):
    return (
        type(c).__name__,
        type(c.type).__name__,
        int(c.type),
        type(c.duration).__name__,
        c.duration,
        type(c.thinning).__name__,
        c.thinning,
        c.optional,
    )


def state_repr(s: EpochState):
    return (
        type(s).__name__,
        cfg_repr(s.config),
        s.nth_epoch,
        s.time,
        s.time_before_epoch,
        s.time_in_epoch,
        s.time_left(),
    )


# --------------------------------------------------------------------------- E
def drain(manager: EpochManager):
    states = []
    flags = []
    while True:
        flags.append(manager.has_more())
        if not flags[-1]:
            break
        states.append(state_repr(manager.next()))
    tail = outcome(manager.next)
    tail2 = outcome(manager.next)
    return (
        states,
        flags,
        tail,
        tail2,
        manager._next_epoch_ptr,
        manager._next_start_time,
        manager._nth_epoch,
        len(manager._configs),
    )


def section_epoch():
    types = list(EpochType)
    dur_thin = [(d, t) for d in (0, 1, 2, 4, 6) for t in (0, 1, 2, 3, 4)]
    singles = [
        EpochConfig(ty, d, t, None) for ty in types for (d, t) in dur_thin
    ]

    # all single-epoch schedules
    for c in singles:
        res = outcome(lambda: drain(EpochManager([c])))
        emit("E1", cfg_repr(c), res)

    # all two-epoch schedules after a valid head, and after every single head
    head = EpochConfig(EpochType.INITIAL_VALUES, 1, 1, None)
    for c in singles:
        res = outcome(lambda: drain(EpochManager([head, c])))
        emit("E2", cfg_repr(c), res)

    # exhaustive sequences of length 3 and 4 over a reduced alphabet
    alphabet = [
        EpochConfig(ty, d, t, None)
        for ty in types
        for (d, t) in ((1, 1), (4, 2), (6, 4), (3, 0), (0, 1), (2, 3))
    ]
    count_ok = 0
    h = hashlib.sha256()
    for n in (2, 3):
        for seq in itertools.product(alphabet, repeat=n):
            res = outcome(lambda: drain(EpochManager([head, *seq])))
            if res[0] == "ok":
                count_ok += 1
            h.update(repr(([cfg_repr(c) for c in seq], res)).encode())
    emit("E3", count_ok, h.hexdigest())

    # sequences that do not start with the valid head (first-epoch rule)
    h = hashlib.sha256()
    for seq in itertools.product(alphabet, repeat=2):
        res = outcome(lambda: drain(EpochManager(list(seq))))
        h.update(repr(res).encode())
    emit("E4", h.hexdigest())

    # incremental appends: a rejected append leaves the manager unchanged, accepted
    # appends interleaved with next()
    m = EpochManager(None)
    emit("E5", "empty", m.has_more(), outcome(m.next), len(m._configs))
    steps = [
        EpochConfig(EpochType.BURNIN, 3, 1, None),
        EpochConfig(EpochType.INITIAL_VALUES, 2, 1, None),
        EpochConfig(EpochType.INITIAL_VALUES, 1, 2, None),
        EpochConfig(EpochType.INITIAL_VALUES, 1, 1, None),
        EpochConfig(EpochType.INITIAL_VALUES, 1, 1, None),
        EpochConfig(EpochType.FAST_ADAPTATION, 5, 5, None),
        EpochConfig(EpochType.SLOW_ADAPTATION, 5, 6, None),
        EpochConfig(EpochType.BURNIN, 7, 3, None),
        EpochConfig(EpochType.POSTERIOR, 7, 3, None),
        EpochConfig(EpochType.POSTERIOR, 9, 3, {"a": 1}),
        EpochConfig(EpochType.BURNIN, 3, 1, None),
        EpochConfig(EpochType.FAST_ADAPTATION, 3, 1, None),
        EpochConfig(EpochType.POSTERIOR, 9, 9, None),
        EpochConfig(EpochType.POSTERIOR, 9, 10, None),
        EpochConfig(EpochType.POSTERIOR, -1, -1, None),
    ]
    for i, c in enumerate(steps):
        res = outcome(lambda: m.append(c))
        emit("E5", i, cfg_repr(c), res, [cfg_repr(x) for x in m._configs])
        if i % 3 == 2:
            emit("E5n", i, m.has_more(), outcome(lambda: state_repr(m.next())))
    emit("E5d", drain(m))

    # types given as plain ints and generator input
    gen = (
        EpochConfig(t, d, th, None)
        for (t, d, th) in ((0, 1, 1), (1, 10, 2), (2, 10, 3), (4, 12, 4), (4, 12, 1))
    )
    emit("E6", outcome(lambda: drain(EpochManager(gen))))
    emit(
        "E6",
        outcome(
            lambda: drain(
                EpochManager(
                    [EpochConfig(0, 1, 1, None), EpochConfig(4, 4, 2, None)]
                    + [EpochConfig(3, 4, 2, None)]
                )
            )
        ),
    )

    # identity of stored configs
    cs = [head, EpochConfig(EpochType.POSTERIOR, 4, 2, None)]
    m = EpochManager(cs)
    emit("E7", [a is b for a, b in zip(m._configs, cs)], m._configs is cs)
    s0 = m.next()
    emit("E7", s0.config is head)
    emit("E7", sorted(k for k in vars(m)))
    emit("E7", sorted(k for k in vars(EpochManager) if not k.startswith("__")) != [])


# --------------------------------------------------------------------------- W
def section_warmup():
    emit("W0", [cfg_repr(c) for c in stan_epochs()])
    emit(
        "W0",
        [cfg_repr(c) for c in stan_epochs(thinning_posterior=10, thinning_warmup=5)],
    )
    emit("W0", [cfg_repr(c) for c in stan_epochs(150, 7, 75, 50, 25, 7, 3)])

    h = hashlib.sha256()
    n_ok = n_exc = n_valid = 0
    warmups = [0, 1, 19, 20, 21, 25, 74, 75, 76, 100, 149, 150, 151, 225, 226, 500,
               999, 1000, 1001, 2503]
    posts = [0, 1, 10, 1000]
    inits = [0, 1, 5, 75]
    terms = [0, 1, 10, 50]
    bases = [1, 2, 7, 25, 60]
    thins = [(1, 1), (2, 1), (5, 5), (10, 3)]
    for w, p, i, t, b, (tp, tw) in itertools.product(
        warmups, posts, inits, terms, bases, thins
    ):
        res = outcome(
            lambda: stan_epochs(
                warmup_duration=w,
                posterior_duration=p,
                init_duration=i,
                term_duration=t,
                base_duration=b,
                thinning_posterior=tp,
                thinning_warmup=tw,
            )
        )
        if res[0] == "ok":
            n_ok += 1
            eps = res[1]
            rec = [cfg_repr(c) for c in eps]
            acc = outcome(lambda: drain(EpochManager(eps)))
            if acc[0] == "ok":
                n_valid += 1
            h.update(repr(((w, p, i, t, b, tp, tw), type(eps).__name__, rec, acc)).encode())
        else:
            n_exc += 1
            h.update(repr(((w, p, i, t, b, tp, tw), res)).encode())
    emit("W1", n_ok, n_exc, n_valid, h.hexdigest())

    # positional calling convention and a couple of explicit listings
    for args in [
        (20, 5, 5, 5, 5),
        (20, 5, 5, 5, 10),
        (19,),
        (100, 10, 50, 50, 25),
        (1000, 1000, 75, 50, 25, 1, 1),
        (3000, 40, 100, 80, 30, 4, 2),
    ]:
        res = outcome(lambda: [cfg_repr(c) for c in stan_epochs(*args)])
        emit("W2", args, res)

    # fresh list and fresh config objects on every call
    a, b = stan_epochs(), stan_epochs()
    emit("W3", a is b, any(x is y for x, y in zip(a, b)), a == b, len(a))
    # bool / large ints
    emit("W4", outcome(lambda: [cfg_repr(c) for c in stan_epochs(10**6, 10**5)]))
    emit("W4", outcome(lambda: [cfg_repr(c) for c in stan_epochs(True)]))

    # numpy scalars and (mutable) 0-d arrays as durations: values, types, aliasing
    import numpy as np

    for mk in (np.int64, lambda v: np.array(v), float):
        w, p, i, t, b = mk(400), mk(10), mk(30), mk(20), mk(10)
        res = outcome(lambda: stan_epochs(w, p, i, t, b, 2, 1))
        if res[0] == "ok":
            eps = res[1]
            ids = {}
            alias = [ids.setdefault(id(c.duration), len(ids)) for c in eps]
            emit(
                "W5",
                [(int(c.type), type(c.duration).__name__, float(c.duration)) for c in eps],
                alias,
                [float(v) for v in (w, p, i, t, b)],
                [c.duration is v for c in eps for v in (w, p, i, t, b)],
            )
        else:
            emit("W5", res)


# --------------------------------------------------------------------------- B
class ListHandler(logging.Handler):
    def __init__(self):
        super().__init__()
        self.records = []

    def emit(self, record):
        self.records.append((record.name, record.levelname, record.getMessage()))


def make_builder(num_chains=2, kernels=(("x",), ("y",))):
    con = DictInterface(lambda ms: -0.5 * ms["x"] ** 2 - 0.5 * ms["y"] ** 2)
    ms = {"x": jnp.array(1.0), "y": jnp.array(-1.0), "z": jnp.array(0.5)}
    builder = EngineBuilder(seed=1, num_chains=num_chains)
    builder.show_progress = False
    builder.set_model(con)
    builder.set_initial_values(ms, multiple_chains=False)
    for keys in kernels:
        builder.add_kernel(gs.RWKernel(list(keys)))
    return builder


def engine_repr(engine):
    return (
        engine._jitted_sample_duration,
        [cfg_repr(c) for c in engine._epoch_manager._configs],
        list(engine._position_keys) if hasattr(engine, "_position_keys") else None,
        [k.identifier for k in engine._kernel_sequence.get_kernels()]
        if hasattr(engine._kernel_sequence, "get_kernels")
        else None,
        jax.tree_util.tree_map(lambda a: a.tolist(), engine._model_states),
        engine._seeds.tolist() if hasattr(engine, "_seeds") else None,
    )


def section_builder():
    handler = ListHandler()
    lg = logging.getLogger("liesel")
    lg.addHandler(handler)
    lg.setLevel(logging.DEBUG)

    # set_duration over a grid: schedule and chunk length
    for w, p, t, tp, tw in [
        (1000, 1000, 50, 1, 1),
        (200, 10, 10, 1, 1),
        (200, 10, 10, 5, 2),
        (150, 30, 50, 3, 1),
        (151, 7, 1, 7, 1),
        (149, 7, 50, 1, 1),
        (19, 7, 50, 1, 1),
        (600, 45, 75, 9, 5),
        (600, 45, 75, 10, 5),
    ]:
        b = make_builder()
        res = outcome(lambda: b.set_duration(w, p, t, tp, tw))
        if res[0] == "ok":
            eps = b.epochs
            emit("B1", (w, p, t, tp, tw), type(eps).__name__, [cfg_repr(c) for c in eps])
            eng = outcome(lambda: engine_repr(b.build()))
            emit("B1e", eng)
        else:
            emit("B1", (w, p, t, tp, tw), res, hasattr(b, "_epochs"))

    # keyword form
    b = make_builder()
    b.set_duration(
        warmup_duration=300,
        posterior_duration=20,
        term_duration=20,
        thinning_posterior=4,
        thinning_warmup=3,
    )
    emit("B2", [cfg_repr(c) for c in b.epochs])
    emit("B2", outcome(lambda: engine_repr(b.build())))

    # set_epochs with hand-made schedules (valid / invalid / single epoch)
    I = EpochConfig(EpochType.INITIAL_VALUES, 1, 1, None)
    schedules = {
        "only_init": [I],
        "gcd6": [I, EpochConfig(EpochType.BURNIN, 12, 1, None),
                 EpochConfig(EpochType.POSTERIOR, 18, 3, None)],
        "gcd1": [I, EpochConfig(EpochType.FAST_ADAPTATION, 7, 1, None),
                 EpochConfig(EpochType.POSTERIOR, 12, 2, None)],
        "single": [I, EpochConfig(EpochType.POSTERIOR, 8, 2, None)],
        "bad_order": [I, EpochConfig(EpochType.POSTERIOR, 8, 2, None),
                      EpochConfig(EpochType.BURNIN, 8, 2, None)],
        "bad_first": [EpochConfig(EpochType.POSTERIOR, 8, 2, None)],
        "gen": (c for c in [I, EpochConfig(EpochType.POSTERIOR, 10, 5, None)]),
    }
    for name, sched in schedules.items():
        b = make_builder()
        res = outcome(lambda: b.set_epochs(sched))
        emit("B3", name, res, hasattr(b, "_epochs"))
        if res[0] == "ok":
            emit("B3", name, [cfg_repr(c) for c in b.epochs])
            emit("B3e", name, outcome(lambda: engine_repr(b.build())))

    # build() error ordering: duplicate keys before missing epochs, etc.
    b = make_builder(kernels=(("x",), ("x", "y")))
    emit("B4", "dup_noepochs", outcome(lambda: b.build()))
    b.set_duration(200, 10)
    emit("B4", "dup", outcome(lambda: b.build()))
    b = make_builder()
    emit("B4", "noepochs", outcome(lambda: b.build()))
    emit("B4", "noepochs_prop", outcome(lambda: b.epochs))
    b = EngineBuilder(seed=1, num_chains=2)
    b.add_kernel(gs.RWKernel(["x"]))
    b.set_duration(200, 10)
    emit("B4", "nomodel", outcome(lambda: b.build()))
    b = make_builder()
    b.set_duration(200, 10)
    b.set_engine_seed(jax.random.split(jax.random.PRNGKey(3), 3))
    emit("B4", "badseed", outcome(lambda: b.build())[:2])

    class QG:
        error_book = {}

        def __init__(self, ident):
            self.identifier = ident
            self._model = None

        def set_model(self, model):
            self._model = model

        def has_model(self):
            return self._model is not None

        def generate(self, prng_key, model_state, epoch):
            return {"v": jnp.array(1.0)}

    b = make_builder()
    b.set_duration(200, 10)
    b.add_quantity_generator(QG("a"))
    b.add_quantity_generator(QG("b"))
    b.add_quantity_generator(QG("a"))
    emit("B4", "dup_qg", outcome(lambda: b.build()))

    # jitter functions, included / excluded positions
    b = make_builder()
    b.set_duration(200, 12, term_duration=10, thinning_posterior=4)
    b.set_jitter_fns({"x": lambda key, v: v + jax.random.uniform(key, v.shape)})
    b.positions_included = ["z", "y"]
    b.positions_excluded = ["y"]
    emit("B5", outcome(lambda: engine_repr(b.build())))
    b = make_builder()
    b.set_duration(200, 12)
    b.set_jitter_fns({})
    emit("B5", outcome(lambda: engine_repr(b.build())))

    # short sampling run: chunk length divides every epoch
    b = make_builder()
    b.set_duration(120, 12, term_duration=10, thinning_posterior=4)
    b.set_jitter_fns({"x": lambda key, v: v, "y": lambda key, v: v})
    engine = b.build()
    emit("B6", engine._jitted_sample_duration, [c.duration for c in b.epochs])
    engine.sample_all_epochs()
    results = engine.get_results()
    samples = results.get_posterior_samples()
    hs = hashlib.sha256()
    for k in sorted(samples):
        arr = jnp.asarray(samples[k])
        hs.update(k.encode())
        hs.update(str(arr.shape).encode())
        hs.update(bytes(memoryview(jax.device_get(arr)).cast("B")))
    emit("B6", sorted(samples), hs.hexdigest())

    b = make_builder()
    b.set_epochs(
        [
            EpochConfig(EpochType.INITIAL_VALUES, 1, 1, None),
            EpochConfig(EpochType.BURNIN, 9, 1, None),
            EpochConfig(EpochType.POSTERIOR, 6, 3, None),
        ]
    )
    b.set_jitter_fns({"x": lambda key, v: v, "y": lambda key, v: v})
    engine = b.build()
    emit("B7", engine._jitted_sample_duration)
    engine.sample_all_epochs()
    samples = engine.get_results().get_posterior_samples()
    emit("B7", {k: jnp.asarray(v).shape for k, v in sorted(samples.items())})
    emit("B7", {k: [float.hex(float(x)) for x in jnp.ravel(v)] for k, v in sorted(samples.items())})

    lg.removeHandler(handler)
    for rec in handler.records:
        if rec[0].startswith("liesel.goose.builder") or rec[0].startswith(
            "liesel.goose.epoch"
        ) or rec[0].startswith("liesel.goose.warmup"):
            emit("BL", rec)


def main():
    section_epoch()
    section_warmup()
    section_builder()
    text = "\n".join(LINES)
    for line in LINES:
        # keep the listing readable; very long lines are replaced by their hash
        if len(line) > 600:
            tag = line.split(" ", 1)[0]
            print(tag, "sha256", hashlib.sha256(line.encode()).hexdigest(), len(line))
        else:
            print(line)
    print("DIGEST", hashlib.sha256(text.encode()).hexdigest(), len(LINES))


if __name__ == "__main__":
    sys.exit(main())
