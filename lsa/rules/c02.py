"""
C02 -- model log-probability equals the joint log-density and decomposes as documented.

Which distribution node enters which total is decided by three selector expressions
that are independent of the user's model; verifying the selectors verifies the
for-all over model programs.
"""

from __future__ import annotations

import ast

from ..core.terms import (cmp_, not_, pc, phi_, c, evaluate, fn_name, kw, make_inliner, n, pretty, subterms)
from .common import is_call, method, same_decision, short

MODEL = "liesel.model.model"
NODES = "liesel.model.nodes"
SELF = n("self")
NAMES = {"lik": "_model_log_lik", "prior": "_model_log_prior", "prob": "_model_log_prob"}


def check(ctx):
    repo = ctx.repo
    ctx.rule("R1", "selectors: log_lik sums the dist nodes of variables with a distribution "
                   "that are observed, log_prior those that are parameters, log_prob every "
                   "Dist node -- all taken from a traversal of the graph made after the "
                   "auto-transforms; hence log_prob = log_lik + log_prior whenever every "
                   "Dist belongs to a variable with exactly one of the two flags.")
    ctx.rule("R2", "every input is reduced to a scalar before the inputs are added (so "
                   "per_obs does not change the totals); a Dist evaluates "
                   "init_dist().log_prob(at.value) and sums only if per_obs is off.")
    ctx.rule("R3", "a user-supplied node for any total is forwarded unchanged under the "
                   "reserved name, and the readers (Model.log_*, interfaces, optim) read the "
                   "names the builder writes.")
    ctx.rule("R4", "build order: auto-transform, complete names, then add the three model "
                   "nodes.")
    ctx.undecided("numeric correctness of the TFP densities", "float addition order")

    gb = repo.cls(f"{MODEL}.GraphBuilder")
    trav = ("call", ("a", SELF, "_all_nodes_and_vars"), (), ())
    specs = {
        "lik": ("_add_model_log_lik_node", "log_lik_node", 1, ("has_dist", "observed")),
        "prior": ("_add_model_log_prior_node", "log_prior_node", 1, ("has_dist", "parameter")),
        "prob": ("_add_model_log_prob_node", "log_prob_node", 0, None),
    }
    for key, (mname, user_attr, proj_i, flags) in specs.items():
        fi = method(repo, gb, mname, own=True)
        inl = make_inliner(repo, self_class=gb, allow=lambda f: f.cls is not None
                           and f.cls.qualname == gb.qualname and f.name.startswith("_")
                           and f.name not in ("_all_nodes_and_vars",))
        r = evaluate(repo, fi, inline=inl, inline_depth=3)
        user = ("a", SELF, user_attr)
        adds = [(t, cond) for t, _, cond in r.calls if t[1] == ("a", SELF, "add")]
        # what is added when the user supplied a node / when not: two `add` calls in the
        # arms of the test, or one `add` of a value chosen by the test
        fw_x, df_x = [], []
        for t, cond in adds:
            x_ = t[2][0] if t[2] else None
            if x_ is None:
                continue
            if (user, True) in cond:
                fw_x.append(x_)
            elif (user, False) in cond:
                df_x.append(x_)
            elif x_[0] == "phi" and x_[1] == user:
                fw_x.append(x_[2])
                df_x.append(x_[3])
            else:
                fw_x.append(x_)
                df_x.append(x_)
        default = [(("call", ("a", SELF, "add"), (x_,), ()), ()) for x_ in df_x]
        forwarded = [(("call", ("a", SELF, "add"), (x_,), ()), ()) for x_ in fw_x]
        # the default node is BUILT only when there is no user node
        calc_built = [cond for t, _, cond in r.calls if is_call(t, f"{NODES}.Calc")]
        # ---- R3
        ok_f = (len(forwarded) == 1 and forwarded[0][0][2]
                and is_call(forwarded[0][0][2][0], f"{NODES}.TransientIdentity")
                and forwarded[0][0][2][0][2][:1] == (user,)
                and kw(forwarded[0][0][2][0], "_name", 1) == c(NAMES[key])
                and all((user, False) in cd for cd in calc_built))
        ctx.ob("C02.R3", fi, f"a user-supplied {user_attr} is wrapped in a TransientIdentity "
                             f"named '{NAMES[key]}' and no default node is built", ok_f,
               detail=str([short(t) for t, _ in forwarded]), stmt=f"forward {key}")
        # ---- R1 / R2
        ok_d = len(default) == 1 and default[0][0][2] and is_call(default[0][0][2][0],
                                                                  f"{NODES}.Calc")
        ctx.ob("C02.R1", fi, f"the default {NAMES[key]} node is a Calc over the selected "
                             f"inputs", ok_d, detail=str([short(t) for t, _ in default]))
        if not ok_d:
            continue
        calc = default[0][0][2][0]
        ctx.ob("C02.R2", fi, "the total is computed by _reduced_sum and named with the "
                             "reserved name", calc[2][0] == ("g", f"{MODEL}._reduced_sum")
               and kw(calc, "_name") == c(NAMES[key]),
               detail=f"{short(calc[2][0])}, name {short(kw(calc, '_name') or ())}",
               stmt=f"{key} reducer/name")
        sel = calc[2][1][1] if len(calc[2]) > 1 and calc[2][1][0] == "star" else None
        ok_s = False
        detail = short(sel or ())
        if sel is not None and sel[0] == "comp" and len(sel[3]) == 1:
            tgt, src, conds = sel[3][0]
            item = ("iter", src)
            src_ok = src == ("proj", trav, proj_i)
            flat = []
            for cd in conds:
                flat.extend(cd[2] if cd[0] == "bool" and cd[1] == "and" else [cd])
            if flags is not None:
                want = {("a", item, f) for f in flags}
                ok_s = src_ok and set(flat) == want and sel[2] == ("a", item, "dist_node")
            else:
                want = {("call", ("n", "isinstance"),
                         (item, ("g", f"{NODES}.Dist")), ())}
                ok_s = src_ok and set(flat) == want and sel[2] == item
            detail = (f"source {short(src, 80)}; filter {[pretty(x) for x in flat]}; yields "
                      f"{short(sel[2], 60)}")
        what = {"lik": "dist nodes of variables with has_dist and observed",
                "prior": "dist nodes of variables with has_dist and parameter",
                "prob": "every Dist node of the graph"}[key]
        ctx.ob("C02.R1", fi, f"{NAMES[key]} sums exactly: {what}, from a fresh traversal of "
                             f"the graph (self._all_nodes_and_vars())", ok_s, detail=detail,
               stmt=f"selector {key}: {detail[:160]}",
               facts={"selector": detail})
    # build_model reads the user-supplied totals from gb = self.copy(): the copy must
    # carry the three attributes (or be a shallow object copy, which carries them all)
    cpm = method(repo, gb, "copy", own=True)
    rcp = evaluate(repo, cpm)
    rtc = rcp.ret()
    if rtc is not None and is_call(rtc, "copy.copy") and rtc[2] == (SELF,):
        carried = {a for _, a, _, _ in specs.values()}
    else:
        carried = {loc[2] for loc, val, _, cond in rcp.stores
                   if rtc is not None and loc[0] == "a" and loc[1] == rtc
                   and val == ("a", SELF, loc[2]) and not cond}
    for _, user_attr, _, _ in specs.values():
        ctx.ob("C02.R3", cpm, f"the builder copy that build_model works on carries the "
                              f"user-supplied {user_attr}", user_attr in carried,
               detail=f"copy() returns {short(rtc or ())}; carried {sorted(carried)}",
               stmt=f"copy carries {user_attr}")
    rs = repo.func(f"{MODEL}._reduced_sum")
    rr = evaluate(repo, rs).ret()
    ok = False
    if rr is not None and is_call(rr, "sum") and rr[2] and rr[2][0][0] == "comp":
        comp = rr[2][0]
        a = ("iter", n("args"))
        ok = (comp[3][0][1] == n("args") and comp[2] == (
            "phi", ("call", ("n", "hasattr"), (a, c("sum")), ()),
            ("call", ("a", a, "sum"), (), ()), a))
    ctx.ob("C02.R2", rs, "_reduced_sum reduces every argument with .sum() BEFORE adding "
                         "them", ok, detail=short(rr or ()), stmt="reduced_sum " + pretty(rr or ())[:160])
    # init_dist builds the distribution from the CURRENT values of all inputs
    idf = method(repo, repo.cls(f"{NODES}.Dist"), "init_dist", own=True)
    rid = evaluate(repo, idf).ret()
    inp_it = ("iter", ("a", SELF, "inputs"))
    kw_it = ("iter", ("call", ("a", ("a", SELF, "kwinputs"), "items"), (), ()))
    want_id = ("call", ("a", SELF, "distribution"),
               (("star", ("comp", "list", ("a", inp_it, "value"),
                          ((n("_input"), ("a", SELF, "inputs"), ()),))),),
               (("**", ("comp", "dict", (("proj", kw_it, 0), ("a", ("proj", kw_it, 1), "value")),
                        ((("tuple", (n("kw"), n("_input"))),
                          ("call", ("a", ("a", SELF, "kwinputs"), "items"), (), ()), ()),))),))
    ok_id = False
    if rid is not None and rid[0] == "call" and rid[1] == ("a", SELF, "distribution"):
        stars = [a for a in rid[2] if a[0] == "star"]
        dstars = [v for k, v in rid[3] if k == "**"]
        ok_id = (len(stars) == 1 and len(rid[2]) == 1 and len(dstars) == 1 and len(rid[3]) == 1
                 and stars[0][1][0] == "comp" and stars[0][1][2] == ("a", inp_it, "value")
                 and stars[0][1][3][0][1] == ("a", SELF, "inputs") and not stars[0][1][3][0][2]
                 and dstars[0][0] == "comp" and dstars[0][1] == "dict"
                 and dstars[0][2] == (("proj", kw_it, 0), ("a", ("proj", kw_it, 1), "value"))
                 and not dstars[0][3][0][2])
    ctx.ob("C02.R2", idf, "init_dist() = distribution(*[current value of every input], "
                          "**{name: current value of every keyword input})", ok_id,
           detail=short(rid or (), 160), stmt="init_dist " + pretty(rid or ())[:120])
    for cname in ("Dist", "TransientDist"):
        ci = repo.cls(f"{NODES}.{cname}")
        fi = ci.own_method("update") if cname == "Dist" else ci.own_method("value", "getter")
        r = evaluate(repo, fi)
        if cname == "Dist":
            vals = [val for loc, val, _, _ in r.stores if loc == ("a", SELF, "_value")]
            # (stores in the arms of an if / else: the value the field ends up with)
            v = vals[0] if len(vals) == 1 else (
                r.env.heap.get(("a", SELF, "_value")) if r.env is not None else None)
        else:
            v = r.ret()
        lp = ("call", ("a", ("call", ("a", SELF, "init_dist"), (), ()), "log_prob"),
              (("a", ("a", SELF, "at"), "value"),), ())
        cond_sum = ("bool", "and", (not_(("a", SELF, "per_obs")),
                                    ("call", ("n", "hasattr"), (lp, c("sum")), ())))
        want = phi_(cond_sum, ("call", ("a", lp, "sum"), (), ()), lp)
        vv = v
        while vv is not None and vv[0] == "phi" and vv[1][0] == "path":
            vv = vv[3]
        ctx.ob("C02.R2", fi, "log-density = init_dist().log_prob(at.value) (the attached "
                             "variable's CURRENT value), summed iff per_obs is off",
               vv is not None and same_decision(vv, want),
               detail=short(vv or (), 200), stmt=f"{cname} log_prob " + pretty(vv or ())[:200])
    # ---- readers
    mc = repo.cls(f"{MODEL}.Model")
    for key, prop in (("lik", "log_lik"), ("prior", "log_prior"), ("prob", "log_prob")):
        fi = method(repo, mc, prop, "getter", own=True)
        rt = evaluate(repo, fi).ret()
        ctx.ob("C02.R3", fi, f"Model.{prop} reads the value of node '{NAMES[key]}'",
               rt == ("a", ("s", ("a", SELF, "_nodes"), c(NAMES[key])), "value"),
               detail=short(rt or ()), stmt=f"reader {prop}")
    readers = 0
    for q in ("liesel.goose.interface.LieselInterface.log_prob",
              "liesel.model.goose.GooseModel.log_prob"):
        fi = repo.func(q)
        rt = evaluate(repo, fi).ret()
        readers += 1
        ctx.ob("C02.R3", fi, "the interface's log_prob reads '_model_log_prob' from the state",
               rt is not None and any(x == c("_model_log_prob") for x in subterms(rt)))
    # every string literal '_model_log_*' used as a key anywhere is one of the three names
    bad = []
    for mi in repo.modules.values():
        for x in ast.walk(mi.tree):
            if isinstance(x, ast.Constant) and isinstance(x.value, str) \
                    and x.value.startswith("_model_log") and x.value not in NAMES.values():
                bad.append(f"{mi.relpath}:{x.lineno} {x.value!r}")
    ctx.ob("C02.R3", mc, "every '_model_log*' key used anywhere in liesel is one of the three "
                         "reserved names", not bad, detail="; ".join(bad))

    # ---- R4
    bm = method(repo, gb, "build_model", own=True)
    rb = evaluate(repo, bm)
    order = [t[1][2] for t, _, _ in rb.calls if t[0] == "call" and t[1][0] == "a" and t[1][2] in (
        "transform", "_set_missing_names", "_add_model_log_lik_node",
        "_add_model_log_prior_node", "_add_model_log_prob_node", "_add_model_seed_nodes")]
    want = ["transform", "_set_missing_names", "_add_model_log_lik_node",
            "_add_model_log_prior_node", "_add_model_log_prob_node", "_add_model_seed_nodes"]
    ctx.ob("C02.R4", bm, "auto-transform -> names -> log_lik -> log_prior -> log_prob -> "
                         "seeds, so the transformed variables' distributions are the ones "
                         "collected", order == want, detail=str(order),
           stmt="build order " + str(order))
    adds = [t for t, _, _ in rb.calls if t[0] == "call" and t[1][0] == "a"
            and t[1][2].startswith("_add_model_log")]
    ctx.ob("C02.R4", bm, "the model-node builders are called without pre-computed node "
                         "lists (each makes its own traversal after the transforms)",
           all(not t[2] and not t[3] for t in adds) and len(adds) == 3,
           detail=str([short(t) for t in adds]), stmt="stale snapshot")
    mk = [t for t, _, _ in rb.calls if is_call(t, f"{MODEL}.Model")]
    ok = False
    if len(mk) == 1:
        arg = mk[0][2][0] if mk[0][2] else None
        ok = (arg is not None and arg[0] == "op" and arg[1] == "+"
              and all(x[0] == "proj" and x[1][0] == "call" and x[1][1][2] == "_all_nodes_and_vars"
                      for x in (arg[2], arg[3]))
              and kw(mk[0], "grow") == c(False))
    ctx.ob("C02.R4", bm, "the model is built from a traversal made after the model nodes "
                         "were added", ok, detail=short(mk[0]) if mk else "")

    # ---- shared mechanisms: the neighbour's rules run as obligations of this property
    ctx.include("C01", "C02.R5", only=None)
    ctx.include("C17", "C02.R5", only=['C17.R1'])
    ctx.rule("R5", "shared mechanisms, run as obligations of this property: simulate() is a sequence of value assignments like any other: it goes through the setters and leaves the auto-update setting alone (C17.R1); the totals are cached nodes: they equal the sums of the CURRENT values only if the model's cache is coherent (all of C01: dirty flags, sweeps, wiring).")
