"""
Exercises the evaluation paths of MultivariateNormalDegenerate (rank, log_pdet,
log_prob, sample, the square root of the pseudo-covariance) and the module-level
helpers _rank / _log_pdet, and prints a bit-exact digest of all results.

Run from the worktree root with PYTHONPATH set to the worktree root.
"""

import hashlib
import itertools

import jax
import jax.numpy as jnp
import numpy as np

import liesel.distributions.mvn_degen as md
from liesel.distributions import MultivariateNormalDegenerate as MVND


def digest(label, value):
    arr = np.asarray(value)
    h = hashlib.sha256(arr.tobytes()).hexdigest()[:16]
    flat = arr.ravel()
    head = ",".join(float(v).hex() for v in flat[:4])
    print(f"{label}: shape={arr.shape} dtype={arr.dtype} sha={h} head={head}")


def attempt(label, fn):
    try:
        out = fn()
    except BaseException as e:
        msg = str(e).splitlines()[0] if str(e) else ""
        print(f"{label}: RAISED {type(e).__name__}: {msg[:140]}")
        return None
    if out is not None:
        digest(label, out)
    return out


def jaxpr_hash(label, fn, *args):
    try:
        txt = str(jax.make_jaxpr(fn)(*args))
    except BaseException as e:
        print(f"{label}: jaxpr RAISED {type(e).__name__}")
        return
    print(f"{label}: jaxpr sha={hashlib.sha256(txt.encode()).hexdigest()[:16]}")


def diff_penalty(m, order):
    d = np.eye(m)
    for _ in range(order):
        d = np.diff(d, axis=0)
    return jnp.asarray(d.T @ d, dtype=jnp.float32)


def random_lowrank(rng, m, r):
    a = rng.normal(size=(m, r))
    return jnp.asarray(a @ a.T, dtype=jnp.float32)


def helpers_part(rng):
    evs = {
        "pen5_2": jnp.linalg.eigvalsh(diff_penalty(5, 2)),
        "pen6_1": jnp.linalg.eigvalsh(diff_penalty(6, 1)),
        "full4": jnp.linalg.eigvalsh(random_lowrank(rng, 4, 4)),
        "zeros": jnp.zeros(4),
        "attol": jnp.asarray([0.0, 1e-6, 1.0000001e-6, 2e-6, 1.0], jnp.float32),
        "neg": jnp.asarray([-1.0, -1e-7, 1e-7, 0.5, 2.0], jnp.float32),
        "nan": jnp.asarray([jnp.nan, 0.5, 2.0], jnp.float32),
        "batch": jnp.linalg.eigvalsh(
            jnp.stack([diff_penalty(5, 1), diff_penalty(5, 2), diff_penalty(5, 3)])
        ),
        "batch2": jnp.linalg.eigvalsh(
            jnp.stack([
                jnp.stack([diff_penalty(4, 1), diff_penalty(4, 2)]),
                jnp.stack([diff_penalty(4, 0), diff_penalty(4, 3)]),
            ])
        ),
        "empty": jnp.zeros((0,)),
        "int": jnp.asarray([0, 1, 2, 3]),
    }
    for k, ev in evs.items():
        n = ev.shape[-1]
        attempt(f"h.rank.{k}", lambda: md._rank(ev))
        attempt(f"h.rank.tol.{k}", lambda: md._rank(ev, tol=0.5))
        attempt(f"h.rank.pos.{k}", lambda: md._rank(ev, 1e-3))
        attempt(f"h.rank.jit.{k}", lambda: jax.jit(md._rank)(ev))
        attempt(f"h.lpd.{k}", lambda: md._log_pdet(ev))
        attempt(f"h.lpd.tol.{k}", lambda: md._log_pdet(ev, tol=0.5))
        attempt(f"h.lpd.none.{k}", lambda: md._log_pdet(ev, None, 1e-3))
        attempt(f"h.lpd.jit.{k}", lambda: jax.jit(md._log_pdet)(ev))
        for r in [0, 1, n - 1, n, n + 2, -1, 2.0, 2.5, True, np.int64(2),
                  jnp.int32(2), jnp.float32(2.0)]:
            attempt(f"h.lpd.r{r!r}.{k}", lambda: md._log_pdet(ev, rank=r))
            attempt(f"h.lpd.pos.r{r!r}.{k}", lambda: md._log_pdet(ev, r, 0.5))
        attempt(f"h.lpd.jit.r2.{k}", lambda: jax.jit(md._log_pdet)(ev, rank=2))
        attempt(f"h.lpd.jit.static.{k}",
                lambda: jax.jit(md._log_pdet, static_argnames="rank")(ev, rank=2))
        auto = md._rank(ev)
        attempt(f"h.lpd.auto.{k}", lambda: md._log_pdet(ev, rank=auto))
        attempt(f"h.lpd.auto.jit.{k}", lambda: jax.jit(md._log_pdet)(ev, rank=auto))
        jaxpr_hash(f"h.jaxpr.rank.{k}", md._rank, ev)
        jaxpr_hash(f"h.jaxpr.lpd.{k}", md._log_pdet, ev)
        jaxpr_hash(f"h.jaxpr.lpd.r.{k}", lambda e: md._log_pdet(e, rank=2), ev)
        jaxpr_hash(f"h.jaxpr.lpd.auto.{k}", lambda e, r: md._log_pdet(e, rank=r), ev,
                   auto)
    ev = evs["batch"]
    attempt("h.lpd.badrank.shape", lambda: md._log_pdet(ev, rank=jnp.asarray([1, 2])))
    attempt("h.lpd.badrank.shape1", lambda: md._log_pdet(evs["pen5_2"],
                                                         rank=jnp.asarray([3])))
    attempt("h.lpd.badrank.str", lambda: md._log_pdet(ev, rank="3"))
    attempt("h.lpd.badrank.list", lambda: md._log_pdet(ev, rank=[3, 3, 3]))
    attempt("h.lpd.np", lambda: md._log_pdet(np.asarray([0.0, 1.0, 2.0])))
    attempt("h.lpd.np.rank", lambda: md._log_pdet(np.asarray([0.0, 1.0, 2.0]), rank=2))
    attempt("h.rank.np", lambda: md._rank(np.asarray([0.0, 1.0, 2.0])))
    attempt("h.rank.list", lambda: md._rank([0.0, 1.0, 2.0]))
    attempt("h.lpd.list", lambda: md._log_pdet([0.0, 1.0, 2.0]))
    attempt("h.lpd.grad", lambda: jax.grad(lambda e: md._log_pdet(e))(evs["pen5_2"]))
    attempt("h.lpd.grad.r",
            lambda: jax.grad(lambda e: md._log_pdet(e, rank=3))(evs["pen5_2"]))


def describe(label, dist, xs, order="rank-first"):
    if order == "rank-first":
        attempt(label + ".rank", lambda: dist.rank)
        attempt(label + ".log_pdet", lambda: dist.log_pdet)
    elif order == "lpd-first":
        attempt(label + ".log_pdet", lambda: dist.log_pdet)
        attempt(label + ".rank", lambda: dist.rank)
    print(label + ".types", type(dist.rank).__name__, type(dist.log_pdet).__name__,
          dist.rank is dist.rank, dist.log_pdet is dist.log_pdet)
    print(label + ".cached", sorted(k for k in vars(dist)
                                    if k in ("eig", "rank", "log_pdet", "_sqrt_pcov")))
    for j, x in enumerate(xs):
        attempt(f"{label}.lp{j}", lambda: dist.log_prob(x))
        attempt(f"{label}.p{j}", lambda: dist.prob(x))
    attempt(label + ".sqrt_pcov", lambda: dist._sqrt_pcov)
    print(label + ".cached2", sorted(k for k in vars(dist)
                                     if k in ("eig", "rank", "log_pdet", "_sqrt_pcov")))
    for seed in (0, 7):
        attempt(f"{label}.sample{seed}",
                lambda: dist.sample(4, seed=jax.random.PRNGKey(seed)))
    attempt(label + ".sample_shape",
            lambda: dist.sample((2, 3), seed=jax.random.PRNGKey(1)))
    attempt(label + ".sample_scalar", lambda: dist.sample(seed=jax.random.PRNGKey(2)))
    attempt(label + ".eigvals", lambda: dist.eig[0])


def dist_part(rng):
    cases = {
        "pen3_1": diff_penalty(3, 1),
        "pen5_2": diff_penalty(5, 2),
        "pen7_3": diff_penalty(7, 3),
        "full4": random_lowrank(rng, 4, 4),
        "low6_2": random_lowrank(rng, 6, 2),
        "eye1": jnp.eye(1),
        "zero3": jnp.zeros((3, 3)),
        "scaled": diff_penalty(5, 2) * 1e-4,
        "tiny": diff_penalty(4, 1) * 1e-7,
    }
    for k, prec in cases.items():
        m = prec.shape[-1]
        ev, evec = jnp.linalg.eigh(prec)
        true_rank = md._rank(ev)
        true_lpd = md._log_pdet(ev, rank=true_rank)
        null = evec[:, 0]  # eigenvector of the smallest eigenvalue
        loc = jnp.asarray(rng.normal(size=m), dtype=jnp.float32)
        x0 = jnp.asarray(rng.normal(size=m), dtype=jnp.float32)
        xs = [x0, x0 + 3.0 * null, loc,
              jnp.asarray(rng.normal(size=(3, m)), dtype=jnp.float32),
              jnp.asarray(rng.normal(size=(2, 3, m)), dtype=jnp.float32)]
        for (rn, rank_arg), (ln, lpd_arg) in itertools.product(
            [("N", None), ("A", true_rank), ("I", int(true_rank)), ("Z", 0)],
            [("N", None), ("A", true_lpd), ("F", float(true_lpd)), ("Z", 0.0)],
        ):
            for order in ("rank-first", "lpd-first", "none"):
                tag = f"d.{k}.r{rn}l{ln}.{order}"
                dist = MVND(loc, prec, rank=rank_arg, log_pdet=lpd_arg)
                describe(tag, dist, xs if order == "rank-first" else xs[:2], order)
        for tol in [1e-10, 1e-3, 0.5, 10.0]:
            dist = MVND(loc, prec, tol=tol)
            describe(f"d.{k}.tol{tol}", dist, xs[:2])
        dist = MVND(0.0, prec)
        describe(f"d.{k}.scalarloc", dist, xs[:1])

    # batches
    precs = jnp.stack([diff_penalty(4, 1), diff_penalty(4, 2), random_lowrank(rng, 4, 4)])
    locs = jnp.asarray(rng.normal(size=(3, 4)), dtype=jnp.float32)
    xs = [jnp.asarray(rng.normal(size=(3, 4)), dtype=jnp.float32),
          jnp.asarray(rng.normal(size=(4,)), dtype=jnp.float32),
          jnp.asarray(rng.normal(size=(5, 3, 4)), dtype=jnp.float32),
          jnp.asarray(rng.normal(size=(2, 4)), dtype=jnp.float32)]  # not broadcastable
    ev = jnp.linalg.eigvalsh(precs)
    rk = md._rank(ev)
    lpd = md._log_pdet(ev, rank=rk)
    for (rn, rank_arg), (ln, lpd_arg) in itertools.product(
        [("N", None), ("A", rk), ("S", 3)], [("N", None), ("A", lpd)]
    ):
        describe(f"b.precs.r{rn}l{ln}", MVND(locs, precs, rank_arg, lpd_arg), xs)
        describe(f"b.precs1loc.r{rn}l{ln}", MVND(locs[0], precs, rank_arg, lpd_arg), xs)
    describe("b.locs", MVND(locs, precs[1]), xs)
    describe("b.locs2", MVND(jnp.stack([locs, locs + 1.0]), precs[1]), xs[:3])
    describe("b.both2", MVND(jnp.stack([locs, locs + 1.0]), precs), xs[:3])
    describe("b.prec22", MVND(locs[0], jnp.stack([precs[:2], precs[1:]])), xs[1:2])

    # penalty constructors feed rank / log_pdet through the same properties
    pen = diff_penalty(5, 2)
    for v in [0.1, 1.0, 25.0]:
        describe(f"p.var{v}", MVND.from_penalty(jnp.zeros(5), v, pen),
                 [jnp.arange(5.0), jnp.ones(5)])
        describe(f"p.smooth{v}", MVND.from_penalty_smooth(jnp.zeros(5), v, pen, rank=3),
                 [jnp.arange(5.0), jnp.ones(5)])

    # construction errors are untouched but the paths after them are checked, too
    attempt("e.nonsquare", lambda: MVND(jnp.zeros(3), jnp.ones((3, 4))).log_prob(
        jnp.zeros(3)))
    attempt("e.locmismatch", lambda: MVND(jnp.zeros(2), pen).log_prob(jnp.zeros(5)))
    attempt("e.xmismatch", lambda: MVND(jnp.zeros(5), pen).log_prob(jnp.zeros(4)))
    attempt("e.strrank", lambda: MVND(jnp.zeros(5), pen, rank="3").log_prob(
        jnp.zeros(5)))
    attempt("e.strrank.lpd", lambda: MVND(jnp.zeros(5), pen, rank="3").log_pdet)
    attempt("e.strlpd", lambda: MVND(jnp.zeros(5), pen, log_pdet="1").log_prob(
        jnp.zeros(5)))
    attempt("e.noseed", lambda: MVND(jnp.zeros(5), pen).sample(3))
    attempt("e.nanprec", lambda: MVND(jnp.zeros(2), jnp.full((2, 2), jnp.nan)).log_prob(
        jnp.zeros(2)))
    attempt("e.nanprec.sample", lambda: MVND(jnp.zeros(2), jnp.full((2, 2), jnp.nan))
            .sample(2, seed=jax.random.PRNGKey(0)))

    # transformations
    x = jnp.asarray(rng.normal(size=5), dtype=jnp.float32)

    def lp(prec, loc, rank=None, log_pdet=None):
        return MVND(loc, prec, rank=rank, log_pdet=log_pdet).log_prob(x)

    def smp(prec, loc, key):
        return MVND(loc, prec).sample(3, seed=key)

    loc = jnp.zeros(5)
    key = jax.random.PRNGKey(4)
    attempt("t.jit.lp", lambda: jax.jit(lp)(pen, loc))
    attempt("t.jit.lp.r", lambda: jax.jit(lp)(pen, loc, 3))
    attempt("t.jit.lp.rl", lambda: jax.jit(lp)(pen, loc, 3, 1.25))
    attempt("t.jit.lp.l", lambda: jax.jit(lp)(pen, loc, None, 1.25))
    attempt("t.grad.loc", lambda: jax.grad(lp, argnums=1)(pen, loc))
    attempt("t.grad.prec.rl", lambda: jax.grad(lp)(pen, loc, 3, 1.25))
    attempt("t.grad.prec.full",
            lambda: jax.grad(lp)(random_lowrank(rng, 5, 5) + jnp.eye(5), loc))
    attempt("t.vmap.lp", lambda: jax.vmap(lp, in_axes=(0, None))(
        jnp.stack([pen, 2 * pen]), loc))
    attempt("t.jit.sample", lambda: jax.jit(smp)(pen, loc, key))
    attempt("t.vmap.sample", lambda: jax.vmap(smp, in_axes=(0, None, None))(
        jnp.stack([pen, 2 * pen]), loc, key))
    jaxpr_hash("t.jaxpr.lp", lp, pen, loc)
    jaxpr_hash("t.jaxpr.lp.r", lambda p, l: lp(p, l, 3), pen, loc)
    jaxpr_hash("t.jaxpr.lp.rl", lambda p, l: lp(p, l, 3, 1.25), pen, loc)
    jaxpr_hash("t.jaxpr.lp.l", lambda p, l: lp(p, l, None, 1.25), pen, loc)
    jaxpr_hash("t.jaxpr.grad", jax.grad(lp), pen, loc)
    jaxpr_hash("t.jaxpr.sample", smp, pen, loc, key)
    jaxpr_hash("t.jaxpr.sample.batch", smp, jnp.stack([pen, 2 * pen]), loc, key)

    # sample moments / range space (summary of the property, deterministic seed)
    dist = MVND(jnp.arange(5.0), pen)
    s = dist.sample(4000, seed=jax.random.PRNGKey(123))
    digest("m.samples", s)
    digest("m.cov", jnp.cov((s - dist.loc).T))
    digest("m.nullproj", (s - dist.loc) @ jnp.linalg.eigh(pen)[1][:, :2])

    class Sub(MVND):
        pass

    d = Sub(jnp.zeros(5), pen, tol=1e-3)
    describe("sub", d, [x])
    describe("sub.copy", d.copy(loc=jnp.ones(5)), [x])


if __name__ == "__main__":
    rng = np.random.default_rng(3)
    helpers_part(rng)
    dist_part(rng)
