"""
C20 -- optim_flat: documented stopping rule, restored optimum, fresh minibatches.
"""

from __future__ import annotations

import ast
import re
import textwrap

from ..core.loader import FunctionInfo
from ..core.terms import (cmp_, not_, pc, phi_, c, evaluate, fn_name, kw, n, pretty, substitute, subterms)
from ..domains.keys import KeyAnalysis
from .common import LIB_FACTS, is_call, method, short

OPT = "liesel.goose.optim.optim_flat"
STOP = "liesel.goose.optim.Stopper"


def _canon(t):
    """Map numpy/jax.numpy spellings onto one namespace."""
    if not isinstance(t, tuple):
        return t
    if t and t[0] == "g" and isinstance(t[1], str):
        for p in ("jax.numpy.", "numpy."):
            if t[1].startswith(p):
                return ("g", "np." + t[1][len(p):])
    if t and t[0] == "n" and t[1] == "np":
        return t
    if t and t[0] == "a" and t[1] == ("n", "np"):
        return ("g", "np." + t[2])
    return tuple(_canon(x) for x in t)


def _at_set(t):
    """(array, index, value) of ``array.at[index].set(value)``, else None."""
    if t[0] == "call" and t[1][0] == "a" and t[1][2] == "set" and t[1][1][0] == "s" \
            and t[1][1][1][0] == "a" and t[1][1][1][2] == "at" and len(t[2]) == 1:
        return t[1][1][1][1], t[1][1][2], t[2][0]
    return None


def _tree_at_set(t):
    """(tree, index, values) of ``tree.map(lambda d, p: d.at[index].set(p), tree, values)``."""
    if t[0] == "call" and (fn_name(t[1]) or "") in ("jax.tree.map", "jax.tree_util.tree_map") \
            and len(t[2]) == 3 and t[2][0][0] == "lambda" and len(t[2][0][1]) == 2:
        d, p_ = t[2][0][1]
        inner = _at_set(t[2][0][2])
        if inner is not None and inner[0] == n(d) and inner[2] == n(p_):
            return t[2][1], inner[1], t[2][2]
    return None


def _recording_obligations(ctx, repo, of, ro, body):
    # ---- before the loop
    init_hist = [val for loc, val, _, _ in ro.stores
                 if loc[0] == "s" and loc[2] == c("history")]
    H = init_hist[0] if len(init_hist) == 1 else None
    P0 = [val for loc, val, _, _ in ro.stores if loc[0] == "s" and loc[2] == c("position")
          and H is not None and loc[1] != H]
    P0 = P0[0] if P0 else None
    last = {}
    prev = {}
    for loc, val, nd, cond in ro.stores:
        if H is not None and loc[0] == "s" and loc[1] == H and loc[2][0] == "c":
            key = (loc[2][1], tuple(cond))
            prev[key] = last.get(key)
            last[key] = val
    ok0 = {}
    for hk, fn_suffix in (("loss_train", "_neg_log_prob_train"),
                          ("loss_validation", "_neg_log_prob_validation")):
        v = last.get((hk, ()))
        parts = _at_set(v) if v is not None else None
        ok0[hk] = (parts is not None and parts[1] == c(0) and parts[0] == prev.get((hk, ()))
                   and parts[2][0] == "call" and parts[2][1][0] == "fn"
                   and parts[2][1][1].endswith(fn_suffix)
                   and P0 is not None and kw(parts[2], "position", 0) == P0)
    sp_ = ((n("save_position_history"), True),)
    v = last.get(("position", sp_))
    parts = _tree_at_set(v) if v is not None else None
    ok0["position"] = (parts is not None and parts[1] == c(0) and P0 is not None
                       and parts[2] == P0 and parts[0] == prev.get(("position", sp_)))
    cnt0 = [val for loc, val, _, _ in ro.stores if loc[0] == "s" and loc[2] == c("while_i")]
    ok0["counter"] = cnt0 == [c(0)]
    ctx.ob("C20.R2", of, "row 0 of every history holds the start: the start position and "
                         "the training / validation loss evaluated at it (the best-iteration "
                         "search may pick index 0)", all(ok0.values()),
           detail=str(ok0), stmt="start recording " + str(sorted(k for k, v_ in ok0.items() if not v_)))
    # ---- which model each loss is evaluated on
    env_ = ro.env.vars
    mv_eff = env_.get("model_validation")
    want_mv = phi_(("cmp", "is", n("model_validation"), c(None)), n("model_train"),
                   n("model_validation"))
    it_, iv_ = env_.get("interface_train"), env_.get("interface_validation")
    LI = "liesel.goose.interface.LieselInterface"
    ok_if = (mv_eff == want_mv
             and it_ == ("call", ("g", LI), (n("model_train"),), ())
             and iv_ == ("call", ("g", LI), (mv_eff,), ()))
    losses_ok = {}
    for fname, iface in (("_neg_log_prob_train", "interface_train"),
                         ("_neg_log_prob_validation", "interface_validation")):
        lf = of.nested(fname)
        rl_ = evaluate(repo, lf, closure={k: v for k, v in ro.closure().items()
                                          if k not in ("interface_train", "interface_validation")})
        ups = [t for t, _, _ in rl_.calls if t[0] == "call" and t[1][0] == "a"
               and t[1][2] == "update_state"]
        ps = [n(p_) for p_ in lf.params()]
        losses_ok[fname] = (len(ups) == 1 and ups[0][1][1] == n(iface)
                            and ups[0][2] == (ps[0], ps[1]))
    ctx.ob("C20.R2", of, "the training loss is evaluated with the training model's interface "
                         "and the validation loss with the validation model's (the training "
                         "model when none is given)", ok_if and all(losses_ok.values()),
           detail=f"interfaces ok={ok_if}; {losses_ok}", stmt="loss models")
    # ---- inside the loop body
    rb = evaluate(repo, body, closure=ro.closure())
    V = rb.ret()
    okb = {}
    if V is not None:
        cnt = [val for loc, val, _, _ in rb.stores if loc == ("s", V, c("while_i"))]
        I = cnt[-1] if cnt else None
        okb["counter"] = I == ("op", "+", ("s", V, c("while_i")), c(1))
        HV = ("s", V, c("history"))
        PV = ("s", V, c("position"))
        for hk, fn_suffix, msk in (("loss_train", "_neg_log_prob_train", "model_state_train"),
                                   ("loss_validation", "_neg_log_prob_validation",
                                    "model_state_validation")):
            vals = [val for loc, val, _, cond in rb.stores if loc == ("s", HV, c(hk))]
            parts = _at_set(vals[-1]) if vals else None
            okb[hk] = (parts is not None and parts[0] == ("s", HV, c(hk)) and parts[1] == I
                       and parts[2][0] == "call" and parts[2][1][0] == "fn"
                       and parts[2][1][1].endswith(fn_suffix)
                       and kw(parts[2], "position", 0) == PV
                       and kw(parts[2], "model_state", 1) == ("s", V, c(msk)))
        vals = [(val, cond) for loc, val, _, cond in rb.stores if loc == ("s", HV, c("position"))]
        parts = _tree_at_set(vals[-1][0]) if vals else None
        okb["position"] = (parts is not None and parts[0] == ("s", HV, c("position"))
                           and parts[1] == I and parts[2] == PV
                           and vals[-1][1] == ((n("save_position_history"), True),))
    ctx.ob("C20.R2", body, "each iteration records, at the incremented counter, the position "
                           "reached by that iteration and both losses evaluated at exactly "
                           "that position", bool(okb) and all(okb.values()), detail=str(okb),
           stmt="iteration recording " + str(sorted(k for k, v_ in okb.items() if not v_)))


def check(ctx):
    repo = ctx.repo
    ctx.rule("R1", "the PRNG key carried by the optimisation loop is replaced by a fresh key "
                   "whenever it is consumed (affine key typing on the while-loop carry), so "
                   "batch membership is re-drawn in every iteration.")
    ctx.rule("R2", "the returned model state is update_state(returned position); with "
                   "restore_best_position the position is the recorded history at the "
                   "reported best iteration, found on the validation loss with the user's "
                   "patience.")
    ctx.rule("R3", "NaN padding starts and pruning ends at the same bound (last iteration "
                   "+ 1) for all three history entries.")
    ctx.rule("R4", "stop_early = (documented pseudo-code) & (a full patience window has "
                   "passed); stop_now adds i >= max_iter - 1; continue_ is its negation.")
    ctx.trust(LIB_FACTS["keys"])
    ctx.undecided("agreement of the stopping rule over all loss histories (value-level)")

    # ------------------------------------------------------------------ R1
    ka = KeyAnalysis(repo, ("liesel.goose.optim.",))
    rep = ka.run()
    ctx.require_min("key consumption sites in optim.py", rep.consumption_sites, 3)
    body = repo.func(OPT).nested("body_fun")
    ctx.call_sites += rep.consumption_sites
    fs = [f for f in rep.findings]
    if not fs:
        ctx.ob("C20.R1", body, "the carried key val['key'] is overwritten with a fresh key "
                               "derived from the split that consumes it", True)
    for f in fs:
        ctx.ob("C20.R1", f.fi, f"key discipline {f.rule}: the loop-carried key is replaced "
                               f"when consumed", False, detail=f.what, node=f.node,
               stmt=f"{f.rule} " + str(f.key).replace(f.fi.params()[0] + "[", "<carry>[")
               if f.fi.params() else f"{f.rule} {f.key}")
    # the batches are drawn from the sub key
    rb = evaluate(repo, body)
    gen = [t for t, _, _ in rb.calls if is_call(t, "liesel.goose.optim._generate_batch_indices")]
    split = ("call", ("g", "jax.random.split"), (("s", n(body.params()[0]), c("key")),), ())
    ok = len(gen) == 1 and kw(gen[0], "key", 0) in (("proj", split, 1), ("proj", split, 0))
    ctx.ob("C20.R1", body, "batch indices are generated from a piece of the split of the "
                           "carried key", ok, detail=short(gen[0]) if gen else "no call")
    gbi = repo.func("liesel.goose.optim._generate_batch_indices")
    rg = evaluate(repo, gbi)
    perm = [t for t, _, _ in rg.calls if is_call(t, "jax.random.permutation")]
    ctx.ob("C20.R1", gbi, "batch membership is a random permutation of all n observations "
                          "under the given key", len(perm) == 1 and perm[0][2] == (n("key"), n("n")),
           detail=short(perm[0]) if perm else "")
    rgt = rg.ret()
    ok_split = False
    if rgt is not None and rgt[0] == "call" and rgt[2] and is_call(rgt[2][0], "jax.numpy.array_split") \
            and len(perm) == 1:
        sp = rgt[2][0]
        arr, k = kw(sp, "ary", 0), kw(sp, "indices_or_sections", 1)
        nfull = ("op", "//", n("n"), n("batch_size"))
        upper = [("op", "*", nfull, n("batch_size")), ("op", "*", n("batch_size"), nfull)]
        ok_split = (k == nfull and arr is not None and arr[0] == "s" and arr[1] == perm[0]
                    and arr[2][0] == "slice" and arr[2][1] in (c(0), c(None))
                    and arr[2][2] in upper and arr[2][3] == c(None))
    ctx.ob("C20.R1", gbi, "the batches are the n // batch_size equal, disjoint slices of the "
                          "first (n // batch_size) * batch_size entries of that permutation "
                          "(every batch has batch_size distinct observations, no observation "
                          "is in two batches)", ok_split, detail=short(rgt or (), 200),
           stmt="batch split " + pretty(rgt or ())[:160])
    fb = body.nested("_fori_body")
    rfb = evaluate(repo, fb, closure=rb.closure())
    gcalls = [t for t, _, _ in rfb.calls if t[0] == "call" and t[1] == n("neg_log_prob_grad")]
    ok_use = False
    if len(gcalls) == 1 and gen:
        b_arg = kw(gcalls[0], "batch_indices", 1)
        ok_use = b_arg == ("s", gen[0], n(fb.params()[0]))
    fl = [t for t, _, _ in rb.calls if is_call(t, "jax.lax.fori_loop")]
    ok_loop_b = (len(fl) == 1 and gen and kw(fl[0], "lower", 0) == c(0)
                 and kw(fl[0], "upper", 1) == ("call", ("n", "len"), (gen[0],), ()))
    # the step is applied: position <- apply_updates(position, optimizer.update(grad, ...))
    ok_step = False
    if len(gcalls) == 1:
        vp = n(fb.params()[1])
        pos_t = ("s", vp, c("position"))
        upd = [t for t, _, _ in rfb.calls if t[0] == "call" and t[1][0] == "a"
               and t[1][2] == "update" and t[2][:1] == (gcalls[0],)]
        sts_ = {loc: v for loc, v, _, _ in rfb.stores}
        if len(upd) == 1:
            want_pos = ("call", ("g", "optax.apply_updates"), (pos_t, ("proj", upd[0], 0)), ())
            ok_step = (sts_.get(pos_t) == want_pos
                       and sts_.get(("s", vp, c("opt_state"))) == ("proj", upd[0], 1)
                       and kw(upd[0], "state", 1) == ("s", vp, c("opt_state"))
                       and kw(gcalls[0], "position", 0) == pos_t
                       and rfb.ret() == vp)
    ctx.ob("C20.R1", fb, "every batch moves the position: the gradient at the current "
                         "position on that batch goes through optimizer.update and "
                         "apply_updates, and position and optimiser state are written back",
           ok_step, stmt="optimiser step applied")
    fo = repo.func("liesel.goose.optim._find_observed")
    rfo = evaluate(repo, fo)
    obs_calls = [t for t, _, _ in evaluate(repo, repo.func("liesel.goose.optim.optim_flat")).calls
                 if is_call(t, "liesel.goose.optim._find_observed")]
    rt_o = rfo.ret()
    ctx.ob("C20.R1", fo, "the observed values the batches are cut from are read from the "
                         "training model in this call (a comprehension over model.vars of "
                         "the observed variables' current values)",
           len(obs_calls) == 1 and kw(obs_calls[0], "model", 0) == n("model_train")
           and rt_o is not None and "model.vars" in pretty(rt_o)
           and ".value" in pretty(rt_o) and not any(
               isinstance(x, tuple) and x and x[0] in ("phi", "ifexp") for x in subterms(rt_o)),
           detail=short(rt_o or (), 160), stmt="observed values of this call")
    ctx.ob("C20.R1", body, "one gradient step per batch: step i uses batches[i], for i = 0 .. "
                           "len(batches) - 1", ok_use and ok_loop_b,
           detail=f"gradient batch {short(kw(gcalls[0], 'batch_indices', 1) or ()) if gcalls else None}",
           stmt="batch use")

    # ------------------------------------------------------------------ R2 / R3
    of = repo.func(OPT)
    ro = evaluate(repo, of)
    rt = ro.ret()
    ok_ret = rt is not None and is_call(rt, "liesel.goose.optim.OptimResult")
    ctx.ob("C20.R2", of, "optim_flat returns an OptimResult", ok_ret, detail=short(rt or ()))
    if ok_ret:
        ms, pos = kw(rt, "model_state", 0), kw(rt, "position", 1)
        it_, ib = kw(rt, "iteration", 2), kw(rt, "iteration_best", 3)
        ok_state = (ms is not None and ms[0] == "call" and ms[1][0] == "a"
                    and ms[1][2] == "update_state" and ms[2] and ms[2][0] == pos
                    and is_call(ms[1][1], "liesel.goose.interface.LieselInterface")
                    and ms[1][1][2] == (n("model_train"),))
        ctx.ob("C20.R2", of, "result.model_state = train interface.update_state(result."
                             "position, ...)", ok_state, detail=short(ms or ()),
               stmt="final state " + pretty(ms or ())[:160])
        wl = [t for t, _, _ in ro.calls if is_call(t, "jax.lax.while_loop")]
        val = wl[0] if wl else None
        ok_pos = False
        if pos is not None and pos[0] == "phi" and val is not None:
            condt, a, b = pos[1], pos[2], pos[3]
            hist = ("s", ("s", val, c("history")), c("position"))
            ok_a = (a[0] == "comp" and a[1] == "dict" and len(a[3]) == 1
                    and a[3][0][1] == ("call", ("a", hist, "items"), (), ())
                    and a[2][1] == ("s", ("proj", ("iter", a[3][0][1]), 1), ib)
                    and a[2][0] == ("proj", ("iter", a[3][0][1]), 0))
            ok_pos = (condt == n("restore_best_position") and ok_a
                      and b == ("s", val, c("position")))
        ctx.ob("C20.R2", of, "position = recorded history at iteration_best when restoring "
                             "the best position, else the last position", ok_pos,
               detail=short(pos or ()), stmt="final position " + pretty(pos or ())[:200])
        ok_it = val is not None and it_ == ("s", val, c("while_i"))
        ctx.ob("C20.R2", of, "result.iteration is the loop counter", ok_it, detail=short(it_ or ()))
        ok_ib = False
        if ib is not None and ib[0] == "call" and ib[1][0] == "a" \
                and ib[1][2] == "which_best_in_recent_history" and val is not None:
            ok_ib = (kw(ib, "i", 0) == it_
                     and kw(ib, "loss_history", 1) == ("s", ("s", val, c("history")),
                                                       c("loss_validation")))
        ctx.ob("C20.R2", of, "iteration_best = which_best_in_recent_history(last iteration, "
                             "validation loss history)", ok_ib, detail=short(ib or ()),
               stmt="ibest " + pretty(ib or ())[:160])
        # optim_flat temporarily rewrites stopper.patience: a default stopper must be a
        # fresh object of this call (a shared module-level default would carry a patience
        # left behind by an interrupted earlier call into later calls)
        st_t = ro.env.vars.get("stopper")
        dflts = sorted({x for x in subterms(st_t or ()) if x[0] == "phi"
                        and x[1] == ("cmp", "is", n("stopper"), c(None))})
        # the caller's Stopper is never left with another patience: every write to
        # `.patience` either goes to an object created in this call or writes back the value
        # read from that same object
        S0 = dflts[0] if dflts else None
        bad_w = []
        for loc, v, nd, cond in ro.stores:
            if loc[0] == "a" and loc[2] == "patience":
                tgt = loc[1]

                def may_be_users(t):
                    """not provably an object created in this call (the caller's stopper,
                    or a shared module-level default)"""
                    if t[0] == "phi":
                        return may_be_users(t[2]) or may_be_users(t[3])
                    fresh = is_call(t, "liesel.goose.optim.Stopper", "dataclasses.replace",
                                    "copy.copy", "copy.deepcopy")
                    return not fresh
                if may_be_users(tgt) and v != ("a", S0, "patience"):
                    bad_w.append((nd, v))
        ctx.ob("C20.R2", of, "the caller's Stopper (and any shared default) keeps its patience "
                             "on every path, also when the call fails half-way (the temporary "
                             "patience = max_iter goes to a copy)", not bad_w and S0 is not None,
               detail="; ".join(f"line {nd.lineno}: patience <- {short(v, 60)}" for nd, v in bad_w),
               node=bad_w[0][0] if bad_w else None,
               stmt="caller's stopper rewritten: " + "; ".join(pretty(v)[:60] for _, v in bad_w))
        # documented: "If None [no validation model], no early stopping is conducted" --
        # the stopper that drives the loop then has patience = max_iter
        st_t = ro.env.vars.get("stopper")
        ok_noes = False
        if st_t is not None and st_t[0] == "phi" and st_t[1] == (
                "cmp", "is", n("model_validation"), c(None)):
            tb, fb = st_t[2], st_t[3]
            if is_call(tb, "dataclasses.replace") and tb[2] == (fb,):
                ok_noes = dict(tb[3]).get("patience") == ("a", fb, "max_iter")
            elif is_call(tb, "liesel.goose.optim.Stopper"):
                ok_noes = kw(tb, "patience", 1) == ("a", fb, "max_iter") \
                    and kw(tb, "max_iter", 0) == ("a", fb, "max_iter")
        ctx.ob("C20.R2", of, "without a validation model the loop runs with patience = "
                             "max_iter (documented: no early stopping), with the user's "
                             "stopper otherwise", ok_noes, unproven=st_t is None or st_t[0] != "phi",
               detail=short(st_t or (), 200), stmt="no early stopping without validation model")
        # the documented defaults
        dflt = {a.arg: d for a, d in zip(of.node.args.args[-len(of.node.args.defaults):],
                                         of.node.args.defaults)}
        dflt.update({a.arg: d for a, d in zip(of.node.args.kwonlyargs, of.node.args.kw_defaults)
                     if d is not None})
        want_d = {"restore_best_position": True, "save_position_history": True}
        got_d = {k: getattr(dflt.get(k), "value", "?") for k in want_d}
        ctx.ob("C20.R2", of, "restore_best_position and save_position_history default to True "
                             "(the returned position is the best of the patience window unless "
                             "the user opts out)", got_d == want_d, detail=str(got_d),
               stmt=f"defaults {got_d}")
        # the user's patience is restored before ibest is computed
        pat_stores = [(val_, node) for loc, val_, node, _ in ro.stores
                      if loc[0] == "a" and loc[2] == "patience"]
        ib_nodes = [node for t, node, _ in ro.calls
                    if t[0] == "call" and t[1][0] == "a"
                    and t[1][2] == "which_best_in_recent_history"]
        ok_pat = False
        if pat_stores and ib_nodes:
            last_val, last_node = pat_stores[-1]
            ok_pat = (last_node.lineno < ib_nodes[0].lineno and S0 is not None
                      and last_val == ("a", S0, "patience"))
        ctx.ob("C20.R2", of, "the user's patience is restored before the best iteration is "
                             "located", ok_pat, stmt="patience restore")
        # ---- what is recorded: row 0 = the start, row i = the state after iteration i
        _recording_obligations(ctx, repo, of, ro, body)
        # R3
        hist_t = kw(rt, "history", 4)
        bound = ("op", "+", it_, c(1)) if it_ is not None else None
        pads, prunes = [], []
        for t in subterms(("tuple", tuple(v for _, v, _, _ in ro.stores))):
            if t[0] == "call" and t[1][0] == "a" and t[1][2] == "set" and t[2] \
                    and t[2][0] == ("g", "jax.numpy.nan") and t[1][1][0] == "s":
                idx = t[1][1][2]
                first = idx[1][0] if idx[0] == "tuple" else idx
                pads.append(first)
        for loc, v, node, cond in ro.stores:
            if v[0] == "s" and any(a_ == n("prune_history") and p for a_, p in cond):
                idx = v[2]
                first = idx[1][0] if idx[0] == "tuple" else idx
                prunes.append(first)
        pads = list(dict.fromkeys(pads))
        prunes = list(dict.fromkeys(prunes))
        ok_pad = pads == [("slice", bound, c(None), c(None))]
        ok_prune = prunes == [("slice", c(None), bound, c(None))]
        ctx.ob("C20.R3", of, "unused history entries are set to NaN from index last "
                             "iteration + 1 (all histories use the same bound)", ok_pad,
               detail=str([short(p) for p in pads]), stmt="pad bound " + str([pretty(p) for p in pads]))
        ctx.ob("C20.R3", of, "pruning keeps exactly the entries 0..last iteration (same "
                             "bound as the padding)", ok_prune,
               detail=str([short(p) for p in prunes]),
               stmt="prune bound " + str([pretty(p) for p in prunes]))
        npad = sum(1 for t in subterms(("tuple", tuple(v for _, v, _, _ in ro.stores)))
                   if t[0] == "call" and t[1][0] == "a" and t[1][2] == "set" and t[2]
                   and t[2][0] == ("g", "jax.numpy.nan"))
        ctx.ob("C20.R3", of, "training loss, validation loss and position histories are all "
                             "padded", npad >= 3, detail=f"{npad} padded histories")
        # per history: padded unconditionally (positions: iff recorded), pruned iff requested
        if val is not None and bound is not None:
            hist = ("s", val, c("history"))
            pad_sl = ("slice", bound, c(None), c(None))
            cut_sl = ("slice", c(None), bound, c(None))
            PH, SP = (n("prune_history"), True), (n("save_position_history"), True)
            status = {}
            for hk in ("loss_train", "loss_validation"):
                loc_ = ("s", hist, c(hk))
                sts = [(v, [(a, p_) for a, p_ in cond if a[0] != "inloop"])
                       for loc, v, _, cond in ro.stores if loc == loc_]
                padded = ("call", ("a", ("s", ("a", loc_, "at"), pad_sl), "set"),
                          (("g", "jax.numpy.nan"),), ())
                status[hk] = sts == [(padded, []), (("s", padded, cut_sl), [PH])]
            pitems = ("iter", ("call", ("a", ("s", hist, c("position")), "items"), (), ()))
            ploc = ("s", ("s", hist, c("position")), ("proj", pitems, 0))
            pv = ("proj", pitems, 1)
            psts = [(v, [(a, p_) for a, p_ in cond if a[0] != "inloop"])
                    for loc, v, _, cond in ro.stores if loc == ploc]
            ppad = ("call", ("a", ("s", ("a", pv, "at"), ("tuple", (pad_sl, c(Ellipsis)))), "set"),
                    (("g", "jax.numpy.nan"),), ())
            pcut = ("s", pv, ("tuple", (cut_sl, c(Ellipsis))))
            status["position"] = psts == [(ppad, [SP]), (pcut, [PH, SP])]
            ctx.ob("C20.R3", of, "each history is NaN-padded behind the last iteration on every "
                                 "run (the position history whenever it is recorded) and cut "
                                 "to 0..last iteration exactly when prune_history is set",
                   all(status.values()), detail=str(status),
                   stmt="history padding/pruning " + str(sorted(k for k, v in status.items() if not v)))
        # loop wiring
        if val is not None:
            cf = kw(val, "cond_fun", 0)
            bf = kw(val, "body_fun", 1)
            ok_loop = (bf == ("fn", body.qualname) and cf is not None and cf[0] == "lambda"
                       and cf[2][0] == "call" and cf[2][1][2] == "continue_"
                       and cf[2][2] == (("s", n(cf[1][0]), c("while_i")),
                                        ("s", ("s", n(cf[1][0]), c("history")),
                                         c("loss_validation"))))
            ctx.ob("C20.R4", of, "the loop continues while stopper.continue_(iteration, "
                                 "validation loss history)", ok_loop, detail=short(cf or ()))

    # ------------------------------------------------------------------ R4
    sc = repo.cls(STOP)
    # the stopper is a mutable configuration object (optim_flat itself rewrites patience):
    # its rule methods read the fields at call time -- no jit / cache keyed on the object
    deco = {}
    for mname in ("stop_early", "stop_now", "continue_", "which_best_in_recent_history"):
        mf = sc.own_method(mname)
        if mf is not None and mf.decorators():
            deco[mname] = mf.decorators()
    cls_deco = [ast.unparse(d) for d in sc.node.decorator_list]
    ctx.ob("C20.R4", sc, "the Stopper's rule methods are plain methods of a plain dataclass "
                         "(no jit with the object as a static argument, no memoisation: a "
                         "later change of patience / atol / rtol must take effect)",
           not deco and cls_deco in (["dataclass"], ["dataclasses.dataclass"]),
           detail=f"method decorators {deco}; class decorators {cls_deco}",
           stmt=f"stopper decorators {sorted(deco)} {cls_deco}")
    se = method(repo, sc, "stop_early", own=True)
    rs = evaluate(repo, se).ret()
    W = ("n", "WINDOW")
    i_, p_ = n("i"), ("a", n("self"), "patience")
    lower = ("call", ("g", "jax.numpy.max"),
             (("call", ("g", "jax.numpy.array"),
               (("list", (("op", "+", ("op", "-", i_, p_), c(1)), c(0))),), ()),), ())
    window = ("call", ("g", "jax.lax.dynamic_slice"), (n("loss_history"),),
              (("slice_sizes", ("tuple", (p_,))), ("start_indices", ("tuple", (lower,)))))
    has_win = rs is not None and any(x == window for x in subterms(rs))
    ctx.ob("C20.R4", se, "the patience window is the last `patience` losses up to iteration "
                         "i (start max(i - p + 1, 0), length p)", has_win,
           detail=short(rs or (), 300), stmt="window")
    doc = ast.get_docstring(sc.node) or ""
    blocks = re.findall(r"\.\. code-block:: python\n\n((?:[ \t]+.*\n|\n)+)", doc + "\n")
    doc_ret = None
    for b in blocks:
        try:
            tree = ast.parse(textwrap.dedent(b))
        except SyntaxError:
            continue
        fdefs = [x for x in tree.body if isinstance(x, ast.FunctionDef)]
        if fdefs and any(a.arg == "rtol" for a in fdefs[0].args.args):
            dfi = FunctionInfo("doc.stop", fdefs[0], sc.module)
            doc_ret = evaluate(repo, dfi).ret()
    # reference rule, from the property statement: after a full window, the oldest loss of
    # the window is within the absolute or the relative tolerance of the best one
    W0 = ("s", W, c(0))
    best = ("call", ("g", "np.min"), (W,), ())
    diff = ("op", "-", W0, best)
    ref_rule = ("op", "|", cmp_("<=", diff, n("atol")),
                cmp_("<=", ("op", "/", diff, ("call", ("g", "np.abs"), (best,), ())),
                     n("rtol")))
    after = cmp_(">", i_, p_)
    impl_c = None
    if rs is not None:
        impl = substitute(rs, {window: W, ("a", n("self"), "atol"): n("atol"),
                               ("a", n("self"), "rtol"): n("rtol")})
        impl = substitute(impl, {("proj", W, 0): W0})
        impl_c = _canon(impl)
        ok = impl_c in (("op", "&", ref_rule, _canon(after)),
                        ("op", "&", _canon(after), ref_rule))
        ctx.ob("C20.R4", se, "stop_early == (oldest - best <= atol  |  (oldest - best) / "
                             "|best| <= rtol, oldest = first and best = min of the window) "
                             "& (i > patience)", ok,
               detail=f"implementation {short(impl_c, 300)}",
               stmt="stop_early " + pretty(impl_c)[:260])
    if doc_ret is not None and impl_c is not None:
        docw = None
        for x in subterms(doc_ret):
            if x[0] == "s" and x[1] == n("loss_history"):
                docw = x
        docn = substitute(doc_ret, {docw: W}) if docw else doc_ret
        doc_c = _canon(docn)
        ctx.ob("C20.R4", sc, "the pseudo-code in the Stopper docstring states the same rule "
                             "as the implementation (documentation and code have not "
                             "drifted apart)", impl_c in (("op", "&", doc_c, _canon(after)),
                                                          ("op", "&", _canon(after), doc_c)),
               detail=f"documented {short(doc_c, 200)}", stmt="doc drift " + pretty(doc_c)[:200],
               facts={"documented": pretty(doc_c)[:300]})
    else:
        ctx.ob("C20.R4", sc, "(no pseudo-code block in the docstring: nothing to compare)",
               True, nontrivial=False)
    sn = method(repo, sc, "stop_now", own=True)
    rn = evaluate(repo, sn).ret()
    early = ("call", ("a", n("self"), "stop_early"), (i_, n("loss_history")), ())
    limit = cmp_(">=", i_, ("op", "-", ("a", n("self"), "max_iter"), c(1)))
    ctx.ob("C20.R4", sn, "stop_now = stop_early | (i >= max_iter - 1)",
           rn in (("op", "|", early, limit), ("op", "|", limit, early)),
           detail=short(rn or ()), stmt="stop_now " + pretty(rn or ())[:160])
    cn = method(repo, sc, "continue_", own=True)
    rc = evaluate(repo, cn).ret()
    now = ("call", ("a", n("self"), "stop_now"), (i_, n("loss_history")), ())
    ctx.ob("C20.R4", cn, "continue_ is the negation of stop_now", rc == ("u", "~", now),
           detail=short(rc or ()))
    wb = method(repo, sc, "which_best_in_recent_history", own=True)
    rw = evaluate(repo, wb).ret()
    win2 = ("call", ("g", "jax.lax.dynamic_slice"), (n("loss_history"),),
            (("slice_sizes", ("tuple", (p_,))),
             ("start_indices", ("tuple", (("op", "+", ("op", "-", i_, p_), c(1)),)))))
    want = ("op", "+", ("op", "+", ("op", "-", i_, p_),
                        ("call", ("g", "jax.numpy.argmin"), (win2,), ())), c(1))
    ok_wb = False
    try:
        import sympy as sp
        from ..algebra import is_zero, to_sympy
        I, P, A = sp.symbols("I P A")
        leaf = lambda t: A if is_call(t, "jax.numpy.argmin") and t[2] == (win2,) else None  # noqa
        e1 = to_sympy(rw, {i_: I, p_: P}, leaf)
        ok_wb = is_zero(e1 - (I - P + A + 1))
    except Exception:
        ok_wb = rw == want
    ctx.ob("C20.R2", wb, "the best index is i - p + 1 + argmin of the window starting at "
                         "i - p + 1", ok_wb, detail=short(rw or ()),
           stmt="which_best " + pretty(rw or ())[:200])
