import ast

from .runner import (V, expr, expr_is, is_assign_to, is_expr_call, replace_expr,
                     replace_stmt, stmt)

F = "liesel/model/model.py"
S = "Model.simulate"

VARIANTS = [
    V("c17_no_refresh", "M", F, S,
      lambda nd: isinstance(nd, ast.Expr) and "self.update(" in ast.unparse(nd), lambda nd: None,
      note="refresh deleted again: stale parameters with auto_update off",
      expect_rule="C17.R1"),
    V("c17_refresh_after", "M", F, S,
      lambda nd: isinstance(nd, ast.For),
      lambda nd: ast.For(target=nd.target, iter=nd.iter,
                         body=[nd.body[1], nd.body[0]] + nd.body[2:], orelse=[]),
      note="refresh after init_dist()", expect_rule="C17.R1"),
    V("c17_refresh_wrong_node", "M", F, S,
      *replace_expr("self.update(*(node.name for node in dist.all_input_nodes()))",
                    "self.update('_model_log_prob') if False else None"),
      note="refresh that does not cover the inputs", expect_rule="C17.R1"),
    V("c17_sorted_nodes", "M", F, S,
      *replace_expr("self._simulation_nodes", "self._sorted_nodes"),
      note="update order instead of simulation order (children before parents of at)",
      expect_rule="C17.R2"),
    V("c17_skip_no_var", "M", F, S,
      *replace_expr("node.var is not None and node.var.name not in skip", "node.var is not None"),
      note="variable name ignored by the skip filter", expect_rule="C17.R2"),
    V("c17_same_seed", "M", F, S,
      *replace_expr("tfp_dist.sample(sample_shape, seed)", "tfp_dist.sample(sample_shape, seeds[0])"),
      note="all distributions share one seed", expect_rule="C17.R2"),
    V("c17_sim_graph_no_reverse", "M", F, "Model._build_simulation_graph",
      *replace_expr("isinstance(node, Dist) and _input is node.at", "False"),
      note="no edge reversed: distributions sorted after their variables",
      expect_rule="C17.R2"),
    V("c17_shape", "M", F, S,
      *replace_expr("len(value_shape) - len(batch_shape) - len(event_shape)",
                    "len(value_shape) - len(event_shape)"),
      note="batch dims counted as sample dims", expect_rule="C17.R2"),
    V("c17_setter_partial_autoupdate", "M", "liesel/model/nodes.py", "Value.value#setter",
      *replace_expr("self.model.update()", "self.model.update(*(o.name for o in self.outputs))"),
      note="the draw assigned by simulate refreshes only the direct outputs",
      expect_rule="C17.R3"),
    # ---- twins
    V("c17_t_full_update", "T", F, S,
      *replace_expr("self.update(*(node.name for node in dist.all_input_nodes()))",
                    "self.update()"),
      note="refresh via full update"),
    V("c17_t_update_dist", "T", F, S,
      *replace_expr("self.update(*(node.name for node in dist.all_input_nodes()))",
                    "self.update(dist.name)"),
      note="refresh via targeted update of the dist node"),
]
