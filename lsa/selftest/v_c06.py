import ast

from .runner import (V, expr, expr_is, is_assign_to, is_expr_call, replace_expr,
                     replace_stmt, stmt)

I = "liesel/goose/iwls.py"
U = "liesel/goose/iwls_utils.py"
RW = "liesel/goose/rw.py"
MK = "liesel/goose/mh_kernel.py"
S = "IWLSKernel._standard_transition"

VARIANTS = [
    V("c06_fwd_minus_bwd", "M", I, S,
      *replace_expr("bwd_log_prob - fwd_log_prob", "fwd_log_prob - bwd_log_prob"),
      note="correction with the wrong sign", expect_rule="C06.R2"),
    V("c06_score_pos_in_bwd", "M", I, S,
      *replace_expr("solve(chol_info_prop, score_prop)", "solve(chol_info_prop, score_pos)"),
      note="backward mean uses the score at the current point", expect_rule="C06.R2"),
    V("c06_chol_pos_in_bwd", "M", I, S,
      *replace_expr("mvn_log_prob(flat_pos, mu_prop, chol_info_prop / step_size)",
                    "mvn_log_prob(flat_pos, mu_prop, chol_info_pos / step_size)"),
      note="backward density with the forward information", expect_rule="C06.R2"),
    V("c06_step_not_squared", "M", I, S,
      *replace_expr("flat_pos + step_size ** 2 / 2 * solve(chol_info_pos, score_pos)",
                    "flat_pos + step_size / 2 * solve(chol_info_pos, score_pos)"),
      note="s instead of s^2 in the forward mean", expect_rule="C06.R2"),
    V("c06_stale_state_bwd", "M", I, S,
      *replace_expr("self._chol_info(model_state_prop, flat_hessian_fn)",
                    "self._chol_info(model_state, flat_hessian_fn)"),
      note="backward information evaluated at the current state", expect_rule="C06.R2"),
    V("c06_sampler_scale", "M", I, S,
      *replace_expr("mvn_sample(key, mu_pos, chol_info_pos / step_size)",
                    "mvn_sample(key, mu_pos, chol_info_pos * step_size)"),
      note="sampler and forward density disagree on the scale", expect_rule="C06.R2"),
    V("c06_rw_scaled_by_pos", "M", RW, "RWKernel._standard_transition",
      *replace_expr("step_size * jax.random.normal(key, flat_position.shape)",
                    "step_size * (1 + abs(flat_position)) * jax.random.normal(key, flat_position.shape)"),
      note="position-dependent (asymmetric) random walk without correction",
      expect_rule="C06.R1"),
    V("c06_mh_zero_corr", "M", MK, "MHKernel._standard_transition",
      *replace_expr("proposal.log_correction", "0.0"),
      note="user's correction ignored", expect_rule="C06.R4"),
    V("c06_logdet_sign", "M", U, "mvn_log_prob",
      *replace_expr("log_prob + adjustment", "log_prob - adjustment"),
      note="log-determinant with the wrong sign", expect_rule="C06.R3"),
    V("c06_sample_left", "M", U, "mvn_sample",
      *replace_expr("triangular_solve(chol_inv_cov, standardized, lower=True)",
                    "triangular_solve(chol_inv_cov, standardized, lower=True, left_side=True)"),
      note="sample covariance (L^T L)^-1 instead of (L L^T)^-1", expect_rule="C06.R3"),
    V("c06_hess_sign", "M", I, "IWLSKernel._chol_info",
      *replace_expr("jnpla.cholesky(-flat_hessian_fn(flat_position))",
                    "jnpla.cholesky(flat_hessian_fn(flat_position))"),
      note="Hessian instead of negative Hessian", expect_rule="C06.R5"),
    V("c06_grad_of_other", "M", I, S,
      *replace_stmt("flat_hessian_fn = jacfwd(flat_score_fn)",
                    "flat_hessian_fn = jacfwd(grad(lambda x: -0.5 * (x ** 2).sum()))"),
      note="information of a different function", expect_rule="C06.R5"),
    V("c06_doc_ratio_inverted", "M", MK, "MHProposal",
      lambda nd: isinstance(nd, ast.Expr) and isinstance(nd.value, ast.Constant)
      and "q(" in str(nd.value.value),
      lambda nd: ast.Expr(ast.Constant("Let q(x' | x) be the proposal density, then "
                                       "log(q(x'|x) / q(x | x')) is the log_mh_correction.")),
      note="documented convention is the reciprocal of what mh_step applies",
      expect_rule="C06.R4"),
    V("c06_mh_default_correction", "M", "liesel/goose/mh.py", "",
      lambda nd: isinstance(nd, ast.FunctionDef) and nd.name == "mh_step",
      lambda nd: (setattr(nd.args, "defaults", [ast.Constant(1.0)]) or nd),
      note="mh_step's default correction is not zero (RW relies on the default)",
      expect_rule="C06.R1"),
    V("c06_mh_key_reuse", "M", MK, "MHKernel._standard_transition",
      *replace_expr("self._proposal_fn(key, model_state, step_size)",
                    "self._proposal_fn(prng_key, model_state, step_size)"),
      note="the user's proposal gets the parent key of the accept draw", expect_rule="C06.R4"),
    # ---- twins
    V("c06_t_doc_reworded", "T", MK, "MHProposal",
      lambda nd: isinstance(nd, ast.Expr) and isinstance(nd.value, ast.Constant)
      and "q(" in str(nd.value.value),
      lambda nd: ast.Expr(ast.Constant("With the proposal density q(x' | x): the correction is "
                                       "log q(x | x') - log q(x' | x).")),
      note="same convention stated as a difference of logs"),
    V("c06_t_helper", "T", I, S,
      *replace_stmt("correction = bwd_log_prob - fwd_log_prob",
                    "log_ratio = bwd_log_prob - fwd_log_prob\ncorrection = log_ratio"),
      note="temporary"),
    V("c06_t_kw", "T", I, S,
      *replace_expr("mh_step(subkey, self.model, proposal, model_state, correction)",
                    "mh_step(subkey, self.model, proposal, model_state, log_correction=correction)"),
      note="keyword argument"),
    V("c06_t_half", "T", I, S,
      *replace_expr("flat_pos + step_size ** 2 / 2 * solve(chol_info_pos, score_pos)",
                    "flat_pos + 0.5 * step_size ** 2 * solve(chol_info_pos, score_pos)"),
      note="0.5 * s**2 spelling (forward only; backward unchanged -> duality must fail?)"),
]
# the last variant changes only the forward spelling: syntactic duality fails although the
# behaviour is unchanged, so it is dropped from the corpus (documented limitation)
VARIANTS = [v for v in VARIANTS if v.vid != "c06_t_half"]
