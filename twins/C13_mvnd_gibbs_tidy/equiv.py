"""
Equivalence probe for liesel/distributions/mvn_degen.py (log-density that defines the
tau2 full conditional) and liesel/goose/gibbs.py (GibbsKernel plumbing).

Run with the worktree on PYTHONPATH, on HEAD and with the patch applied; the output
must be byte-identical.
"""

import hashlib
import logging

import jax
import jax.numpy as jnp
import numpy as np
import tensorflow_probability.substrates.jax.bijectors as tfb
import tensorflow_probability.substrates.jax.distributions as tfd

import liesel.goose as gs
import liesel.model as lsl
from liesel.distributions import MultivariateNormalDegenerate as MVND
from liesel.distributions import mvn_degen
from liesel.model import distreg as dr

logging.disable(logging.CRITICAL)


def digest(x) -> str:
    a = np.asarray(x)
    h = hashlib.sha256()
    h.update(str(a.dtype).encode())
    h.update(str(a.shape).encode())
    h.update(np.ascontiguousarray(a).tobytes())
    return h.hexdigest()[:16]


def tree_digest(tree) -> str:
    leaves, treedef = jax.tree_util.tree_flatten(tree)
    h = hashlib.sha256(str(treedef).encode())
    for leaf in leaves:
        h.update(digest(leaf).encode())
    return h.hexdigest()[:16] + " " + str(treedef)[:120]


def attempt(tag, thunk):
    try:
        r = thunk()
        print(tag, "-> ok", digest(r) if not isinstance(r, str) else r)
    except BaseException as e:  # noqa
        print(tag, "->", type(e).__name__, e.args)


def diff_penalty(p: int, order: int) -> np.ndarray:
    D = np.diff(np.eye(p), n=order, axis=0)
    return (D.T @ D).astype(np.float32)


rng = np.random.default_rng(31)
p = 6
penalties = {
    "full_rank": np.eye(p, dtype=np.float32),
    "rw1": diff_penalty(p, 1),
    "rw2": diff_penalty(p, 2),
    "zero": np.zeros((p, p), dtype=np.float32),
    "dense": (lambda A: (A @ A.T + np.eye(p)).astype(np.float32))(
        rng.normal(size=(p, p))
    ),
}
xs = jnp.asarray(rng.normal(size=(5, p)).astype(np.float32))
tau2s = [1e-3, 0.5, 1.0, 7.0, 1e4]

# --- private helpers ----------------------------------------------------------------
for kname, K in penalties.items():
    ev = jnp.linalg.eigvalsh(K)
    print("helpers", kname,
          digest(mvn_degen._rank(ev)), int(mvn_degen._rank(ev)),
          digest(mvn_degen._rank(ev, tol=0.5)),
          digest(mvn_degen._log_pdet(ev)),
          digest(mvn_degen._log_pdet(ev, tol=0.5)),
          [digest(mvn_degen._log_pdet(ev, rank=r)) for r in range(p + 1)],
          digest(jax.jit(mvn_degen._log_pdet)(ev, 3)))
batch_ev = jnp.stack([jnp.linalg.eigvalsh(K) for K in penalties.values()])
print("helpers batch", digest(mvn_degen._rank(batch_ev)),
      digest(mvn_degen._log_pdet(batch_ev)),
      digest(mvn_degen._log_pdet(batch_ev, rank=4)))

# --- constructors and log_prob ----------------------------------------------------
for kname, K in penalties.items():
    K = jnp.asarray(K)
    true_rank = int(np.linalg.matrix_rank(np.asarray(K)))
    for t in tau2s:
        variants = {
            "pen": lambda: MVND.from_penalty(0.0, t, K),
            "pen_rank": lambda: MVND.from_penalty(0.0, t, K, rank=true_rank),
            "pen_logpdet": lambda: MVND.from_penalty(0.0, t, K, log_pdet=0.25),
            "pen_both": lambda: MVND.from_penalty(
                jnp.ones(p), t, K, rank=true_rank, log_pdet=0.25
            ),
            "smooth": lambda: MVND.from_penalty_smooth(0.0, 1.0 / t, K),
            "smooth_rank": lambda: MVND.from_penalty_smooth(
                0.0, 1.0 / t, K, rank=true_rank
            ),
            "smooth_logpdet": lambda: MVND.from_penalty_smooth(
                0.0, 1.0 / t, K, log_pdet=-1.0
            ),
            "smooth_both": lambda: MVND.from_penalty_smooth(
                0.5, 1.0 / t, K, rank=true_rank, log_pdet=-1.0
            ),
            "direct": lambda: MVND(jnp.zeros(p), K / t),
            "direct_rank": lambda: MVND(jnp.zeros(p), K / t, rank=true_rank),
            "direct_tol": lambda: MVND(jnp.zeros(p), K / t, tol=0.3),
        }
        out = []
        for vname, make in variants.items():
            d = make()
            out.append(
                vname + ":" + digest(d.log_prob(xs)) + ":" + digest(d.log_prob(xs[0]))
                + ":" + digest(d.rank) + ":" + digest(d.log_pdet)
            )
        print("logprob", kname, t, " ".join(out))

    # jit / grad with respect to the variance parameter (rank static, as in distreg)
    f = lambda t, x: MVND.from_penalty(0.0, t, K, rank=true_rank).log_prob(x)
    g = lambda t, x: MVND.from_penalty(0.0, t, K).log_prob(x)
    tt = jnp.asarray(tau2s, dtype=jnp.float32)
    print("jit", kname,
          digest(jax.jit(jax.vmap(f, (0, None)))(tt, xs)),
          digest(jax.vmap(jax.grad(f), (0, None))(tt, xs[1])),
          digest(jax.jit(jax.vmap(g, (0, None)))(tt, xs)),
          digest(jax.vmap(jax.grad(g), (0, None))(tt, xs[1])))

# batches of precision matrices and locations
Kb = jnp.stack([jnp.asarray(penalties[k]) for k in ("full_rank", "rw1", "dense")])
d = MVND.from_penalty(jnp.zeros((3, p)), jnp.asarray([0.5, 1.0, 2.0]), Kb)
print("batched", d.batch_shape, d.event_shape, digest(d.log_prob(xs[:3])),
      digest(d.log_prob(xs[0])), digest(d.rank), digest(d.log_pdet),
      digest(d.sample(4, seed=jax.random.PRNGKey(0))))
d = MVND(jnp.zeros((2, 1, p)), Kb)
print("batched2", d.batch_shape, digest(d.log_prob(xs[0])), digest(d.rank),
      digest(d.sample(2, seed=jax.random.PRNGKey(1))))

attempt("non-square prec", lambda: MVND(jnp.zeros(3), jnp.ones((3, 4))).log_prob(0.0))
attempt("loc/prec mismatch", lambda: MVND(jnp.zeros(4), jnp.eye(3)).log_prob(0.0))
attempt("from_penalty non-square",
        lambda: MVND.from_penalty(0.0, 1.0, jnp.ones((3, 4))).log_prob(0.0))
attempt("from_penalty_smooth non-square, rank+log_pdet",
        lambda: MVND.from_penalty_smooth(
            0.0, 1.0, jnp.ones((3, 4)), rank=2, log_pdet=0.0
        ).log_prob(0.0))

# --- model log_prob as a function of tau2, and GibbsKernel plumbing -----------------
n = 30
X = rng.uniform(-1.0, 1.0, size=(n, p)).astype(np.float32)
y = rng.normal(size=n).astype(np.float32)
epoch = gs.EpochConfig(
    gs.EpochType.POSTERIOR, duration=1, thinning=1, optional=None
).to_state(nth_epoch=0, time_before_epoch=0)
keys = jax.random.split(jax.random.PRNGKey(77), 32)

for kname in ("full_rank", "rw2", "zero"):
    model = (
        dr.DistRegBuilder()
        .add_response(y, tfd.Normal)
        .add_predictor("loc", tfb.Identity)
        .add_predictor("scale", tfb.Exp)
        .add_np_smooth(X, K=penalties[kname], a=1.5, b=0.3, predictor="loc", name="f")
        .build_model()
    )
    model.vars["f_beta"].value = rng.normal(size=p).astype(np.float32)
    interface = gs.LieselInterface(model)
    state = model.state

    def lp(t):
        return interface.log_prob(interface.update_state({"f_tau2": t}, state))

    grid = jnp.asarray([1e-3, 0.1, 0.5, 1.0, 3.0, 50.0, 1e4], dtype=jnp.float32)
    print("model lp", kname, digest(jnp.stack([lp(t) for t in grid])),
          digest(jax.jit(jax.vmap(lp))(grid)))

    kernel = dr.tau2_gibbs_kernel(model.groups()["f"])
    kernel.set_model(interface)
    print("  init_state", repr(kernel.init_state(keys[0], state)))
    ks = {"dummy": jnp.arange(3)}
    out = kernel.transition(keys[1], ks, state, epoch)
    print("  transition", type(out).__name__, tree_digest(out))
    print("  transition fields", list(vars(out)), list(vars(out.info)),
          out.kernel_state is ks, out.info)
    jout = jax.jit(kernel.transition)(keys[1], ks, state, epoch)
    print("  transition jit", tree_digest(jout))
    vout = jax.vmap(lambda k: kernel.transition(k, ks, state, epoch))(keys)
    print("  transition vmap", tree_digest(vout))
    tout = kernel.tune(keys[2], ks, state, epoch)
    print("  tune", type(tout).__name__, list(vars(tout)), tree_digest(tout),
          tout.kernel_state is ks, tout.info)
    tout = kernel.tune(keys[2], ks, state, epoch, history={"f_tau2": jnp.ones(3)})
    print("  tune hist", tree_digest(tout))
    print("  start/end", kernel.start_epoch(keys[3], ks, state, epoch) is ks,
          kernel.end_epoch(keys[3], ks, state, epoch) is ks)
    wout = kernel.end_warmup(keys[4], ks, state, None)
    print("  end_warmup", type(wout).__name__, tree_digest(wout))
    print("  class attrs", kernel.error_book, kernel.needs_history,
          repr(kernel.identifier), kernel.position_keys)

# user-defined Gibbs kernel with a dict model
def user_transition(prng_key, model_state):
    return {"x": model_state["x"] + jax.random.normal(prng_key)}


uk = gs.GibbsKernel(["x"], user_transition)
attempt("transition without model",
        lambda: uk.transition(keys[0], {}, {"x": 0.0, "y": 1.0}, epoch).model_state["x"])
uk.set_model(gs.DictInterface(lambda s: -0.5 * s["x"] ** 2))
st = {"x": jnp.asarray(0.25), "y": jnp.asarray(1.0)}
out = uk.transition(keys[5], {}, st, epoch)
print("user kernel", tree_digest(out), sorted(st), float(st["x"]))
attempt("user kernel raising",
        lambda: gs.GibbsKernel(["x"], lambda k, s: {"x": s["missing"]}).transition(
            keys[0], {}, st, epoch).model_state["x"])

# --- engine --------------------------------------------------------------------------
model = (
    dr.DistRegBuilder()
    .add_response(y, tfd.Normal)
    .add_predictor("loc", tfb.Identity)
    .add_predictor("scale", tfb.Exp)
    .add_np_smooth(X, K=penalties["rw2"], a=1.0, b=0.005, predictor="loc")
    .add_np_smooth(X, K=penalties["full_rank"], a=0.5, b=0.001, predictor="scale")
    .build_model()
)
builder = dr.dist_reg_mcmc(model, seed=11, num_chains=2)
builder.set_duration(warmup_duration=300, posterior_duration=60)
engine = builder.build()
engine.sample_all_epochs()
results = engine.get_results()
samples = results.get_posterior_samples()
for name in sorted(samples):
    print("mcmc", name, samples[name].shape, digest(samples[name]))
print("mcmc infos", tree_digest(results.get_posterior_transition_infos()))
