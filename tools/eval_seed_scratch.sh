#!/bin/sh
# usage: tools/eval_seed_scratch.sh <patch.diff> [props...]  -- like eval_seed.sh, but on a
# scratch copy of /repo/liesel (under /dev/shm), leaving /repo untouched.
patch="$(realpath "$1")"; shift
cd /verif || exit 2
s=$(mktemp -d /dev/shm/lsa_eval_XXXXXX)
cp -r /repo/liesel "$s/liesel"
( cd "$s" && git apply -p1 "$patch" ) || { echo "patch does not apply"; rm -rf "$s"; exit 2; }
props="$*"; [ -z "$props" ] && props="$(cat tools/built.txt)"
for p in $props; do
  out=$(LSA_EVIDENCE_DIR="$s" python3-vt -m lsa check "$p" --no-selftest --repo "$s" 2>&1); rc=$?
  if [ $rc -ne 0 ]; then echo "== $p rc=$rc"; echo "$out" | grep -v "^\[" | cut -c1-400 | head -8; fi
done
rm -rf "$s"
echo "-- done $(basename $(dirname $patch))"
