#!/usr/bin/env python3
"""
Copies the behaviour-preserving changes written by independent sub-agents (tools/
make_twin_round.py) into /verif/twins/<PROP>_<name>/ and records which checks stay silent
on them.  The thorough tier of every check replays the twins it is on record as silent for:
a rule that starts to alarm on one of them has become brittle.
usage: tools/import_twins.py [/tmp/tw1 ...]
"""
import json
import os
import shutil
import subprocess
import sys
import tempfile
from concurrent.futures import ThreadPoolExecutor

HERE = os.path.dirname(os.path.dirname(os.path.abspath(__file__)))
ROOTS = sys.argv[1:]
BUILT = [l.strip() for l in open(os.path.join(HERE, "tools", "built.txt")) if l.strip()]


def run_checks(patch):
    base = "/dev/shm" if os.path.isdir("/dev/shm") else tempfile.gettempdir()
    s = tempfile.mkdtemp(prefix="lsa_twin_", dir=base)
    out = {}
    try:
        shutil.copytree("/repo/liesel", os.path.join(s, "liesel"),
                        ignore=shutil.ignore_patterns("__pycache__"))
        r = subprocess.run(["git", "apply", "-p1", os.path.abspath(patch)], cwd=s,
                           capture_output=True, text=True)
        if r.returncode != 0:
            return None

        def one(p):
            r = subprocess.run(["python3-vt", "-m", "lsa", "check", p, "--no-selftest",
                                "--repo", s], cwd=HERE, capture_output=True, text=True,
                               env={**os.environ, "LSA_EVIDENCE_DIR": s})
            return p, r
        with ThreadPoolExecutor(8) as ex:
            for p, r in ex.map(one, BUILT):
                if r.returncode != 0:
                    out[p] = [l.replace(s + "/", "")[:300] for l in r.stdout.splitlines()
                              if " -- " in l and "[" in l][:4]
    finally:
        shutil.rmtree(s, ignore_errors=True)
    return out


def main():
    out_root = os.path.join(HERE, "twins")
    os.makedirs(out_root, exist_ok=True)
    for SRC in ROOTS:
        for prop in sorted(os.listdir(SRC)):
            td = os.path.join(SRC, prop, "_twin")
            if not os.path.isdir(td):
                continue
            for name in sorted(os.listdir(td)):
                d = os.path.join(td, name)
                if not os.path.isfile(os.path.join(d, "patch.diff")):
                    continue
                dst = os.path.join(out_root, f"{prop}_{name}")
                os.makedirs(dst, exist_ok=True)
                for f in ("patch.diff", "notes.md", "equiv.py"):
                    if os.path.isfile(os.path.join(d, f)):
                        shutil.copy(os.path.join(d, f), os.path.join(dst, f))
    rows = []
    for d in sorted(os.listdir(out_root)):
        pp = os.path.join(out_root, d, "patch.diff")
        if not os.path.isfile(pp):
            continue
        alarms = run_checks(pp)
        mp = os.path.join(out_root, d, "meta.json")
        meta = json.load(open(mp)) if os.path.isfile(mp) else {}
        prop, _, name = d.partition("_")
        meta.update({
            "property": prop, "name": name,
            "origin": "written by an independent sub-agent as a behaviour-preserving maintainer "
                      "commit (saw only the property text and a scratch worktree); its own "
                      "equiv.py printed byte-identical digests on HEAD and with the patch",
            "applies": alarms is not None,
            "silent_for": sorted(p for p in BUILT if alarms is not None and p not in alarms),
            "alarms": alarms or {},
        })
        json.dump(meta, open(mp, "w"), indent=1)
        rows.append((d, sorted(alarms or {})))
        print(d, "->", "silent" if not alarms else sorted(alarms))
    json.dump([{"twin": d, "alarms": a} for d, a in rows],
              open(os.path.join(out_root, "INDEX.json"), "w"), indent=1)
    print(len(rows), "twins;", sum(1 for _, a in rows if not a), "silent for every check")


if __name__ == "__main__":
    main()
