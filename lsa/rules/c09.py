"""
C09 -- kernels compose blockwise and keep the model state coherent.

Provenance typestate on terms.  A model state is COHERENT if it is the transition's
input state, the result of ``<model interface>.update_state(_, COHERENT)``, the state
component of ``mh_step(..., COHERENT, ...)``, a ``lax.cond`` of COHERENT states, or the
``model_state`` of the outcome of the kernel's own standard transition.  A position has
key set OWN if it derives from ``self.position(model_state)`` through
ravel_pytree/unravel, arithmetic or blackjax init/step.
"""

from __future__ import annotations

from ..core.terms import (cmp_, not_, pc, phi_, c, evaluate, fn_name, kw, make_inliner, n, pretty, subterms)
from .common import (LIB_FACTS, cond_parts, is_call, kernel_classes, method, short,
                     thunk_value)

SELF = n("self")
MS = n("model_state")
MODEL_T = ("a", SELF, "model")
MH = "liesel.goose.mh.mh_step"
OUTCOME = "liesel.goose.kernel.TransitionOutcome"

# kernels whose new position comes from a user-supplied function (not decidable here)
USER_POSITION = {
    "MHKernel": "position returned by the user's proposal_fn",
    "GibbsKernel": "position returned by the user's transition_fn (built-in factories are "
                   "checked separately)",
}


def coherent(repo, t, depth=0) -> bool:
    if depth > 30 or not isinstance(t, tuple) or not t:
        return False
    if t == MS:
        return True
    if t[0] == "call":
        f = t[1]
        if f[0] == "a" and f[2] == "update_state" and f[1] in (MODEL_T, n("model")):
            st = kw(t, "model_state", 1)
            return st is not None and coherent(repo, st, depth + 1)
        p = cond_parts(t)
        if p is not None:
            a = thunk_value(repo, p[1], p[3])
            b = thunk_value(repo, p[2], p[3])
            return (a is not None and b is not None and coherent(repo, a, depth + 1)
                    and coherent(repo, b, depth + 1))
        return False
    if t[0] == "proj" and t[2] == 1 and is_call(t[1], MH):
        st = kw(t[1], "model_state", 3)
        return st is not None and coherent(repo, st, depth + 1)
    if t[0] == "a" and t[2] == "model_state" and t[1][0] == "call" \
            and t[1][1] == ("a", SELF, "_standard_transition"):
        st = kw(t[1], "model_state", 2)
        return st is not None and coherent(repo, st, depth + 1)
    if t[0] in ("phi", "ifexp"):
        return coherent(repo, t[2], depth + 1) and coherent(repo, t[3], depth + 1)
    return False


def own_position(t, depth=0) -> bool:
    """Key set of a position term is the kernel's own position keys."""
    if depth > 40 or not isinstance(t, tuple) or not t:
        return False
    if t[0] == "call":
        f = t[1]
        if f == ("a", SELF, "position") and len(t[2]) == 1:
            return True
        if f[0] == "a" and f[2] == "extract_position" and t[2] and t[2][0] == (
                "a", SELF, "position_keys"):
            return True
        # unravel_fn(x) with unravel_fn from ravel_pytree(OWN)
        if f[0] == "proj" and f[2] == 1 and is_call(f[1], "jax.flatten_util.ravel_pytree"):
            return own_position(f[1][2][0], depth + 1)
        return False
    if t[0] == "a" and t[2] == "position":
        # blackjax state: init(position, ...) or step(key, state)[0]
        b = t[1]
        if b[0] == "proj" and b[2] == 0 and b[1][0] == "call" and b[1][1][0] == "a" \
                and b[1][1][2] == "step":
            st = b[1][2][1] if len(b[1][2]) > 1 else kw(b[1], "state")
            return st is not None and own_position(("a", st, "position"), depth + 1)
        if b[0] == "call" and (fn_name(b[1]) or "").endswith(".init"):
            pos = kw(b, "position", 0)
            return pos is not None and own_position(pos, depth + 1)
        return False
    return False


def check(ctx):
    repo = ctx.repo
    ctx.rule("R1", "the model state of every transition outcome is COHERENT: built only by "
                   "the model interface's update_state / mh_step from the input state.")
    ctx.rule("R2", "built-in kernels write back positions with exactly their own position "
                   "keys (derived from self.position(model_state)); Gibbs factories return "
                   "the key they registered.")
    ctx.rule("R4", "the Liesel model interface's update_state (the only way kernels write "
                   "back) overwrites the private state, assigns the position and runs a "
                   "FULL update, so every derived quantity in the state is recomputed.")
    ctx.rule("R3", "KernelSequence.transition runs the kernels in list order, each starting "
                   "from the state left by its predecessor, with matching key/state indices.")
    ctx.trust(LIB_FACTS["blackjax"], LIB_FACTS["cond"])
    ctx.undecided("numeric equality of the stored log-probability with a recomputation")

    kernels = kernel_classes(repo)
    ctx.require_min("kernel classes", len(kernels), 6)
    n_out = 0
    for name, ci in sorted(kernels.items()):
        allow = lambda f: f.name in ("_blackjax_state", "position")  # noqa: E731
        inl = make_inliner(repo, self_class=ci, allow=allow)
        for mname in ("_standard_transition", "_adaptive_transition", "transition"):
            fi = ci.own_method(mname)
            if fi is None:
                continue
            res = evaluate(repo, fi, inline=inl, inline_depth=2)
            for rc, rt, rnode in res.returns:
                outs = [rt] if is_call(rt, OUTCOME) else []
                if not outs:
                    # adaptive transitions return the outcome of the standard transition
                    ok = (rt[0] == "call" and rt[1] == ("a", SELF, "_standard_transition")
                          and kw(rt, "model_state", 2) == MS) or is_call(rt, "jax.lax.cond")
                    if mname == "transition" and is_call(rt, "jax.lax.cond"):
                        continue  # the dispatcher of TransitionMixin (C07.R6)
                    ctx.ob("C09.R1", fi, "the transition returns a TransitionOutcome, or the "
                                         "unchanged outcome of the standard transition on "
                                         "the input state", ok,
                           detail=short(rt), node=rnode, stmt="returned " + pretty(rt)[:120])
                    n_out += 1
                    continue
                out = outs[0]
                n_out += 1
                ms = kw(out, "model_state", 2)
                ok = ms is not None and coherent(repo, ms)
                ctx.ob("C09.R1", fi, "outcome.model_state is COHERENT (input state, "
                                     "update_state(...) of a coherent state, or mh_step's "
                                     "state) -- never a hand-built or partially updated "
                                     "state", ok, detail=f"model_state = {short(ms or (), 200)}",
                       node=rnode, stmt="outcome state " + pretty(ms or ())[:200])
                # R2: positions written back
                if ms is None:
                    continue
                writes = []
                for x in subterms(ms):
                    if x[0] == "call" and x[1][0] == "a" and x[1][2] == "update_state":
                        writes.append(kw(x, "position", 0))
                    if is_call(x, MH):
                        writes.append(kw(x, "proposal", 2))
                for pos in writes:
                    if name in USER_POSITION:
                        ctx.ob("C09.R2", fi, f"position comes from a user function "
                                             f"({USER_POSITION[name]})", True, nontrivial=False)
                        continue
                    ok = pos is not None and own_position(pos)
                    ctx.ob("C09.R2", fi, "the position written back has exactly the kernel's "
                                         "own position keys (derived from self.position("
                                         "model_state))", ok, unproven=True,
                           detail=f"position = {short(pos or (), 200)}", node=rnode,
                           stmt="written position " + pretty(pos or ())[:200])
    ctx.require_min("transition return sites", n_out, 10)

    # built-in Gibbs factories
    for q, keyname in (("liesel.model.distreg.tau2_gibbs_kernel", None),
                       ("liesel.model.goose.finite_discrete_gibbs_kernel", None)):
        fi = repo.func(q)
        res = evaluate(repo, fi)
        rt = res.ret()
        ok = False
        detail = short(rt or ())
        if rt is not None and is_call(rt, "liesel.goose.gibbs.GibbsKernel"):
            keys = kw(rt, "position_keys", 0)
            fn = kw(rt, "transition_fn", 1)
            if keys is not None and keys[0] == "list" and len(keys[1]) == 1 and fn and fn[0] == "fn":
                inner = repo.functions.get(fn[1])
                ri = evaluate(repo, inner, closure=res.closure()).ret() if inner else None
                ok = (ri is not None and ri[0] == "dict" and len(ri[1]) == 1
                      and ri[1][0][0] == keys[1][0])
                detail = f"registered {short(keys)}; returns {short(ri or ())}"
        ctx.ob("C09.R2", fi, "the Gibbs factory's transition returns exactly the position "
                             "key it registers with GibbsKernel", ok, detail=detail,
               stmt="gibbs factory keys")
    gk = kernels.get("GibbsKernel")
    if gk is not None:
        tr = method(repo, gk, "transition", own=True)
        rt = evaluate(repo, tr).ret()
        ms = kw(rt, "model_state", 2) if rt is not None and rt[0] == "call" else None
        ok = (ms is not None and ms[0] == "call" and ms[1] == ("a", MODEL_T, "update_state")
              and kw(ms, "position", 0) == ("call", ("a", SELF, "_transition_fn"),
                                            (n("prng_key"), MS), ())
              and kw(ms, "model_state", 1) == MS)
        ctx.ob("C09.R2", tr, "GibbsKernel writes the transition function's draw back with "
                             "update_state on the input state", ok, detail=short(ms or ()))

    # ------------------------------------------------------------------ R4
    from .c03 import liesel_update_state_obligations
    liesel_update_state_obligations(
        ctx, repo.cls("liesel.goose.interface.LieselInterface"), rule="C09.R4")

    # ------------------------------------------------------------------ R3
    ks = repo.cls("liesel.goose.kernel_sequence.KernelSequence")
    kinit = method(repo, ks, "__init__", own=True)
    rki = evaluate(repo, kinit)
    stored = [val for loc, val, _, _ in rki.stores if loc == ("a", SELF, "_kernels")]
    kp = n("kernels")
    ok_order = len(stored) == 1 and stored[0] in (
        kp, ("call", ("n", "list"), (kp,), ()), ("call", ("n", "tuple"), (kp,), ()))
    if len(stored) == 1 and stored[0][0] == "comp" and stored[0][1] == "list":
        g_ = stored[0][3]
        ok_order = len(g_) == 1 and g_[0][1] == kp and not g_[0][2] and stored[0][2] == (
            "iter", kp)
    ctx.ob("C09.R3", kinit, "the kernel sequence keeps the kernels in the order given "
                            "(list(kernels)); no sorting or re-grouping", ok_order,
           detail=str([short(v) for v in stored]),
           stmt="kernel list " + str([pretty(v)[:100] for v in stored]))
    eb = repo.cls("liesel.goose.builder.EngineBuilder")
    rbuild = evaluate(repo, method(repo, eb, "build")).ret()
    ksa = kw(rbuild, "kernel_sequence") if rbuild is not None and rbuild[0] == "call" else None
    ok_b = (ksa is not None and is_call(ksa, "liesel.goose.kernel_sequence.KernelSequence")
            and ksa[2] == (("a", SELF, "kernels"),))
    kprop = evaluate(repo, method(repo, eb, "kernels", "getter")).ret()
    ok_p = kprop == ("call", ("n", "tuple"), (("a", SELF, "_kernels"),), ())
    radd = evaluate(repo, method(repo, eb, "add_kernel"))
    ok_a = any(t == ("call", ("a", ("a", SELF, "_kernels"), "append"), (n("kernel"),), ())
               for t, _, _ in radd.calls)
    ctx.ob("C09.R3", method(repo, eb, "build"), "the builder hands the kernels to the "
                                                "sequence in add_kernel order", ok_b and ok_p
           and ok_a, detail=f"build={ok_b} property={ok_p} add_kernel={ok_a}",
           stmt="builder kernel order")
    tr = method(repo, ks, "transition", own=True)
    res = evaluate(repo, tr)
    lp = res.loops[0] if len(res.loops) == 1 else None
    ctx.ob("C09.R3", tr, "one loop over the kernels", lp is not None)
    if lp is not None:
        it = lp["iter"]
        ok_it = it == ("call", ("n", "enumerate"), (("a", SELF, "_kernels"),), ())
        ctx.ob("C09.R3", tr, "kernels are visited in list order (enumerate(self._kernels))",
               ok_it, detail=short(it), stmt="kernel order " + pretty(it))
        i_t = ("proj", ("iter", it), 0)
        k_t = ("proj", ("iter", it), 1)
        calls = [t for t, _, _ in lp["calls"] if t[1] == ("a", k_t, "transition")]
        ok_call = False
        if len(calls) == 1:
            cl = calls[0]
            keys = ("call", ("g", "jax.random.split"),
                    (n("prng_key"), ("call", ("n", "len"), (("a", SELF, "_kernels"),), ())), ())
            a = cl[2]
            ok_idx = (len(a) == 4 and a[0] == ("s", keys, i_t)
                      and a[1] == ("s", n("kernel_states"), i_t) and a[3] == n("epoch"))
            ctx.ob("C09.R3", tr, "kernel i receives keys[i] and kernel_states[i] (same index "
                                 "as the kernel) and the epoch", ok_idx,
                   detail=short(cl, 200), stmt="indices " + pretty(cl)[:200])
            st_arg = a[2] if len(a) > 2 else None
            ok_thread = (st_arg is not None and st_arg[0] == "carried"
                         and st_arg[1] == "model_state")
            ctx.ob("C09.R3", tr, "each kernel starts from the model state left by its "
                                 "predecessor (the loop re-binds model_state from the "
                                 "kernel's result)", ok_thread,
                   detail=f"state argument {short(st_arg or ())}",
                   stmt="state threading " + pretty(st_arg or ())[:80])
            after = lp["carried"].get("model_state")
            ok_rebind = after == ("a", cl, "model_state")
            ctx.ob("C09.R3", tr, "model_state is re-bound to result.model_state after every "
                                 "kernel", ok_rebind, detail=short(after or ()),
                   stmt="rebinding")
            app = [t for t, _, _ in lp["calls"] if t[1][0] == "a" and t[1][2] == "append"]
            ok_app = len(app) == 1 and app[0][2] == (("a", cl, "kernel_state"),)
            sts = [(loc, val) for loc, val, _, _ in lp["stores"]]
            ok_info = any(loc[0] == "s" and loc[2] == ("a", k_t, "identifier")
                          and val == ("a", cl, "info") for loc, val in sts)
            ctx.ob("C09.R3", tr, "kernel states are collected in kernel order and infos "
                                 "under the kernel's identifier", ok_app and ok_info)
            ok_call = True
        ctx.ob("C09.R3", tr, "each kernel's transition is called exactly once per iteration",
               ok_call, detail=f"{len(calls)} call(s)")
        rt = res.ret()
        ok_ret = (rt is not None and rt[0] == "call"
                  and kw(rt, "model_state", 0) is not None
                  and kw(rt, "model_state", 0)[0] == "loop"
                  and kw(rt, "model_state", 0)[1] == "model_state")
        ctx.ob("C09.R3", tr, "the sequence returns the state left by the last kernel",
               ok_ret, detail=short(kw(rt, "model_state", 0) or ()) if rt else "")

    # ---- shared mechanisms: the neighbour's rules run as obligations of this property
    ctx.include("C08", "C09.R5", only=['C08.R1'])
    ctx.include("C07", "C09.R5", only=['C07.R3'])
    ctx.include("C03", "C09.R5", only=None)
    ctx.include("C01", "C09.R5", only=None)
    ctx.include("C05", "C09.R5", only=['C05.R4'])
    from .common import late_binding_obligations
    late_binding_obligations(
        ctx, "C09.R2", sorted(m for m in repo.modules if m.startswith("liesel.goose.")
                              or m in ("liesel.model.distreg", "liesel.model.goose")),
        "kernels and their factories")
    ctx.rule("R5", "shared mechanisms, run as obligations of this property: a rejected Metropolis-Hastings proposal returns the WHOLE input state, an accepted one the state updated with the proposal (C05.R4); what is recorded is the state after all kernels ran (C08.R1); the state carried from one iteration (and chunk) to the next is the one the kernels left (C07.R3); both state-passing interfaces write back through a full update (C03); derived quantities in the state are the model's cached nodes (C01).")
