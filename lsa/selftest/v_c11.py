import ast

from .runner import (V, expr, expr_is, is_assign_to, is_expr_call, replace_expr,
                     replace_stmt, stmt)

D = "liesel/goose/da.py"
N = "liesel/goose/nuts.py"
H = "liesel/goose/hmc.py"
RW = "liesel/goose/rw.py"
I = "liesel/goose/iwls.py"
MHK = "liesel/goose/mh_kernel.py"


def _swap_args(i, j):
    def repl(nd):
        a = list(nd.value.args)
        a[i], a[j] = a[j], a[i]
        nd.value.args = a
        return nd
    return repl


VARIANTS = [
    V("c11_swap_gamma_kappa", "M", N, "NUTSKernel._adaptive_transition",
      lambda nd: is_expr_call(nd, "da_step"), _swap_args(4, 5),
      note="gamma and kappa swapped at the call site", expect_rule="C11.R3"),
    V("c11_t_no_plus1", "M", D, "da_step", *replace_stmt("t = time_in_epoch + 1", "t = time_in_epoch"),
      note="time not shifted by one (division by zero weight at t=0)", expect_rule="C11.R1"),
    V("c11_error_sign", "M", D, "da_step",
      lambda nd: isinstance(nd, ast.AugAssign) and "error_sum" in ast.unparse(nd.target),
      lambda nd: stmt("ks.error_sum -= target_accept - acceptance_prob"),
      note="error accumulated with the wrong sign", expect_rule="C11.R1"),
    V("c11_da_in_standard", "M", RW, "RWKernel._standard_transition",
      lambda nd: isinstance(nd, ast.Return),
      lambda nd: stmt("da_step(kernel_state, info.acceptance_prob, epoch.time_in_epoch)") + [nd],
      note="dual averaging also outside adaptation", expect_rule="C11.R4"),
    V("c11_no_finalize", "M", I, "IWLSKernel.end_epoch",
      lambda nd: is_expr_call(nd, "da_finalize"), lambda nd: None,
      note="averaged step size never installed", expect_rule="C11.R3"),
    V("c11_mu", "M", D, "da_init",
      *replace_expr("jnp.log(10.0 * kernel_state.step_size)", "jnp.log(kernel_state.step_size)"),
      note="shrinkage point without the factor 10", expect_rule="C11.R1"),
    V("c11_eta", "M", D, "da_step", *replace_expr("t ** (-kappa)", "t ** kappa"),
      note="averaging weight grows", expect_rule="C11.R1"),
    V("c11_sqrt", "M", D, "da_step", *replace_expr("jnp.sqrt(t)", "t"),
      note="sqrt dropped", expect_rule="C11.R1"),
    V("c11_init_guarded", "M", H, "HMCKernel.start_epoch",
      lambda nd: is_expr_call(nd, "da_init"),
      lambda nd: stmt("if epoch.config.type < 3:\n    da_init(kernel_state)"),
      note="restart only in some epoch types", expect_rule="C11.R3"),
    V("c11_finalize_guarded", "M", D, "da_finalize",
      lambda nd: isinstance(nd, ast.Assign),
      lambda nd: stmt("if kernel_state.error_sum != 0.0:\n"
                      "    kernel_state.step_size = jnp.exp(kernel_state.log_avg_step_size)"),
      note="finalize skipped when the error sum is zero", expect_rule="C11.R1"),
    V("c11_acc_from_state", "M", MHK, "MHKernel._adaptive_transition",
      *replace_expr("outcome.info.acceptance_prob", "outcome.info.position_moved"),
      note="moved flag instead of acceptance probability", expect_rule="C11.R3"),
    V("c11_time_global", "M", I, "IWLSKernel._adaptive_transition",
      *replace_expr("epoch.time_in_epoch", "epoch.time"),
      note="global instead of within-epoch time", expect_rule="C11.R3"),
    V("c11_std_resets", "M", N, "NUTSKernel._standard_transition",
      lambda nd: isinstance(nd, ast.Return),
      lambda nd: stmt("kernel_state.error_sum = 0.0") + [nd],
      note="standard transition writes the tuning state", expect_rule="C11.R4"),
    V("c11_const_misnamed", "M", RW, "RWKernel.__init__",
      *replace_stmt("self.da_gamma = da_gamma", "self.da_gamma = da_kappa"),
      note="constructor stores kappa as gamma", expect_rule="C11.R3"),
    V("c11_adaptive_in_burnin", "M", "liesel/goose/kernel.py", "TransitionMixin.transition",
      *replace_expr("EpochType.is_adaptation(epoch.config.type)",
                    "EpochType.is_warmup(epoch.config.type)"),
      note="step size adapts during burn-in", expect_rule="C11.R4"),
    # ---- twins
    V("c11_t_other_post_init", "T", "liesel/goose/epoch.py", "EpochConfig",
      lambda nd: isinstance(nd, ast.FunctionDef) and nd.name == "to_state",
      lambda nd: stmt("def __post_init__(self):\n    pass") + [nd],
      note="a __post_init__ on a class that has nothing to do with dual averaging"),
    V("c11_t_dispatch_membership", "T", "liesel/goose/kernel.py", "TransitionMixin.transition",
      *replace_expr("EpochType.is_adaptation(epoch.config.type)",
                    "epoch.config.type in (EpochType.FAST_ADAPTATION, EpochType.SLOW_ADAPTATION)"),
      note="same predicate spelled as a membership test"),
    V("c11_t_eta_inline", "T", D, "da_step",
      *replace_stmt("ks.log_avg_step_size = (1 - eta) * ks.log_avg_step_size + eta * log_step_size",
                    "ks.log_avg_step_size = ks.log_avg_step_size + t ** (-kappa) * (log_step_size - ks.log_avg_step_size)"),
      note="algebraically equal averaging update"),
    V("c11_t_kwargs", "T", RW, "RWKernel._adaptive_transition",
      lambda nd: is_expr_call(nd, "da_step"),
      lambda nd: stmt("da_step(outcome.kernel_state, outcome.info.acceptance_prob, "
                      "epoch.time_in_epoch, gamma=self.da_gamma, kappa=self.da_kappa, "
                      "t0=self.da_t0, target_accept=self.da_target_accept)"),
      note="keyword arguments in another order"),
    V("c11_t_alias", "T", D, "da_step", *replace_stmt("ks = kernel_state", "ks = kernel_state\nstate = ks"),
      note="extra alias"),
]
