#!/usr/bin/env python3
"""Regenerates /verif/MANIFEST.json from the claim table below."""
import json
import os
import sys

HERE = os.path.dirname(os.path.dirname(os.path.abspath(__file__)))

# id: (technique, decided, not decided, design section)
CLAIMS = {
    "C01": ("effect + dominance rules on the dirty-flag cache protocol (AST/CFG/term analysis)",
            "update contract of every caching node class, declared inputs complete, transient nodes never cache, assignment dirties all outputs before sweeping, outputs = inverse of inputs, topological sweep over outdated nodes (full and targeted), state restore",
            "value equality with a from-scratch recomputation for arbitrary user functions"),
    "C02": ("selector extraction + set algebra on flag literals",
            "which distribution nodes enter log_prob / log_lik / log_prior, reduction to scalars before adding, forwarding of user-supplied nodes, reader/writer name agreement, build order",
            "numeric values of TFP densities; float addition order"),
    "C03": ("effect / alias analysis + dominance on the interface methods",
            "the interface works on a private copy of the model, arguments are never mutated, whole-state overwrite and flag clearing dominate the assignments, full update post-dominates, fresh state returned, sibling agreement of LieselInterface/GooseModel",
            "eager/JIT/vmap equality, numeric equality with direct assignment"),
    "C04": ("def-use binding rules on symbolic terms",
            "density closure evaluates the state updated with the closure's own argument, one model state per NUTS/HMC transition, write-back of the new blackjax position, kernel blocks disjoint",
            "distributional invariance itself (quantifies over distributions of runtime values)"),
    "C05": ("abstract interpretation of mh_step (interval x NaN domain, finite boundary orderings)",
            "NaN guard and documented code, probability range [0,1], decision on every boundary ordering incl. draw = 0, state selection, info binding, callers' key/state discipline",
            "float rounding of exp near the boundaries"),
    "C06": ("term duality under renaming + taint analysis",
            "RW proposal symmetric and uncorrected, IWLS forward/backward duality, correction sign and binding, Gaussian helper agreement, MH forwards the declared correction, Fisher information source",
            "numeric equality with the analytic ratio for a given model"),
    "C07": ("typestate over engine lifecycle events + finite-enum evaluation",
            "event order per epoch, transition count and time argument, tuning guard, once-only end_warmup latch, adaptive/standard dispatch, enum predicates",
            "trace equality across append patterns beyond event independence from the number of configured epochs"),
    "C08": ("def-use + affine index analysis of the recording path",
            "recorded state provenance, thinning index arithmetic and counter advance, who thins, initial sample, posterior selection, included/excluded keys",
            "chunk independence of stored values, shapes of stored leaves"),
    "C09": ("provenance typestate (coherent states, own-key positions)",
            "only update_state/mh_step construct model states, positions derive from the kernel's own keys, threading of the state through the kernel sequence",
            "numeric equality of the stored log-prob with a recomputation"),
    "C10": ("affine PRNG-key typing + definite assignment + vmap axis rules",
            "every key consumed at most once incl. loop carries and slices, no hidden randomness in the sampling path, seed equivalence, all names bound on every path, per-chain vmapping, jittered start",
            "bit-identical reruns (XLA determinism), independence as a value-level statement"),
    "C11": ("term equivalence (sympy normaliser) + argument binding + effect analysis",
            "dual-averaging recurrence, restart and finalisation terms, monotonicity sign, per-kernel binding of constants, da_step only in adaptive transitions, tuning state frozen in standard transitions",
            "float rounding of exp(log eps) at epoch ends"),
    "C12": ("leaf-order provenance analysis",
            "order of the tuned inverse mass matrix vs. the flat position, history restricted to own keys, trace rescaling of matching kind, history source",
            "numeric value of the regularised (co)variance"),
    "C13": ("reader/writer agreement against a frozen conjugacy table",
            "tau2 kernel parameters and draw idiom vs. the wiring of add_np_smooth, full-model logits and categorical draw of the finite discrete kernel",
            "distributional exactness, shape of user models"),
    "C14": ("direction-parity abstract interpretation + ordering rules",
            "parity triple (distribution, initial value, value node) in the three implementations, flag transfer order, removal of the original distribution, auto-transform entry point",
            "the Jacobian identity numerically (TFP's responsibility given the parity)"),
    "C15": ("decorator exhaustiveness + worklist / ordering rules",
            "freeze guards on every structural mutator, closure over inputs, name checks before wiring, wiring order, pop/copy siblings, pickle symmetry, single ownership",
            "behavioural equality after round trips"),
    "C16": ("guard-table evaluation over the atom grid + affine invariants",
            "accepted-iff-valid for all sign patterns of the guard atoms, consecutive indices/start times, warm-up sum and epoch pattern of stan_epochs, gcd chunk",
            "validity for argument tuples the generator does not reject"),
    "C17": ("dirty-read typestate on Model.simulate",
            "cached inputs refreshed before every distribution is initialised, simulation order, skip filter, one split seed per distribution, assignment target",
            "distribution of the draws"),
    "C18": ("operator duality + term equivalence (sympy) + bounds-vs-support",
            "log-pseudo-determinant adjustment signs in both constructors, log-prob form, bijector inverse/log-det identities, validation bounds contain the parameter's support, copula scale factor",
            "null-space invariance, sample covariance, density values"),
    "C19": ("finite set inclusion + sibling agreement",
            "emitted error codes are documented in each kernel's error book, counting axes and masks, warm-up = total - posterior, persistence symmetry",
            "count conservation on arbitrary arrays, ArviZ/pickle value equality"),
    "C20": ("affine key typing on the while-loop carry + def-use + doc/implementation atom comparison",
            "fresh batch key per iteration, result consistency (state from returned position, best index), pad/prune bound, stopper atoms vs. documented pseudo-code",
            "stopping rule over all loss histories (value-level)"),
}

BUILT = [l.strip() for l in open(os.path.join(HERE, "tools", "built.txt")) if l.strip()]


def main():
    checks, na = [], []
    for pid, (tech, decided, undecided) in CLAIMS.items():
        if pid not in BUILT:
            na.append({"property_id": pid,
                       "reason": "no check registered in this revision (rules under "
                                 "construction); see DESIGN.md section 4 for the plan"})
            continue
        checks.append({
            "property_id": pid,
            "quick_cmd": f"./check {pid} --tier quick",
            "thorough_cmd": f"./check {pid} --tier thorough",
            "evidence_file": f"/verif/evidence/{pid}.json",
            "replay_cmd_template": f"./check {pid} --tier quick --replay {{path}}",
            "engine": "lsa",
            "technique": "static analysis: " + tech,
            "level_claimed": {
                "category": "other",
                "text": (f"Static analysis of /repo's current source (never executed). Decides the "
                         f"mechanism clauses: {decided}. Each clause is a necessary condition of the "
                         f"property that holds on every path / for every input by construction of the "
                         f"rule. Does NOT decide: {undecided}. The thorough tier additionally runs the "
                         f"checker's own self-test (AST-computed breaking variants must be reported, "
                         f"behaviour-preserving twins must stay silent)."),
                "design_ref": f"DESIGN.md section 4 ({pid})",
            },
            "level_note": ("Trusted base: Python's ast parser; the frozen library facts about "
                           "JAX/TFP/blackjax/networkx listed in DESIGN.md section 3 and echoed in the "
                           "evidence file; liesel's shipped classes only (no monkey-patching)."),
        })
    manifest = {
        "version": 1,
        "setup_cmd": "python3-vt -c \"import ast, networkx, sympy; import lsa\"",
        "hooks": {
            "guard": "LIESEL_VERIF",
            "enable": "no hooks: the analyser only parses /repo's sources; nothing in liesel is instrumented",
            "baseline_off_cmd": "cd /repo && /venv/bin/python -m pytest -ra -q -p no:cacheprovider --timeout=900 --continue-on-collection-errors",
            "source_commits": [],
            "add_only": True,
        },
        "engines": [{
            "name": "lsa",
            "path": "/verif/lsa",
            "serves_properties": BUILT,
            "kind_free_text": "repository-specific static analyser (ast + networkx CFG/dominators + symbolic term builder + small abstract domains; sympy as algebraic normaliser for three term-equivalence rules); never imports or runs liesel",
        }],
        "checks": checks,
        "not_applicable": na,
        "notes": ("All checks are static: they re-parse /repo/liesel on every run. Exit 0 pass, exit 1 "
                  "with a VIOLATION line, exit 2 ANALYSIS-ERROR (vanished anchor, instance count below "
                  "the confirmed minimum, internal error). Known findings: /verif/known_findings.json."),
    }
    with open(os.path.join(HERE, "MANIFEST.json"), "w") as fh:
        json.dump(manifest, fh, indent=1)
    print(f"MANIFEST.json: {len(checks)} checks, {len(na)} not_applicable")


if __name__ == "__main__":
    sys.exit(main())
