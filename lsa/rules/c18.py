"""
C18 -- custom distributions and bijectors are mathematically consistent.
"""

from __future__ import annotations

import ast

import sympy as sp

from ..algebra import Untranslatable, is_zero, to_sympy
from ..core.terms import cmp_, not_, pc, phi_  # noqa: F401
from ..core.terms import c, evaluate, fn_name, kw, n, pretty, subterms
from .common import fn_parts, is_call, method, short

MVND = "liesel.distributions.mvn_degen.MultivariateNormalDegenerate"
COP = "liesel.distributions.copulas.GaussianCopula"
SIG = "liesel.bijectors.algebraic_sigmoid.AlgebraicSigmoid"


def check(ctx):
    repo = ctx.repo
    ctx.rule("R1", "log-domain duality: scaling the penalty by s with * or / adjusts the "
                   "log-pseudo-determinant by +/- rank*log(s); both constructors pass rank and "
                   "the adjusted log-pdet on; _log_prob = 0.5*(-q - (rank*log(2 pi) - "
                   "log_pdet)).")
    ctx.rule("R5", "sampling: directions of the null space of the precision get scale 0, "
                   "range directions 1/sqrt(eigenvalue) (scale term evaluated at the two "
                   "sign patterns of eigenvalue vs. tolerance).")
    ctx.rule("R2", "AlgebraicSigmoid: inverse(forward(x)) = x, forward/inverse log-det-"
                   "Jacobians are the logs of the derivatives (sympy term normalisation).")
    ctx.rule("R3", "the bounds asserted under validate_args contain the range of the "
                   "parameter's constraining bijector.")
    ctx.rule("R4", "GaussianCopula = NormalCDF(MVN(0, [[1,0],[rho, sqrt(1-rho^2)]])).")
    ctx.trust("sympy.simplify/limit as algebraic normaliser for the extracted terms")
    ctx.undecided("null-space invariance of the density, sample covariance = "
                  "pseudo-inverse numerically, agreement "
                  "with the closed-form copula density (value-level)")

    # ------------------------------------------------------------------ R1
    mv = repo.cls(MVND)
    pairs = {}
    for ctor, sname in (("from_penalty", "var"), ("from_penalty_smooth", "smooth")):
        fi = method(repo, mv, ctor, own=True)
        res = evaluate(repo, fi)
        rt = res.ret()
        ok_call = rt is not None and rt[0] == "call" and rt[1] == n("cls")
        ctx.ob("C18.R1", fi, "the constructor returns cls(...)", ok_call, detail=short(rt or ()))
        if not ok_call:
            continue
        prec = kw(rt, "prec", 1)
        lp = kw(rt, "log_pdet", 3)
        rank = kw(rt, "rank", 2)
        S = n(sname)
        op = prec[1] if prec and prec[0] == "op" else None
        ok_prec = (op in ("*", "/") and prec[2] == n("pen")
                   and is_call(prec[3], "jax.numpy.expand_dims") and prec[3][2][0] == S)
        ctx.ob("C18.R1", fi, f"prec = pen {op or '?'} {sname} (broadcast over the matrix "
                             f"dimensions)", ok_prec, detail=short(prec or ()),
               stmt="prec " + pretty(prec or ())[:120])
        op2 = lp[1] if lp and lp[0] == "op" else None
        adj = lp[3] if lp and lp[0] == "op" else None
        base = lp[2] if lp and lp[0] == "op" else None
        logS = ("call", ("g", "jax.numpy.log"), (S,), ())
        ok_adj = (op2 in ("+", "-") and adj is not None and adj[0] == "op" and adj[1] == "*"
                  and {adj[2], adj[3]} == {rank, logS})
        ctx.ob("C18.R1", fi, f"log_pdet is adjusted by rank * log({sname})", ok_adj,
               detail=short(lp or ()), stmt="log_pdet " + pretty(lp or ())[:160])
        dual = (op, op2) in (("*", "+"), ("/", "-"))
        ctx.ob("C18.R1", fi, "duality: (*, +) or (/, -): log pdet(pen*s) = log pdet(pen) + "
                             "rank*log s", dual and ok_prec and ok_adj,
               detail=f"prec uses '{op}', log_pdet uses '{op2}'",
               stmt=f"duality ({op}, {op2})", facts={"prec_op": op, "log_pdet_op": op2})
        pairs[ctor] = (op, op2)
        # rank / base log-pdet derive from the penalty's eigenvalues unless supplied
        ok_rank = (rank is not None and any(x == n("rank") for x in subterms(rank))
                   and any(is_call(x, "liesel.distributions.mvn_degen._rank")
                           for x in subterms(rank)))
        ok_base = (base is not None and any(x == n("log_pdet") for x in subterms(base))
                   and any(is_call(x, "liesel.distributions.mvn_degen._log_pdet")
                           and kw(x, "rank", 1) is not None for x in subterms(base)))
        evs = [x for x in subterms(rt) if is_call(x, "jax.numpy.linalg.eigvalsh")]
        ok_ev = evs and all(x[2] == (n("pen"),) for x in evs)
        ctx.ob("C18.R1", fi, "rank and log-pdet default to the eigen-decomposition of the "
                             "penalty (not of the scaled precision) and are passed on",
               ok_rank and ok_base and ok_ev,
               detail=f"rank={short(rank or (), 80)} base={short(base or (), 80)}")
        # the four supplied / not supplied combinations, partially evaluated
        from .c13 import partial_eval
        evals_t = ("call", ("g", "jax.numpy.linalg.eigvalsh"), (n("pen"),), ())
        bad_c = []
        for r_none in (True, False):
            for p_none in (True, False):
                facts_ = {("cmp", "is", n("rank"), c(None)): r_none,
                          ("cmp", "is", n("log_pdet"), c(None)): p_none}
                r_eff = partial_eval(rank, facts_) if rank is not None else None
                b_eff = partial_eval(base, facts_) if base is not None else None
                want_r = ("call", ("g", "liesel.distributions.mvn_degen._rank"), (evals_t,), ()) \
                    if r_none else n("rank")
                ok_rr = r_eff == want_r or (r_none and is_call(
                    r_eff or (), "liesel.distributions.mvn_degen._rank")
                    and kw(r_eff, "eigenvalues", 0) == evals_t)
                if p_none:
                    ok_bb = (is_call(b_eff or (), "liesel.distributions.mvn_degen._log_pdet")
                             and kw(b_eff, "eigenvalues", 0) == evals_t
                             and kw(b_eff, "rank", 1) == r_eff)
                else:
                    ok_bb = b_eff == n("log_pdet")
                if not (ok_rr and ok_bb):
                    bad_c.append(f"rank {'missing' if r_none else 'given'}, log_pdet "
                                 f"{'missing' if p_none else 'given'}: rank={short(r_eff or (), 60)} "
                                 f"log_pdet base={short(b_eff or (), 60)}")
        ctx.ob("C18.R1", fi, "a supplied rank / log-pdet is used as given, a missing one is "
                             "derived from the eigenvalues of the penalty (with the effective "
                             "rank) -- all four combinations", not bad_c,
               detail="; ".join(bad_c[:2]), stmt=f"{ctor} rank/log_pdet combos " + "; ".join(bad_c[:1])[:120])
        ctx.ob("C18.R1", fi, "loc is passed through", kw(rt, "loc", 0) == n("loc"))
    ctx.require_min("penalty constructors", len(pairs), 2)

    # ---- the class itself: supplied rank / log-pdet are kept and used as given, missing
    # ones come from the eigenvalues of the precision with the instance tolerance
    SELF_ = n("self")
    mi = method(repo, mv, "__init__", own=True)
    rmi = evaluate(repo, mi)
    st_ = {}
    for loc, val, _, cond in rmi.stores:
        if loc[0] == "a" and loc[1] == SELF_:
            st_.setdefault(loc[2], []).append((val, cond))
    ok_init = all(st_.get(f) == [(n(a), ())] for f, a in (
        ("_rank", "rank"), ("_log_pdet", "log_pdet"), ("_tol", "tol")))
    prec_s, loc_s = st_.get("_prec", []), st_.get("_loc", [])
    ok_pl = (len(prec_s) == 1 and len(loc_s) == 1
             and is_call(prec_s[0][0], "jax.numpy.expand_dims") and prec_s[0][0][2][0] == n("prec")
             and is_call(loc_s[0][0], "jax.numpy.expand_dims")
             and loc_s[0][0][2][0] == ("call", ("g", "jax.numpy.atleast_1d"), (n("loc"),), ()))
    ctx.ob("C18.R1", mi, "the constructor keeps rank, log_pdet and tol as given and stores prec "
                         "and loc only with batch axes added", ok_init and ok_pl,
           detail=f"fields ok={ok_init}, prec/loc ok={ok_pl}", stmt="constructor fields")
    evals_self = ("proj", ("a", SELF_, "eig"), 0)
    for pname, field, want_default in (
            ("rank", "_rank", ("call", ("g", "liesel.distributions.mvn_degen._rank"),
                               (evals_self,), (("tol", ("a", SELF_, "_tol")),))),
            ("log_pdet", "_log_pdet", ("call", ("g", "liesel.distributions.mvn_degen._log_pdet"),
                                       (evals_self, ("a", SELF_, "rank")),
                                       (("tol", ("a", SELF_, "_tol")),)))):
        pf = method(repo, mv, pname, own=True)
        rp_ = evaluate(repo, pf).ret()
        fld = ("a", SELF_, field)
        ok_p_ = False
        if rp_ is not None and rp_[0] == "phi" and rp_[1] == ("cmp", "is", fld, c(None)):
            dflt = rp_[2]
            ok_p_ = rp_[3] == fld and dflt[0] == "call" and dflt[1] == want_default[1] \
                and kw(dflt, "eigenvalues", 0) in (evals_self, ("s", evals_self[1], c(0))) \
                and kw(dflt, "tol", 2 if pname == "log_pdet" else 1) == ("a", SELF_, "_tol") \
                and (pname == "rank" or kw(dflt, "rank", 1) == ("a", SELF_, "rank"))
        ctx.ob("C18.R1", pf, f"{pname}: the supplied value if there is one, otherwise derived "
                             f"from the eigenvalues of the precision (instance tolerance"
                             + (", effective rank)" if pname == "log_pdet" else ")"), ok_p_,
               detail=short(rp_ or (), 160), stmt=f"{pname} property")
    # derived quantities are pure: computing rank / log-pdet / eig / sqrt-pcov never writes
    # the distribution (in particular not its `parameters`, from which copy() re-creates it
    # -- a remembered rank would be handed to a copy with another precision matrix)
    for pname in ("rank", "log_pdet", "eig", "_sqrt_pcov"):
        pf = method(repo, mv, pname, own=True)
        rpp = evaluate(repo, pf)
        writes = [pretty(loc)[:50] for loc, _, _, _ in rpp.stores
                  if SELF_ in set(subterms(loc))]
        writes += [pretty(t)[:50] for t, _, _ in rpp.calls if t[0] == "call" and t[1][0] == "a"
                   and (t[1][1] == SELF_ or (t[1][1][0] == "a" and t[1][1][1] == SELF_
                                             and t[1][2] in ("update", "append", "setdefault",
                                                             "pop", "clear", "__setitem__")))]
        ctx.ob("C18.R1", pf, f"{pname} only reads the distribution (no field, no entry of "
                             f"`parameters` is written while it is computed)", not writes,
               detail="; ".join(writes[:3]), stmt=f"{pname} writes " + "; ".join(writes[:2]))
    lpf = method(repo, mv, "_log_prob", own=True)
    rl = evaluate(repo, lpf).ret()
    ok_lp = False
    detail = short(rl or ())
    try:
        q, R, P = sp.symbols("q R P", real=True)

        def leaf(t):
            if t == ("a", n("self"), "rank"):
                return R
            if t == ("a", n("self"), "log_pdet"):
                return P
            if is_call(t, "jax.numpy.squeeze"):
                return q
            return None
        e = to_sympy(rl, {}, leaf)
        ok_lp = is_zero(e - sp.Rational(1, 2) * (-q - (R * sp.log(2 * sp.pi) - P)))
        quad = [x for x in subterms(rl) if is_call(x, "jax.numpy.squeeze")]
        ok_q = False
        if len(quad) == 1:
            inner = quad[0][2][0]
            # x @ prec @ x^T  with x = x - loc
            mats = [x for x in subterms(inner) if x == ("a", n("self"), "_prec")]
            locs = [x for x in subterms(inner) if x == ("a", n("self"), "_loc")]
            ok_q = (inner[0] == "op" and inner[1] == "@" and len(mats) == 1
                    and len(locs) >= 1)
            # exact shape of the quadratic form: row(d) @ prec @ column(d), d = x - loc
            d_ = ("op", "-", n(lpf.params()[1]), ("a", n("self"), "_loc"))
            row = ("call", ("g", "jax.numpy.expand_dims"), (d_,), (("axis", c(-2)),))
            rows = {row, ("call", ("g", "jax.numpy.expand_dims"), (d_, c(-2)), ())}
            prec_ = ("a", n("self"), "_prec")
            ok_form = False
            for rw in rows:
                cols = {("call", ("g", "jax.numpy.swapaxes"), (rw, c(-2), c(-1)), ()),
                        ("call", ("g", "jax.numpy.swapaxes"), (rw, c(-1), c(-2)), ()),
                        ("call", ("g", "jax.numpy.expand_dims"), (d_,), (("axis", c(-1)),)),
                        ("a", rw, "mT")}
                for cl_ in cols:
                    if inner in (("op", "@", ("op", "@", rw, prec_), cl_),
                                 ("op", "@", rw, ("op", "@", prec_, cl_))):
                        ok_form = True
            ax = kw(quad[0], "axis", 1)
            # (without `axis` squeeze would also drop batch dimensions of length 1)
            ok_q = ok_q and ok_form and ax in (("tuple", (c(-2), c(-1))),
                                               ("tuple", (c(-1), c(-2))))
        ok_lp = ok_lp and ok_q
    except Untranslatable as ex:
        detail = f"untranslatable: {short(ex.args[0])}"
    ctx.ob("C18.R1", lpf, "_log_prob = 0.5 * (-(x-loc) prec (x-loc)^T - (rank*log(2 pi) - "
                          "log_pdet))", ok_lp, detail=detail,
           stmt="log_prob " + pretty(rl or ())[:200])
    rk = repo.func("liesel.distributions.mvn_degen._rank")
    rr = evaluate(repo, rk).ret()
    ok_r = (rr == ("call", ("g", "jax.numpy.sum"),
                   (cmp_(">", n("eigenvalues"), n("tol")),), (("axis", c(-1)),)))
    ctx.ob("C18.R1", rk, "_rank counts the eigenvalues above the tolerance", ok_r,
           detail=short(rr or ()))
    pd = repo.func("liesel.distributions.mvn_degen._log_pdet")
    rp = evaluate(repo, pd).ret()
    ok_p = False
    if rp is not None and is_call(rp, "jax.numpy.sum") and kw(rp, "axis") == c(-1):
        inner = rp[2][0]
        if is_call(inner, "jax.numpy.log") and is_call(inner[2][0], "jax.numpy.where"):
            w = inner[2][0]
            ok_p = w[2][1] == n("eigenvalues") and w[2][2] == c(1.0)
    ctx.ob("C18.R1", pd, "_log_pdet sums the logs of the selected eigenvalues (others "
                         "contribute log 1 = 0)", ok_p, detail=short(rp or ()))
    # which eigenvalues are selected: above the tolerance, or -- with a supplied rank --
    # the `rank` largest ones (eigvalsh sorts ascending: the last `rank` indices)
    ok_sel, sel_detail = False, ""
    if ok_p:
        from ..domains import concrete as _cc
        mask = rp[2][0][2][0][2][0]
        ev_ = n("eigenvalues")
        size_t = ("s", ("a", ev_, "shape"), c(-1))
        if mask[0] == "phi" and mask[1] == ("cmp", "is", n("rank"), c(None)):
            no_rank, with_rank = mask[2], mask[3]
            ok_a = no_rank == cmp_(">", ev_, n("tol"))
            ok_b = False
            if is_call(with_rank, "jax.lax.fori_loop") and with_rank[2][:2] == (c(0), size_t) \
                    and len(with_rank[2]) == 4 and fn_parts(
                        repo, with_rank[2][2], evaluate(repo, pd).closure()) is not None:
                f_params, rf = fn_parts(repo, with_rank[2][2], evaluate(repo, pd).closure())
                i_p, x_p = (n(p_) for p_ in f_params[:2])
                if rf is not None and rf[0] == "call" and rf[1][0] == "a" and rf[1][2] == "set" \
                        and rf[1][1] == ("s", ("a", x_p, "at"), ("tuple", (c(Ellipsis), i_p))) \
                        and len(rf[2]) == 1:
                    from .c13 import partial_eval as _pe
                    pred = _pe(rf[2][0], {("cmp", "is", n("rank"), c(None)): False})
                    try:
                        ok_b = all(
                            {i for i in range(k) if _cc.evaluate(
                                pred, {i_p: i, size_t: k, n("rank"): r})} == set(range(k - r, k))
                            for k in (1, 3, 4) for r in range(0, k + 1))
                    except _cc.Unmodelled as e:
                        sel_detail = f"unmodelled {e}"
            ok_sel = ok_a and ok_b
            sel_detail = sel_detail or f"tolerance mask ok={ok_a}; rank mask ok={ok_b}"
    ctx.ob("C18.R1", pd, "selected = eigenvalues above the tolerance, or, with a supplied "
                         "rank r, exactly the last r (largest) eigenvalues", ok_sel,
           unproven="unmodelled" in sel_detail, detail=sel_detail,
           stmt="log_pdet selection " + sel_detail[:80])

    # ------------------------------------------------------------------ R5 sampling
    sq = method(repo, mv, "_sqrt_pcov", own=True)
    rsq = evaluate(repo, sq).ret()
    eig_t = ("proj", ("a", n("self"), "eig"), 0)
    vec_t = ("proj", ("a", n("self"), "eig"), 1)
    tol_t = ("a", n("self"), "_tol")
    scale_terms = []
    if rsq is not None:
        for x in subterms(rsq):
            if x[0] == "call" and any(y == eig_t for y in subterms(x)) and not any(
                    y == vec_t for y in subterms(x)):
                scale_terms.append(x)
    # candidates for the per-direction scale, largest first (the largest eigenvalue-only
    # term that the scalar evaluator below understands is the scale)
    scale_terms.sort(key=lambda x: -len(pretty(x)))
    scale = scale_terms[0] if scale_terms else None
    ok5, detail5 = False, short(rsq or (), 200)
    if scale is not None:
        import math

        def ev(t, lam):
            if t == eig_t:
                return lam
            if t == tol_t:
                return 1e-6
            if t[0] == "c":
                return t[1]
            if t[0] == "op":
                a, b = ev(t[2], lam), ev(t[3], lam)
                if t[1] == "/":
                    return math.inf if b == 0 else a / b
                return {"+": a + b, "-": a - b, "*": a * b, "**": a ** b}[t[1]]
            if t[0] == "cmp":
                a, b = ev(t[2], lam), ev(t[3], lam)
                return {"<": a < b, "<=": a <= b, ">": a > b, ">=": a >= b}[t[1]]
            if t[0] == "call":
                nm = (fn_name(t[1]) or "").rsplit(".", 1)[-1]
                args = [ev(a, lam) for a in t[2]]
                if nm == "sqrt":
                    return math.inf if args[0] == math.inf else math.sqrt(args[0])
                if nm == "rsqrt":
                    return math.inf if args[0] == 0 else 1 / math.sqrt(args[0])
                if nm == "where":
                    return args[1] if args[0] else args[2]
                if nm in ("abs",):
                    return abs(args[0])
                if nm in ("expand_dims", "asarray", "atleast_1d"):
                    return args[0]
            raise KeyError(t)
        detail5 = f"unmodelled scale term {short(scale, 120)}"
        for cand in scale_terms:
            try:
                null_scale = ev(cand, 0.0)
                range_scale = ev(cand, 4.0)
            except (KeyError, TypeError, ZeroDivisionError, ValueError):
                continue
            if isinstance(null_scale, bool):
                continue
            ok5 = null_scale == 0 and abs(range_scale - 0.5) < 1e-12
            scale = cand
            detail5 = (f"scale of a null-space direction (eigenvalue 0) = {null_scale}, of a "
                       f"range direction with eigenvalue 4 = {range_scale}")
            break
    uses_vecs = rsq is not None and any(x == vec_t for x in subterms(rsq))
    ctx.ob("C18.R5", sq, "the square-root pseudo-covariance scales each eigen-direction by "
                         "1/sqrt(eigenvalue) and null-space directions (eigenvalue below the "
                         "tolerance) by exactly 0, so samples stay in the range space", ok5
           and uses_vecs, unproven="unmodelled" in detail5, detail=detail5,
           stmt="sqrt pcov " + detail5[:120])
    sn = method(repo, mv, "_sample_n", own=True)
    rsn = evaluate(repo, sn).ret()
    # how the eigenvectors meet the scales: Q @ diag(scale)  (column j scaled by scale_j)
    comb_ok, comb_detail = False, short(rsq or (), 120)
    if rsq is not None and rsq[0] == "op" and scale is not None:
        a_, b_ = rsq[2], rsq[3]

        def diag_of(t):
            """t embeds `scale` on the diagonal of a zero matrix / is diag(scale)."""
            if is_call(t, "jax.numpy.diag", "jax.numpy.diagflat") and t[2][:1] == (scale,):
                return True
            if t[0] == "call" and t[1][0] == "a" and t[1][2] == "set" and t[2] == (scale,) \
                    and t[1][1][0] == "s" and t[1][1][1][0] == "a" and t[1][1][1][2] == "at" \
                    and (is_call(t[1][1][1][1], "jax.numpy.zeros")
                         and kw(t[1][1][1][1], "dtype", 1) is None
                         # zeros_like takes the dtype of its argument: only a float-valued
                         # template (derived from the scales) keeps the scales exact; the
                         # user's precision matrix may be integer-typed
                         or is_call(t[1][1][1][1], "jax.numpy.zeros_like")
                         and any(x == eig_t for x in subterms(t[1][1][1][1]))):
                idx = t[1][1][2]
                if idx[0] == "tuple" and len(idx[1]) >= 2 and idx[1][-1] == idx[1][-2] \
                        and is_call(idx[1][-1], "tuple", "jax.numpy.arange", "range", "list"):
                    return True
            return False
        if rsq[1] == "@" and a_ == vec_t and diag_of(b_):
            comb_ok = True
        elif rsq[1] == "*" and vec_t in (a_, b_):
            other = b_ if a_ == vec_t else a_
            # broadcasting the scale vector over the rows scales the columns
            comb_ok = (is_call(other, "jax.numpy.expand_dims") and kw(other, "axis", 1) == c(-2)
                       and (other[2][0] == scale or other == scale)) or other == (
                "s", scale, ("tuple", (c(Ellipsis), c(None), ("slice", c(None), c(None), c(None)))))
        comb_detail = f"{short(a_, 40)} {rsq[1]} {short(b_, 60)}"
    ctx.ob("C18.R5", sq, "the square root is Q @ diag(scale): eigenvector j (column j of Q) is "
                         "scaled by the scale of eigenvalue j", comb_ok, unproven=True,
           detail=comb_detail, stmt="sqrt pcov combination " + comb_detail[:100])
    ok_mm = False
    if rsn is not None:
        mm = [x for x in subterms(rsn) if x[0] == "op" and x[1] == "@"]
        ok_mm = len(mm) >= 1 and all(
            any(y == ("a", n("self"), "_sqrt_pcov") for y in subterms(x[2]))
            and any(is_call(y, "jax.random.normal") for y in subterms(x[3])) for x in mm)
    ctx.ob("C18.R5", sn, "the noise is multiplied from the right: sqrt_pcov @ z", ok_mm,
           stmt="sample product")
    eigp = method(repo, mv, "eig", own=True)
    ctx.ob("C18.R5", eigp, "the eigen-decomposition is that of the precision matrix",
           evaluate(repo, eigp).ret() == ("call", ("g", "jax.numpy.linalg.eigh"),
                                          (("a", n("self"), "_prec"),), ()))
    sn = method(repo, mv, "_sample_n", own=True)
    rsn = evaluate(repo, sn).ret()
    ok_sn = (rsn is not None and rsn[0] == "op" and rsn[1] == "+"
             and any(x == ("a", n("self"), "_sqrt_pcov") for x in subterms(rsn))
             and any(x == ("a", n("self"), "_loc") for x in subterms(rsn))
             and any(is_call(x, "jax.random.normal") for x in subterms(rsn)))
    ctx.ob("C18.R5", sn, "samples = loc + sqrt_pcov @ standard normal noise", ok_sn,
           detail=short(rsn or (), 160))

    # ------------------------------------------------------------------ R2
    sg = repo.cls(SIG)
    x = sp.Symbol("x", real=True)
    y = sp.Symbol("y", real=True)
    exprs = {}
    for m, var, sym in (("_forward", "x", x), ("_inverse", "y", y),
                        ("_forward_log_det_jacobian", "x", x),
                        ("_inverse_log_det_jacobian", "y", y)):
        if m.endswith("log_det_jacobian") and sg.own_method(m) is None:
            # TFP would derive the missing one from the other through forward()/inverse():
            # equal on paper, but evaluated through the saturating map (1 - y^2 with
            # y -> +/-1 cancels in floating point) -- not provable here, so not accepted
            ctx.ob("C18.R2", sg, f"{m} is given in closed form in its own argument (not "
                                 f"derived by TFP through the other direction, which "
                                 f"evaluates 1 - forward(x)^2 and cancels for large |x|)",
                   False, unproven=True, detail=f"{m} is not defined by the class",
                   stmt=f"{m} missing")
            continue
        fi = method(repo, sg, m, own=True)
        rt = evaluate(repo, fi).ret()
        try:
            exprs[m] = to_sympy(rt, {n(fi.params()[1]): sym})
        except Untranslatable as ex:
            ctx.ob("C18.R2", fi, f"{m} is plain arithmetic", False, unproven=True,
                   detail=f"untranslatable {short(ex.args[0])}")
    if "_forward" in exprs and "_inverse" in exprs:
        f, g_ = exprs["_forward"], exprs["_inverse"]
        fwd = method(repo, sg, "_forward", own=True)
        inv = method(repo, sg, "_inverse", own=True)
        ctx.ob("C18.R2", inv, "inverse(forward(x)) == x for all real x",
               is_zero(g_.subs(y, f) - x), detail=f"f={f}, g={g_}",
               stmt=f"g(f(x)) with f={f}, g={g_}", facts={"forward": str(f), "inverse": str(g_)})
        lo, hi = sp.limit(f, x, -sp.oo), sp.limit(f, x, sp.oo)
        mono = sp.simplify(sp.diff(f, x))
        ctx.ob("C18.R2", fwd, "forward is increasing with range (-1, 1)",
               lo == -1 and hi == 1 and mono.is_positive is not False
               and sp.simplify(mono).subs(x, 0) > 0,
               detail=f"limits {lo}, {hi}; derivative {mono}", stmt=f"range of {f}")
        fl = sg.own_method("_forward_log_det_jacobian")
        if "_forward_log_det_jacobian" in exprs:
          ctx.ob("C18.R2", fl, "forward log-det-Jacobian == log(d forward / dx)",
                 is_zero(sp.diff(f, x) - sp.exp(exprs["_forward_log_det_jacobian"])),
                 detail=f"fldj={exprs['_forward_log_det_jacobian']}, "
                        f"f'={sp.simplify(sp.diff(f, x))}",
                 stmt=f"fldj {exprs['_forward_log_det_jacobian']}")
        il = sg.own_method("_inverse_log_det_jacobian")
        if "_inverse_log_det_jacobian" in exprs:
          ctx.ob("C18.R2", il, "inverse log-det-Jacobian == log(d inverse / dy) on |y| < 1",
                 is_zero(sp.diff(g_, y) - sp.exp(exprs["_inverse_log_det_jacobian"])),
                 detail=f"ildj={exprs['_inverse_log_det_jacobian']}, "
                        f"g'={sp.simplify(sp.diff(g_, y))}",
                 stmt=f"ildj {exprs['_inverse_log_det_jacobian']}")
        ctx.extra["bijector_range"] = [str(lo), str(hi)]
    inc = method(repo, sg, "_is_increasing", own=True)
    ctx.ob("C18.R2", inc, "the bijector declares itself increasing",
           evaluate(repo, inc).ret() == c(True))

    # ------------------------------------------------------------------ R3 / R4
    cp = repo.cls(COP)
    # the density, CDF and sampler are TFP's TransformedDistribution applied to the
    # construction checked below: the class itself must not override any of them
    DENSITY_API = {"_log_prob", "log_prob", "_prob", "prob", "_log_cdf", "log_cdf", "_cdf", "cdf",
                   "_sample_n", "sample", "_call_log_prob", "_call_prob", "_call_sample_n",
                   "_log_survival_function", "_survival_function", "_quantile", "__call__",
                   "_default_event_space_bijector", "experimental_local_measure"}
    PUBLIC_WRAPPERS = {"log_prob", "prob", "sample", "cdf", "log_cdf", "forward", "inverse",
                       "forward_log_det_jacobian", "inverse_log_det_jacobian", "__call__",
                       "_call_log_prob", "_call_prob", "_call_sample_n", "_call_forward",
                       "_call_inverse", "_call_forward_log_det_jacobian",
                       "_call_inverse_log_det_jacobian"}
    for ci_ in (mv, sg):
        ov = sorted(m for m in ci_.methods if m in PUBLIC_WRAPPERS)
        ctx.ob("C18.R4", ci_, f"{ci_.name} implements TFP's private hooks only; the public "
                              f"entry points (argument handling, caching, Jacobian "
                              f"bookkeeping) stay TFP's", not ov, detail=f"overrides {ov}",
               stmt=f"{ci_.name} overrides {ov}")
    overridden = sorted(m for m in cp.methods if m in DENSITY_API)
    ctx.ob("C18.R4", cp, "GaussianCopula inherits its density / CDF / sampler from "
                         "TransformedDistribution unchanged (no override that pre- or "
                         "post-processes the argument)", not overridden,
           detail=f"overrides {overridden}", stmt=f"copula overrides {overridden}")
    init = method(repo, cp, "__init__", own=True)
    ri = evaluate(repo, init)
    asserts = [e for e in ri.effects if e.term[0] == "assert"]
    dep = n("dependence")
    lo_b = hi_b = None
    guarded = True
    for e in asserts:
        t = e.term[1]
        if is_call(t, "jax.numpy.all") and t[2] and t[2][0][0] == "cmp":
            _, op, l, r = t[2][0]
            if l == dep and r[0] == "c":
                if op in (">=", ">"):
                    lo_b = (r[1], op)
                if op in ("<=", "<"):
                    hi_b = (r[1], op)
            elif r == dep and l[0] == "c":
                if op in ("<=", "<"):
                    lo_b = (l[1], ">=" if op == "<=" else ">")
                if op in (">=", ">"):
                    hi_b = (l[1], "<=" if op == ">=" else "<")
        guarded = guarded and any(a == n("validate_args") and p for a, p in e.cond)
    pp = method(repo, cp, "_parameter_properties", own=True)
    rpp = evaluate(repo, pp).ret()
    bij_ok = rpp is not None and any(
        x[0] == "lambda" and is_call(x[2], SIG) for x in subterms(rpp))
    ctx.ob("C18.R3", pp, "the dependence parameter's constraining bijector is "
                         "AlgebraicSigmoid (range (-1, 1), from R2)", bij_ok,
           detail=short(rpp or ()))
    rng = ctx.extra.get("bijector_range")
    ok_b = False
    detail = f"lower={lo_b} upper={hi_b} support={rng}"
    if lo_b is not None and hi_b is not None and rng is not None:
        lo_s, hi_s = sp.sympify(rng[0]), sp.sympify(rng[1])
        ok_b = (sp.nsimplify(lo_b[0]) <= lo_s and sp.nsimplify(hi_b[0]) >= hi_s)
    elif not asserts:
        ok_b = True
        detail = "no validation asserts"
    ctx.ob("C18.R3", init, "validate_args accepts every dependence in the open support "
                           "(-1, 1) of the parameter", ok_b, detail=detail,
           stmt=f"validation bounds {lo_b} {hi_b}",
           facts={"lower": str(lo_b), "upper": str(hi_b), "support": rng})
    ctx.ob("C18.R3", init, "the bounds are only asserted under validate_args",
           guarded or not asserts)

    sup = [t for t, _, _ in ri.calls if t[1][0] == "a" and t[1][2] == "__init__"
           and is_call(t[1][1], "super")]
    ok4 = False
    detail = ""
    if len(sup) == 1:
        d = kw(sup[0], "distribution")
        b = kw(sup[0], "bijector")
        ok_bij = b is not None and is_call(
            b, "tensorflow_probability.substrates.jax.bijectors.NormalCDF")
        ok_d = d is not None and is_call(
            d, "tensorflow_probability.substrates.jax.distributions.MultivariateNormalTriL")
        st = kw(d, "scale_tril") if ok_d else None
        loc = kw(d, "loc") if ok_d else None
        ok_loc = loc is not None and is_call(loc, "jax.numpy.zeros")
        ok_tril = False
        if st is not None:
            arm = st[3] if st[0] == "phi" else st
            if is_call(arm, "jax.numpy.stack") and kw(arm, "axis") == c(-2) \
                    and arm[2][0][0] == "list" and len(arm[2][0][1]) == 2:
                row1, row2 = arm[2][0][1]

                def row(r):
                    if is_call(r, "jax.numpy.stack") and kw(r, "axis") == c(-1) \
                            and r[2][0][0] == "list":
                        return r[2][0][1]
                    return None
                r1, r2 = row(row1), row(row2)
                if r1 and r2 and len(r1) == 2 and len(r2) == 2:
                    def bc(v):
                        return is_call(v, "jax.numpy.broadcast_to") and v[2][0]
                    rho = sp.Symbol("rho", real=True)
                    try:
                        e22 = to_sympy(r2[1], {dep: rho})
                        ok22 = is_zero(e22 - sp.sqrt(1 - rho ** 2))
                    except Untranslatable:
                        ok22 = False
                    ok_tril = (bc(r1[0]) == c(1.0) and bc(r1[1]) == c(0.0)
                               and r2[0] == dep and ok22)
            detail = short(st, 300)
        ok4 = ok_bij and ok_d and ok_loc and ok_tril
    ctx.ob("C18.R4", init, "the copula is NormalCDF applied to a zero-mean bivariate normal "
                           "with Cholesky factor [[1, 0], [rho, sqrt(1 - rho^2)]]", ok4,
           detail=detail, stmt="copula construction")
