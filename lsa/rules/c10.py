"""
C10 -- reproducibility, independent chains, initial values honoured.
"""

from __future__ import annotations

import ast
import os

from ..core.loader import dotted
from ..core.terms import (cmp_, not_, pc, phi_, c, evaluate, fn_name, kw, n, pretty, subterms, unwrap_callable)
from ..domains.defassign import analyse_function
from ..domains.keys import KeyAnalysis
from .common import LIB_FACTS, is_call, method, short

HIDDEN = ("numpy.random.", "random.", "os.urandom", "secrets.", "time.time",
          "time.time_ns", "uuid.")
SAMPLING_MODULES = [
    "liesel.goose.engine", "liesel.goose.builder", "liesel.goose.kernel_sequence",
    "liesel.goose.kernel", "liesel.goose.mh", "liesel.goose.rw", "liesel.goose.mh_kernel",
    "liesel.goose.iwls", "liesel.goose.iwls_utils", "liesel.goose.hmc", "liesel.goose.nuts",
    "liesel.goose.gibbs", "liesel.goose.da", "liesel.goose.mm", "liesel.goose.epoch",
    "liesel.goose.chain", "liesel.goose.interface", "liesel.goose.pytree",
    "liesel.goose.warmup", "liesel.goose.models", "liesel.model.goose",
    "liesel.model.distreg",
]
KEY_EXCEPTIONS = {
    ("liesel.goose.builder.EngineBuilder.build", "K4"):
        "configuration keys: consumed once per build(); building twice from one builder "
        "reproduces the same run by design",
    ("liesel.model.model.GraphBuilder._add_model_seed_nodes", "K2"):
        "placeholder seeds PRNGKey(0) of seeded nodes, replaced by Model.set_seed; not part "
        "of the sampling path",
}
DEFASSIGN_FILES = ("liesel/goose/builder.py", "liesel/goose/engine.py",
                   "liesel/goose/kernel_sequence.py", "liesel/goose/kernel.py",
                   "liesel/goose/mh.py", "liesel/goose/rw.py", "liesel/goose/mh_kernel.py",
                   "liesel/goose/iwls.py", "liesel/goose/hmc.py", "liesel/goose/nuts.py",
                   "liesel/goose/gibbs.py", "liesel/goose/epoch.py", "liesel/goose/chain.py",
                   "liesel/goose/interface.py", "liesel/goose/warmup.py")


def hidden_random_calls(tree: ast.AST, imports: dict[str, str]):
    out = []
    for x in ast.walk(tree):
        if isinstance(x, ast.Call):
            d = dotted(x.func)
            if not d:
                continue
            head, _, rest = d.partition(".")
            q = imports.get(head)
            full = (q + ("." + rest if rest else "")) if q else d
            if any(full == h or full.startswith(h) for h in HIDDEN):
                out.append((full, x))
    return out


def is_set_term(t, depth=0) -> bool:
    if depth > 20 or not isinstance(t, tuple) or not t:
        return False
    if t[0] == "set" or (t[0] == "comp" and t[1] == "set"):
        return True
    if t[0] == "call" and (fn_name(t[1]) or "") in ("set", "frozenset"):
        return True
    if t[0] == "op" and t[1] in ("|", "&", "-", "^"):
        return is_set_term(t[2], depth + 1) and is_set_term(t[3], depth + 1)
    if t[0] in ("phi", "ifexp"):
        return is_set_term(t[2], depth + 1) or is_set_term(t[3], depth + 1)
    if t[0] in ("loop", "carried"):
        return is_set_term(t[2], depth + 1)
    return False


def ordered_set_uses(res):
    """Places where the (hash-seed dependent) iteration order of a set becomes
    observable: for loops, comprehension generators, enumerate/zip/list/tuple/iter/next."""
    out = []

    def unwrap(it):
        while it[0] == "call" and (fn_name(it[1]) or "") in ("enumerate", "zip", "reversed",
                                                              "iter") and it[2]:
            for a in it[2]:
                if is_set_term(a):
                    return a
            it = it[2][0]
        return it

    for lp in res.loops:
        if lp["iter"] is not None and is_set_term(unwrap(lp["iter"])):
            out.append(("for loop", lp["iter"], lp["node"]))
    seen = set()
    for t, node, cond in res.calls:
        name = fn_name(t[1]) if t[0] == "call" else None
        if name in ("list", "tuple", "enumerate", "next", "iter") and t[2] \
                and is_set_term(unwrap(t[2][0])):
            out.append((f"{name}()", t, node))
    stack = [tt for tt, _, _ in res.calls] + [v for _, v, _, _ in res.stores] + [
        r for _, r, _ in res.returns]
    for root in stack:
        for x in subterms(root):
            if x[0] == "comp" and x[1] != "set" and id(x) not in seen:
                seen.add(id(x))
                for g_ in x[3]:
                    if is_set_term(unwrap(g_[1])):
                        out.append(("comprehension", x, None))
    return out


def _imports_of(tree):
    imp = {}
    for st in ast.walk(tree):
        if isinstance(st, ast.Import):
            for a in st.names:
                imp[a.asname or a.name.split(".")[0]] = a.name if a.asname else a.name.split(".")[0]
        elif isinstance(st, ast.ImportFrom) and st.module and not st.level:
            for a in st.names:
                imp[a.asname or a.name] = f"{st.module}.{a.name}"
    return imp


def check(ctx):
    repo = ctx.repo
    ctx.rule("R1", "PRNG keys are affine: every key value is consumed at most once on every "
                   "path, loop bodies consume iteration-selected or carried keys only, "
                   "pieces of a split are disjoint, keys in persistent locations are "
                   "replaced when consumed (provenance typing, goose + model packages).")
    ctx.rule("R2", "no unseeded randomness (numpy.random, random, os.urandom, time) in the "
                   "modules of the sampling path.")
    ctx.rule("R3", "an int seed and the corresponding key give the same three builder keys.")
    ctx.rule("R4", "every local name is bound on every path before use "
                   "(branch-definite assignment with guard correlation).")
    ctx.rule("R5", "all per-chain work is vmapped over axis 0; only chain-independent "
                   "arguments are broadcast.")
    ctx.rule("R7", "no value in the sampling path depends on the iteration order of a set "
                   "(hash-seed dependent between processes).")
    ctx.rule("R6", "the engine starts from the jittered states when jitter functions "
                   "exist, else from the states as set; replicate vs. per-chain states.")
    ctx.trust(LIB_FACTS["keys"], LIB_FACTS["vmap"], LIB_FACTS["scan"])
    ctx.undecided("bit-identical reruns (XLA determinism)",
                  "statistical independence of chains as a value-level statement")

    # ------------------------------------------------------------------ R1
    ka = KeyAnalysis(repo, ("liesel.goose.", "liesel.model."), KEY_EXCEPTIONS)
    rep = ka.run()
    c20_sites = [f for f in rep.findings if f.fi.qualname.startswith("liesel.goose.optim.")]
    findings = [f for f in rep.findings if f not in c20_sites]  # optim_flat: see C20.R1
    ctx.require_min("key consumption sites", rep.consumption_sites, 40)
    ctx.require_min("functions handling keys", len(rep.functions_with_keys), 30)
    ctx.require_min("stateful key generators (Engine._split_prng_key*)",
                    len(rep.generators), 2)
    ctx.call_sites += rep.consumption_sites
    ctx.extra["key_analysis"] = {
        "consumption_sites": rep.consumption_sites, "key_values": rep.key_values,
        "functions_with_keys": len(rep.functions_with_keys),
        "generators": rep.generators, "tabled_exceptions": {
            f"{k[0]}:{k[1]}": v for k, v in KEY_EXCEPTIONS.items()},
        "exceptions_used": rep.exceptions_used,
    }
    flagged = {}
    for f in findings:
        flagged.setdefault(f.fi.qualname, []).append(f)
    for q in rep.functions_with_keys:
        fi = repo.functions.get(q) or next(
            (x for x in repo.functions.values() if x.qualname == q), None)
        if q.startswith("liesel.goose.optim."):
            continue
        fs = flagged.get(q, [])
        if not fs:
            ctx.ob("C10.R1", fi or q, "every PRNG key value in this function is used at "
                                      "most once per path / iteration (K1-K5)", True)
        for f in fs:
            ctx.ob("C10.R1", f.fi, f"key discipline {f.rule}", False, detail=f.what,
                   node=f.node, stmt=f"{f.rule} {f.key}")
    # the generator itself: _split_prng_key keeps piece 0 and hands out n pieces
    eng = repo.cls("liesel.goose.engine.Engine")
    spk = method(repo, eng, "_split_prng_key")
    r = evaluate(repo, spk)
    rt = r.ret()
    pk = ("a", n("self"), "_prng_key")
    want_split = ("call", ("g", "liesel.goose.engine._split_keys"),
                  (pk, ("op", "+", n("n"), c(1))), ())
    full = ("slice", c(None), c(None), c(None))
    ok = (r.env.heap.get(pk) == ("s", want_split, ("tuple", (full, c(0), full)))
          and rt == ("s", want_split, ("tuple", (full, ("slice", c(1), c(None), c(None)),
                                                 full))))
    ctx.ob("C10.R1", spk, "_split_prng_key(n) splits the carried key into n+1 pieces, keeps "
                          "piece 0 as the new carry and hands out pieces 1..n (n keys)",
           ok, detail=f"carry={short(r.env.heap.get(pk) or ())} returned={short(rt or ())}",
           stmt="split arithmetic " + pretty(rt or ())[:150])
    sk = repo.func("liesel.goose.engine._split_keys")
    rs = evaluate(repo, sk).ret()
    ok = (rs is not None and is_call(rs, "jax.lax.map") and rs[2][1] == n("keys")
          and rs[2][0][0] == "lambda"
          and rs[2][0][2] == ("call", ("g", "jax.random.split"), (n(rs[2][0][1][0]), n("n")), ()))
    ctx.ob("C10.R1", sk, "_split_keys splits every chain's key into n keys", ok,
           detail=short(rs or ()))

    # ------------------------------------------------------------------ R2
    total = 0
    for mname in SAMPLING_MODULES:
        mi = repo.module(mname)
        hits = hidden_random_calls(mi.tree, mi.imports)
        total += 1
        ctx.ob("C10.R2", mname, "no call into an unseeded source of randomness or the clock",
               not hits, detail="; ".join(f"{h[0]} at line {h[1].lineno}" for h in hits),
               stmt="; ".join(sorted(h[0] for h in hits)))
    fx = os.path.join(os.path.dirname(os.path.dirname(__file__)), "fixtures",
                      "hidden_random.py")
    tree = ast.parse(open(fx).read())
    ctl = hidden_random_calls(tree, _imports_of(tree))
    ctx.require_min("positive control of the hidden-randomness matcher", len(ctl), 3)
    ctx.extra["hidden_randomness_positive_control"] = [h[0] for h in ctl]

    # ------------------------------------------------------------------ R7
    from ..core.loader import FunctionInfo, ModuleInfo
    nf = 0
    for q, fi in sorted(repo.functions.items()):
        if fi.module.name not in SAMPLING_MODULES or isinstance(fi.node, ast.Lambda):
            continue
        nf += 1
        res = evaluate(repo, fi)
        uses = ordered_set_uses(res)
        uniq = {(k, pretty(t)[:100]) for k, t, _ in uses}
        if not uses:
            ctx.ob("C10.R7", fi, "no value depends on the iteration order of a set",
                   True, nontrivial=False)
        for kind, t in sorted(uniq):
            node = next((nd for k, tt, nd in uses if k == kind and nd is not None), None)
            ctx.ob("C10.R7", fi, "no value depends on the iteration order of a set (string "
                                 "hashing is randomised per process, so the order differs "
                                 "between two runs with the same seed)", False,
                   detail=f"{kind} over {t}", node=node, stmt=f"set order: {kind} {t}")
    ctx.require_min("functions scanned for set-order dependence", nf, 150)
    fx2 = os.path.join(os.path.dirname(os.path.dirname(__file__)), "fixtures",
                       "set_iteration.py")
    src2 = open(fx2).read()
    t2 = ast.parse(src2)
    fmod = ModuleInfo("lsa_fixture", "fixtures/set_iteration.py", fx2, src2, t2, repo)
    ffi = FunctionInfo("lsa_fixture.ordered_uses", t2.body[0], fmod)
    ctl2 = ordered_set_uses(evaluate(repo, ffi))
    ctx.require_min("positive control of the set-iteration matcher", len(ctl2), 3)

    # ------------------------------------------------------------------ R3
    eb = repo.cls("liesel.goose.builder.EngineBuilder")
    init = method(repo, eb, "__init__")
    from ..core.terms import make_inliner
    ri = evaluate(repo, init, inline=make_inliner(
        repo, self_class=eb, allow=lambda f: f.module.name == eb.module.name),
        inline_depth=2)
    stores = {loc[2]: val for loc, val, _, _ in ri.stores if loc[0] == "a"
              and loc[1] == n("self")}
    from .common import alternatives
    keyfields = {f: v for f, v in stores.items() if v[0] in ("s", "proj")}
    roots = {v[1] for v in keyfields.values()}
    idx = sorted((v[2][1] if v[0] == "s" else v[2]) for v in keyfields.values()
                 if v[0] == "proj" or v[2][0] == "c")
    ok_struct = len(roots) == 1 and idx == [0, 1, 2]
    root = next(iter(roots)) if roots else None
    ok_eq = False
    if root is not None:
        # (where the int / key distinction is written -- around the split, inside its
        # argument, in a helper -- does not matter: the two alternatives do)
        sp_int = ("call", ("g", "jax.random.split"),
                  (("call", ("g", "jax.random.PRNGKey"), (n("seed"),), ()), c(3)), ())
        sp_key = ("call", ("g", "jax.random.split"), (n("seed"), c(3)), ())
        ok_eq = set(alternatives(root)) == {sp_int, sp_key}
    ctx.ob("C10.R3", init, "the three builder keys are pieces 0, 1, 2 of one 3-way split",
           ok_struct, detail=f"fields {sorted(keyfields)} indices {idx}")
    ctx.ob("C10.R3", init, "int seed: split(PRNGKey(seed), 3); key seed: split(seed, 3) "
                           "(same split, so int and key seeds are equivalent)", ok_eq,
           detail=short(root or ()), stmt="seed split " + pretty(root or ())[:200])

    ses = method(repo, eb, "set_engine_seed")
    rse = evaluate(repo, ses, inline=make_inliner(
        repo, self_class=eb, allow=lambda f: f.module.name == eb.module.name), inline_depth=2)
    st = [val for loc, val, _, _ in rse.stores if loc == ("a", n("self"), "_engine_key")]
    seed_p = n(ses.params()[1])
    ok_se = False
    detail = ""
    if st:
        def nocast(t):
            if not isinstance(t, tuple):
                return t
            if t and t[0] == "call" and (fn_name(t[1]) or "") == "typing.cast" and len(t[2]) == 2:
                return nocast(t[2][1])
            return tuple(nocast(x) for x in t)
        vals = set()
        for x in st:
            x = nocast(x)
            if x[0] == "phi":
                vals.update({x[2], x[3]})
            else:
                vals.add(x)
        want = {("call", ("g", "jax.random.PRNGKey"), (seed_p,), ()), seed_p}
        ok_se = vals == want
        detail = str(sorted(pretty(x)[:80] for x in vals))
    ctx.ob("C10.R3", ses, "set_engine_seed: an int seed becomes PRNGKey(seed), a key is "
                          "taken as is (so int and key are equivalent here too)", ok_se,
           detail=detail, stmt="engine seed " + detail[:120])

    # ------------------------------------------------------------------ R4
    nfun = 0
    for q, fi in sorted(repo.functions.items()):
        if fi.file not in DEFASSIGN_FILES or isinstance(fi.node, ast.Lambda):
            continue
        nfun += 1
        probs, cfg = analyse_function(fi.node)
        ctx.paths += 1
        if not probs:
            ctx.ob("C10.R4", fi, "all local names are bound on every path before use", True,
                   nontrivial=len(cfg.stmts) > 3)
        for nm, node in probs:
            ctx.ob("C10.R4", fi, f"local name '{nm}' is bound on every path before use",
                   False, detail=f"'{nm}' may be unbound at line {node.lineno} (a path from "
                                 f"the function entry reaches the use without an assignment)",
                   node=node, stmt=f"unbound {nm}")
    ctx.require_min("functions checked for definite assignment", nfun, 120)

    # ------------------------------------------------------------------ R5
    vm_sites = 0
    for cname, mods in (("liesel.goose.engine.Engine", None),
                        ("liesel.goose.builder.EngineBuilder", None)):
        ci = repo.cls(cname)
        for mname, fis in sorted(ci.methods.items()):
            for fi in fis:
                res = evaluate(repo, fi)
                ka_used = ka._used_as_key(res)
                for t, node, cond in res.calls:
                    vm = None
                    if t[0] == "call" and t[1][0] == "call" and is_call(t[1], "jax.vmap"):
                        vm, args, target = t[1], t[2], None
                    elif is_call(t, "jax.vmap"):
                        continue
                    if vm is None:
                        continue
                    vm_sites += 1
                    in_axes = kw(vm, "in_axes", 1)
                    bad = []
                    if in_axes is not None and in_axes[0] in ("tuple", "list"):
                        for i, (ax, a) in enumerate(zip(in_axes[1], args)):
                            per_chain = _per_chain(a, ka, fi, ka_used)
                            if ax == c(None) and per_chain:
                                bad.append(f"argument {i} ({short(a, 50)}) is per-chain "
                                           f"but broadcast (in_axes None)")
                            if ax != c(None) and ax != c(0):
                                bad.append(f"argument {i} mapped over axis {pretty(ax)}")
                    elif in_axes is not None and in_axes != c(0):
                        bad.append(f"in_axes={pretty(in_axes)}")
                    ctx.ob("C10.R5", fi, f"vmapped call {short(vm[2][0], 60)} maps every "
                                         f"per-chain argument over axis 0",
                           not bad, detail="; ".join(bad), node=node,
                           stmt="vmap " + pretty(vm)[:150])
    ctx.require_min("vmapped call sites in Engine/EngineBuilder", vm_sites, 8)
    # jit(vmap(_sample_many, in_axes=...)) stored in __init__
    einit = method(repo, eng, "__init__")
    rinit = evaluate(repo, einit)
    for loc, val, node, cond in rinit.stores:
        if is_call(val, "jax.jit") and val[2] and is_call(val[2][0], "jax.vmap"):
            vm = val[2][0]
            tgt = vm[2][0]
            m = repo.lookup_method(eng, tgt[2]) if tgt[0] == "a" and tgt[1] == n("self") \
                else None
            in_axes = kw(vm, "in_axes", 1)
            bad = []
            if m is None or in_axes is None or in_axes[0] != "tuple":
                bad.append("unrecognised vmap of the sampling function")
            else:
                ps = [p for p in m.pos_params() if p != "self"]
                for p, ax in zip(ps, in_axes[1]):
                    if ax == c(None) and p not in ("epoch",):
                        bad.append(f"parameter {p} is broadcast over chains")
                    if ax != c(None) and ax != c(0):
                        bad.append(f"parameter {p} mapped over axis {pretty(ax)}")
                if len(ps) != len(in_axes[1]):
                    bad.append("in_axes length differs from the parameter list")
            ctx.ob("C10.R5", einit, "the jitted sampling function maps keys, kernel states "
                                    "and model states over chains; only the epoch is shared",
                   not bad, detail="; ".join(bad), node=node,
                   stmt="vmap " + pretty(vm)[:150])
    # kernel-sequence calls in the engine always go through vmap
    from .c07 import EVENTS, engine_model
    _, _, _, ks_field, _, _ = engine_model(repo)
    raw = 0
    for mname, fis in sorted(eng.methods.items()):
        for fi in fis:
            res = evaluate(repo, fi)
            for t, node, cond in res.calls:
                f = t[1]
                if f[0] == "a" and f[1] in (("a", n("self"), ks_field),
                                            n("kernel_sequence")) and f[2] in EVENTS:
                    if fi.name != "_sample_many":  # already under the outer vmap
                        raw += 1
                        ctx.ob("C10.R5", fi, f"kernel-sequence call {f[2]} is vmapped over "
                                             f"chains", False, node=node,
                               detail="called directly, without jax.vmap",
                               stmt=f"unvmapped {f[2]}")
    ctx.ob("C10.R5", eng, "no kernel-sequence method is called outside jax.vmap "
                          "(except inside the vmapped scan body)", raw == 0)

    # ------------------------------------------------------------------ R6
    build = method(repo, eb, "build")
    rb = evaluate(repo, build)
    rt = rb.ret()
    ms_arg = kw(rt, "model_states") if rt is not None and rt[0] == "call" else None
    ms0 = ("call", ("a", ("a", n("self"), "_model_state"), "expect"),
           (c("Model state must be set"),), ())
    ok = False
    detail = short(ms_arg or ())
    if ms_arg is not None and ms_arg[0] == "phi":
        condt, a, b = ms_arg[1], ms_arg[2], ms_arg[3]
        is_some = ("call", ("a", ("a", n("self"), "_jitter_fns"), "is_some"), (), ())
        upd = a
        ok = (condt == is_some and b[0] == "call" and b[1][2] == "expect"
              and b[1][1] == ("a", n("self"), "_model_state")
              and upd[0] == "call" and is_call(upd[1], "jax.vmap")
              and upd[1][2][0][0] == "a" and upd[1][2][0][2] == "update_state"
              and len(upd[2]) == 2 and upd[2][1] == b)
    ctx.ob("C10.R6", build, "Engine receives vmap(update_state)(jittered position, states) "
                            "when jitter functions are set, else the states as set",
           ok, detail=detail, stmt="initial states " + pretty(ms_arg or ())[:200])
    # jittered position: per function key i, split per chain, applied to the same key's value
    jp = [(loc, val) for loc, val, _, _ in rb.stores if loc[0] == "s"
          and loc[1][0] == "dict" and loc[1][1] == ()]
    if not jp:
        # the same dict written as a comprehension (the normal form of the filling loop)
        for t_, _, _ in rb.calls:
            if t_[0] == "call" and t_[1][0] == "call" and is_call(t_[1], "jax.vmap") and t_[1][2] \
                    and t_[1][2][0][0] == "a" and t_[1][2][0][2] == "update_state" and t_[2] \
                    and t_[2][0][0] == "comp" and t_[2][0][1] == "dict":
                jp = [(("s", ("dict", ()), t_[2][0][2][0]), t_[2][0][2][1])]
    ok_j = False
    if len(jp) == 1:
        loc, val = jp[0]
        pos_key = loc[2]
        if val[0] == "call" and is_call(val[1], "jax.vmap") and len(val[2]) == 2:
            fn_t = val[1][2][0]
            keys_t, cur_t = val[2]
            ok_j = (fn_t[0] == "s" and fn_t[2] == pos_key
                    and is_call(keys_t, "jax.random.split")
                    and keys_t[2][1] == ("a", n("self"), "_num_chains")
                    and keys_t[2][0][0] == "s"
                    and is_call(keys_t[2][0][1], "jax.random.split")
                    and keys_t[2][0][1][2][0] == ("a", n("self"), "_jitter_key")
                    and cur_t[0] == "s" and cur_t[2] == pos_key
                    and cur_t[1][0] == "call" and cur_t[1][1][2] == "extract_position")
            # every chain is jittered from ITS OWN current value: the position comes from
            # the per-chain states that are updated afterwards, and both the keys and the
            # values are mapped over the chain axis
            ups = [t for t, _, _ in rb.calls if t[0] == "call" and t[1][0] == "call"
                   and is_call(t[1], "jax.vmap") and t[1][2]
                   and t[1][2][0][0] == "a" and t[1][2][0][2] == "update_state"]
            ia = kw(val[1], "in_axes", 1)
            ok_j = (ok_j and len(ups) == 1 and len(ups[0][2]) == 2
                    and len(cur_t[1][2]) == 2 and cur_t[1][2][1] == ups[0][2][1]
                    and ia in (None, c(0), ("tuple", (c(0), c(0))))
                    and kw(ups[0][1], "in_axes", 1) in (None, c(0), ("tuple", (c(0), c(0)))))
    ctx.ob("C10.R6", build, "each jitter function gets its own key, split per chain, and "
                            "is applied, chain by chain, to the chain's own current value of "
                            "its position key",
           ok_j, detail=short(jp[0][1]) if jp else f"{len(jp)} jitter stores",
           stmt="jitter wiring")
    siv = method(repo, eb, "set_initial_values")
    rs = evaluate(repo, siv)
    st = [val for loc, val, _, _ in rs.stores if loc == ("a", n("self"), "_model_state")]
    ok_s = False
    if len(st) == 1 and is_call(st[0], "liesel.option.Option") and st[0][2]:
        v = st[0][2][0]
        if v[0] == "phi":
            condt, a, b = v[1], v[2], v[3]
            mc = n("multiple_chains")
            # (canonical phi: the condition carries no negation)
            rep_t, per_t = (b, a) if condt == mc else (None, None)
            ok_s = (per_t == n("model_state") and rep_t is not None
                    and is_call(rep_t, "liesel.goose.pytree.stack_leaves")
                    and any(x == ("a", n("self"), "_num_chains") for x in subterms(rep_t))
                    and any(x == n("model_state") for x in subterms(rep_t)))
    ctx.ob("C10.R6", siv, "a single state is replicated num_chains times; per-chain states "
                          "are taken as given", ok_s,
           detail=short(st[0]) if st else "no store", stmt="set_initial_values")
    # seeds per chain
    seeds = kw(rt, "seeds") if rt is not None and rt[0] == "call" else None
    ok_seed = seeds is not None and any(
        x == ("call", ("g", "jax.random.split"),
              (("a", n("self"), "_engine_key"), ("a", n("self"), "_num_chains")), ())
        for x in subterms(seeds))
    ctx.ob("C10.R6", build, "the engine key is split into one key per chain", ok_seed,
           detail=short(seeds or ()))
    einit_ = method(repo, repo.cls("liesel.goose.engine.Engine"), "__init__")
    rei_ = evaluate(repo, einit_)
    ini_calls = [t for t, _, _ in rei_.calls if t[0] == "call" and t[1][0] == "call"
                 and is_call(t[1], "jax.vmap") and t[1][2]
                 and t[1][2][0] in (("a", ("a", n("self"), "_kernel_sequence"), "init_states"),
                                    ("a", n("kernel_sequence"), "init_states"))]
    ok_ik = False
    if len(ini_calls) == 1 and len(ini_calls[0][2]) == 2:
        k_, ms_ = ini_calls[0][2]
        ok_ik = (k_[0] in ("fresh", "call") and "_split_prng_key" in pretty(k_)
                 and not any(x == n("seeds") for x in subterms(k_))
                 and ms_ in (("a", n("self"), "_model_states"), n("model_states")))
    ctx.ob("C10.R5", einit_, "the kernels are initialised, chain by chain, with keys split off "
                             "the engine's key stream (not with the chains' seeds themselves, "
                             "which later keys are split from)", ok_ik,
           detail=short(ini_calls[0], 120) if ini_calls else "no init_states call",
           stmt="kernel init keys")
    # build() reads the builder and never writes it back: a second engine built from the
    # same builder starts from the same initial states, keys and kernels
    SELF_ = n("self")
    wr = [(loc, nd) for loc, val, nd, cond in rb.stores
          if loc[0] in ("a", "s") and _rooted_in_self_field(loc)]
    mut = [(t, nd) for t, nd, cond in rb.calls if t[0] == "call" and t[1][0] == "a"
           and t[1][2] in ("append", "extend", "update", "clear", "pop", "insert", "remove",
                           "setdefault", "popitem", "__setitem__")
           and t[1][1][0] == "a" and t[1][1][1] == SELF_]
    ctx.ob("C10.R6", build, "build() does not write the builder's own fields (initial model "
                            "state, keys, kernels, jitter functions, epochs): building twice "
                            "gives the same engine", not wr and not mut,
           detail="; ".join([pretty(l_)[:50] for l_, _ in wr] + [short(t, 50) for t, _ in mut]),
           node=(wr[0][1] if wr else (mut[0][1] if mut else None)),
           stmt="builder written by build: " + ", ".join(
               sorted({pretty(l_)[:40] for l_, _ in wr} | {pretty(t[1])[:40] for t, _ in mut})))

    # ---- shared mechanisms: the neighbour's rules run as obligations of this property
    ctx.include("C07", "C10.R8", only=['C07.R8', 'C07.R5'])
    ctx.include("C08", "C10.R8", only=['C08.R4', 'C08.R5'])
    ctx.rule("R8", "shared mechanisms, run as obligations of this property: the key-consuming end_warmup call happens at one place, decided by the epoch that STARTS (not by a look-ahead a later append_epoch invalidates) (C07.R5); the first recorded sample is the position extracted from the initial states, stacked along the chain axis (C08.R4/R5); per-chain results of every lifecycle event are stored as returned, chain by chain (C07.R8).")


def _rooted_in_self_field(loc) -> bool:
    """self.<field> = ... or self.<field>[k] = ... (not: attributes of other objects)."""
    if loc[0] == "a":
        return loc[1] == n("self")
    if loc[0] == "s":
        base = loc[1]
        return base[0] == "a" and base[1] == n("self")
    return False


def _per_chain(a, ka, fi, used) -> bool:
    if ka.ktype(a, fi, used) in ("key", "keys"):
        return True
    for x in subterms(a):
        if x[0] == "a" and x[1] == n("self") and x[2] in ("_model_states", "_kernel_states"):
            return True
        if x == n("model_states") or x == n("history"):
            return True
    return False
