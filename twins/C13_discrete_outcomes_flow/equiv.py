"""
Equivalence probe for finite_discrete_gibbs_kernel in liesel/model/goose.py.

Run with the worktree on PYTHONPATH, on HEAD and with the patch applied; the output
must be byte-identical.
"""

import hashlib
import logging

import jax
import jax.numpy as jnp
import numpy as np
import tensorflow_probability.substrates.jax.distributions as tfd

import liesel.goose as gs
import liesel.model as lsl
from liesel.model.goose import finite_discrete_gibbs_kernel

logging.disable(logging.CRITICAL)


def digest(x) -> str:
    a = np.asarray(x)
    h = hashlib.sha256()
    h.update(str(a.dtype).encode())
    h.update(str(a.shape).encode())
    h.update(np.ascontiguousarray(a).tobytes())
    return h.hexdigest()[:16]


def state_digest(state) -> str:
    h = hashlib.sha256()
    for k in sorted(state):
        h.update(k.encode())
        for leaf in jax.tree_util.tree_leaves(state[k]):
            h.update(digest(leaf).encode())
    return h.hexdigest()[:16]


keys = jax.random.split(jax.random.PRNGKey(99), 200)
rng = np.random.default_rng(5)
y_obs = rng.normal(loc=1.0, scale=0.7, size=3).astype(np.float32)


def categorical_model(values, probs, likelihood: bool, start=None):
    grid = lsl.Var(values, name="grid")
    prior = lsl.Dist(tfd.FiniteDiscrete, outcomes=grid, probs=probs)
    z = lsl.Var(values[0] if start is None else start, prior, name="z")
    gb = lsl.GraphBuilder().add(z)
    if likelihood:
        scale = lsl.Var(1.5, name="scale")
        y = lsl.Var(
            y_obs, lsl.Dist(tfd.Normal, loc=z, scale=scale), name="y"
        )
        gb.add(y)
    return gb.build_model()


def bernoulli_model(prob, likelihood: bool):
    prior = lsl.Dist(tfd.Bernoulli, probs=lsl.Value(prob))
    z = lsl.Var(1, prior, name="z")
    gb = lsl.GraphBuilder().add(z)
    if likelihood:
        loc = lsl.Var(lsl.Calc(lambda z: 2.0 * z - 0.5, z), name="loc")
        y = lsl.Var(y_obs, lsl.Dist(tfd.Normal, loc=loc, scale=2.5), name="y")
        gb.add(y)
    return gb.build_model()


def exercise(tag, model, kernel, alt_states=()):
    before = state_digest(model.state)
    print(tag, type(kernel).__name__, kernel.position_keys)
    fn = kernel._transition_fn
    states = [model.state, *alt_states]
    for si, state in enumerate(states):
        eager = [fn(k, state) for k in keys[:6]]
        assert all(list(d) == ["z"] for d in eager)
        eager = jnp.stack([d["z"] for d in eager])
        vm = jax.jit(jax.vmap(lambda k: fn(k, state)))(keys)
        jitted = jax.jit(fn)
        j2 = jnp.stack([jitted(k, state)["z"] for k in keys[:6]])
        print(
            "  state", si,
            "eager", digest(eager), np.asarray(eager).tolist(),
            "jit", digest(j2),
            "vmap", digest(vm["z"]), vm["z"].dtype,
            np.unique(np.asarray(vm["z"]), return_counts=True)[1].tolist(),
        )
    # interleave states to catch anything remembered between calls
    mixed = [fn(keys[i], states[i % len(states)])["z"] for i in range(12)]
    print("  mixed", digest(jnp.stack(mixed)))
    print("  source model untouched", before == state_digest(model.state),
          model.auto_update)

    kernel.set_model(gs.LieselInterface(model))
    epoch = gs.EpochConfig(
        gs.EpochType.POSTERIOR, duration=1, thinning=1, optional=None
    ).to_state(nth_epoch=0, time_before_epoch=0)
    out = kernel.transition(keys[3], {}, model.state, epoch)
    print("  transition", state_digest(out.model_state), out.info.error_code)


# --- outcomes extracted from the prior -------------------------------------------
cases = [
    ("fd_float_prior_only", [0.0, 1.0, 2.0], [0.1, 0.2, 0.7], False),
    ("fd_float_lik", [0.0, 1.0, 2.0], [0.1, 0.2, 0.7], True),
    ("fd_int_prior_only", [0, 1, 2], [0.1, 0.2, 0.7], False),
    ("fd_zero_prob", [-1.0, 0.5, 1.0, 3.0], [0.0, 0.5, 0.5, 0.0], True),
    ("fd_uniform_many", list(np.linspace(-2, 2, 9).astype(np.float32)), [1 / 9] * 9,
     True),
    ("fd_single_outcome", [1.5], [1.0], True),
]
for tag, values, probs, lik in cases:
    model = categorical_model(values, probs, lik)
    alt = []
    for v in values[1:3]:
        model.vars["z"].value = v
        alt.append(model.state)
    model.vars["z"].value = values[0]
    exercise(tag, model, finite_discrete_gibbs_kernel("z", model), alt)

for prob in [0.7, 0.0, 1.0, 0.25]:
    for lik in [False, True]:
        model = bernoulli_model(prob, lik)
        exercise(f"bern_auto_{prob}_{lik}", model,
                 finite_discrete_gibbs_kernel("z", model))
        exercise(f"bern_given_{prob}_{lik}", model,
                 finite_discrete_gibbs_kernel("z", model, outcomes=[0, 1]))
        exercise(f"bern_kw_none_{prob}_{lik}", model,
                 finite_discrete_gibbs_kernel("z", model, outcomes=None))

# --- outcomes supplied by the caller, in different containers ----------------------
model = categorical_model([0.0, 1.0, 2.0], [0.1, 0.2, 0.7], True)
for tag, oc in [
    ("list", [0.0, 1.0, 2.0]),
    ("tuple", (0.0, 1.0, 2.0)),
    ("np", np.array([0.0, 1.0, 2.0], np.float32)),
    ("jnp", jnp.array([0.0, 1.0, 2.0])),
    ("subset", [1.0, 2.0]),
    ("reordered", [2.0, 0.0, 1.0]),
    ("outside_support", [0.0, 5.0]),
]:
    exercise("given_" + tag, model, finite_discrete_gibbs_kernel("z", model, oc))

# --- error behaviour --------------------------------------------------------------
def attempt(tag, thunk):
    try:
        r = thunk()
        print(tag, "-> ok", type(r).__name__)
        return r
    except BaseException as e:  # noqa
        print(tag, "->", type(e).__name__, e.args)


model = categorical_model([0.0, 1.0, 2.0], [0.1, 0.2, 0.7], True)
attempt("unknown name, no outcomes",
        lambda: finite_discrete_gibbs_kernel("nope", model))
k = attempt("unknown name, outcomes",
            lambda: finite_discrete_gibbs_kernel("nope", model, [0, 1]))
attempt("  its transition", lambda: k._transition_fn(keys[0], model.state))
attempt("var without dist", lambda: finite_discrete_gibbs_kernel("scale", model))
attempt("unsupported dist (Normal)", lambda: finite_discrete_gibbs_kernel("y", model))
k = attempt("int outcomes for a float likelihood",
            lambda: finite_discrete_gibbs_kernel("z", model, range(3)))
attempt("  its transition", lambda: k._transition_fn(keys[0], model.state))
attempt("empty outcomes list", lambda: finite_discrete_gibbs_kernel("z", model, []))
attempt("ragged outcomes",
        lambda: finite_discrete_gibbs_kernel("z", model, [[0.0], [1.0, 2.0]]))

cat = lsl.Var(0, lsl.Dist(tfd.Categorical, probs=lsl.Value(np.array([0.2, 0.8]))),
              name="c")
m2 = lsl.GraphBuilder().add(cat).build_model()
attempt("unsupported dist (Categorical)",
        lambda: finite_discrete_gibbs_kernel("c", m2))
k = attempt("Categorical with outcomes",
            lambda: finite_discrete_gibbs_kernel("c", m2, [0, 1]))
print("  ", digest(jax.vmap(lambda kk: k._transition_fn(kk, m2.state)["c"])(keys)))

bb = lsl.Var(np.array([0, 1]),
             lsl.Dist(tfd.Bernoulli, probs=lsl.Value(np.array([0.2, 0.8]))),
             name="bb")
m3 = lsl.GraphBuilder().add(bb).build_model()
attempt("batched Bernoulli", lambda: finite_discrete_gibbs_kernel("bb", m3))

# --- through the engine ------------------------------------------------------------
for tag, model in [
    ("mcmc_fd", categorical_model([0.0, 1.0, 2.0], [0.1, 0.2, 0.7], True)),
    ("mcmc_bern", bernoulli_model(0.3, True)),
]:
    eb = gs.EngineBuilder(3, num_chains=2)
    eb.add_kernel(finite_discrete_gibbs_kernel("z", model))
    eb.set_model(gs.LieselInterface(model))
    eb.set_initial_values(model.state)
    eb.set_duration(warmup_duration=200, posterior_duration=300)
    engine = eb.build()
    engine.sample_all_epochs()
    s = engine.get_results().get_posterior_samples()["z"]
    print(tag, s.shape, s.dtype, digest(s),
          np.unique(np.asarray(s), return_counts=True)[1].tolist())
