#!/bin/bash
# usage: tools/eval_round.sh /tmp/wt6   -- evaluates every <root>/<P>/_seed/<name>/patch.diff on a
# scratch copy with all checks; prints which checks report it (rc 1) or break (rc 2)
root="$1"
for P in $(ls "$root" | grep -v prompt); do
  for d in "$root"/$P/_seed/*/; do
    [ -f "$d/patch.diff" ] || continue
    [ -f "$d/.evaluated" ] && [ -z "$FORCE" ] && continue
    r=$(/verif/tools/eval_seed_scratch.sh "$d/patch.diff" 2>&1 | grep -E "^== " | sed 's/== //; s/ rc=/:/' | tr '\n' ' ')
    own=$(echo "$r" | grep -c "$P:1")
    echo "$P $(basename $d): $r $([ "$own" = 0 ] && echo '   <<< NOT-OWN')"
    echo "$r" > "$d/.evaluated"
  done
done
