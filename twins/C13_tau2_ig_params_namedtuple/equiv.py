"""
Deterministic exerciser for the Gibbs-kernel code paths (tau2 inverse-gamma kernel,
finite-discrete kernel, GibbsKernel.transition, GooseModel / LieselInterface,
MultivariateNormalDegenerate constructors, dist_reg_mcmc).

Prints one line per observation; arrays are reported as dtype/shape/sha256 of the raw
bytes so that the comparison is bit-exact.

Run from the worktree root:  PYTHONPATH=$PWD python _twin/<name>/equiv.py
"""

import hashlib
import logging
import re
import warnings

import jax
import jax.numpy as jnp
import numpy as np
import tensorflow_probability.substrates.jax.bijectors as tfb
import tensorflow_probability.substrates.jax.distributions as tfd

import liesel.goose as gs
import liesel.model as lsl
from liesel.distributions import MultivariateNormalDegenerate as MVND
from liesel.model import distreg as dr
from liesel.model.goose import GooseModel, finite_discrete_gibbs_kernel

logging.disable(logging.CRITICAL)


def dig(x) -> str:
    a = np.asarray(x)
    h = hashlib.sha256(np.ascontiguousarray(a).tobytes()).hexdigest()[:20]
    small = np.array2string(a.ravel()[:4], precision=9) if a.size else "[]"
    return f"{a.dtype}{list(a.shape)}:{h}:{small}"


def out(label, *vals):
    print(label, *[dig(v) for v in vals], flush=True)


def exc(label, fn):
    try:
        fn()
    except Exception as e:  # noqa: BLE001
        print(label, "RAISED", type(e).__name__, str(e)[:200], flush=True)
    else:
        print(label, "no exception", flush=True)


def jaxpr_digest(fn, *args) -> str:
    """Digest of the traced computation (memory addresses in the text are masked)."""
    text = str(jax.make_jaxpr(fn)(*args))
    text = re.sub(r"0x[0-9a-f]+", "0xADDR", text)
    return hashlib.sha256(text.encode()).hexdigest()[:24]


def epoch_state():
    cfg = gs.EpochConfig(gs.EpochType.POSTERIOR, duration=1, thinning=1, optional=None)
    return cfg.to_state(nth_epoch=0, time_before_epoch=0)


def state_digest(state) -> str:
    h = hashlib.sha256()
    for k in sorted(state):
        ns = state[k]
        h.update(k.encode())
        for leaf in jax.tree_util.tree_leaves(ns.value):
            a = np.asarray(leaf)
            h.update(str(a.dtype).encode() + str(a.shape).encode())
            h.update(np.ascontiguousarray(a).tobytes())
        h.update(str(bool(ns.outdated)).encode())
    return h.hexdigest()[:24]


# --------------------------------------------------------------------------------------
# tau2 kernel
# --------------------------------------------------------------------------------------


def second_diff_penalty(p):
    D = np.diff(np.eye(p), n=2, axis=0)
    return jnp.asarray(D.T @ D, dtype=jnp.float32)


def make_distreg(K, a, b, n=40, seed=0):
    rng = np.random.default_rng(seed)
    p = K.shape[0]
    X = jnp.asarray(rng.normal(size=(n, p)), dtype=jnp.float32)
    y = jnp.asarray(rng.normal(size=n), dtype=jnp.float32)
    drb = (
        dr.DistRegBuilder()
        .add_response(y, tfd.Normal)
        .add_predictor("loc", tfb.Identity)
        .add_predictor("scale", tfb.Exp)
        .add_p_smooth(jnp.ones((n, 1)), m=0.0, s=10.0, predictor="loc", name="iloc")
        .add_np_smooth(X, K=K, a=a, b=b, predictor="loc", name="xloc")
        .add_np_smooth(X, K=K, a=a, b=b, predictor="scale", name="xscale")
    )
    return drb.build_model()


def tau2_section():
    print("== tau2 kernel")
    cases = {
        "fullrank": (jnp.eye(5), 0.5, 0.001),
        "deficient": (second_diff_penalty(6), 1.0, 0.005),
        "deficient_big_a": (second_diff_penalty(4), 7.5, 2.0),
        "zeroK": (jnp.zeros((3, 3)), 2.0, 1.5),
    }
    for cname, (K, a, b) in cases.items():
        model = make_distreg(K, a, b, seed=len(cname))
        for gname in ("xloc", "xscale"):
            group = model.groups()[gname]
            kernel = dr.tau2_gibbs_kernel(group)
            print(cname, gname, "keys", kernel.position_keys, type(kernel).__name__)
            beta_name = group["beta"].name
            rng = np.random.default_rng(7)
            p = K.shape[0]
            for bi, beta in enumerate(
                [np.zeros(p), rng.normal(size=p), 100.0 * rng.normal(size=p)]
            ):
                model.vars[beta_name].value = jnp.asarray(beta, dtype=jnp.float32)
                model.update()
                state = model.state
                for s in range(4):
                    key = jax.random.PRNGKey(s)
                    d = kernel._transition_fn(key, state)
                    dj = jax.jit(kernel._transition_fn)(key, state)
                    assert list(d) == [group["tau2"].name]
                    out(f"{cname} {gname} b{bi} k{s}", *d.values(), *dj.values())

                # through GibbsKernel.transition with the Liesel interface
                kernel2 = dr.tau2_gibbs_kernel(group)
                kernel2.set_model(gs.LieselInterface(model))
                ks = kernel2.init_state(jax.random.PRNGKey(0), state)
                oc = kernel2.transition(jax.random.PRNGKey(11), ks, state, epoch_state())
                print(
                    f"{cname} {gname} b{bi} transition",
                    oc.info,
                    oc.kernel_state,
                    state_digest(oc.model_state),
                    dig(gs.LieselInterface(model).log_prob(oc.model_state)),
                )
                ocj = jax.jit(kernel2.transition)(
                    jax.random.PRNGKey(11), ks, state, epoch_state()
                )
                print(f"{cname} {gname} b{bi} transition-jit", state_digest(ocj.model_state))

    # missing entries in the model state: which KeyError comes first
    model = make_distreg(jnp.eye(3), 0.5, 0.001)
    group = model.groups()["xloc"]
    kernel = dr.tau2_gibbs_kernel(group)
    full = dict(model.state)
    for drop in ("a", "rank", "b", "beta", "K"):
        st = dict(full)
        del st[group[drop].value_node.name]
        exc(f"missing {drop}", lambda st=st: kernel._transition_fn(jax.random.PRNGKey(0), st))
    st = dict(full)
    for drop in ("a", "rank", "b", "beta", "K"):
        st.pop(group[drop].value_node.name)
    exc("missing all", lambda: kernel._transition_fn(jax.random.PRNGKey(0), st))
    st = dict(full)
    st.pop(group["rank"].value_node.name)
    st.pop(group["K"].value_node.name)
    exc("missing rank+K", lambda: kernel._transition_fn(jax.random.PRNGKey(0), st))

    # a group without tau2
    exc("group without tau2", lambda: dr.tau2_gibbs_kernel(model.groups()["iloc"]))

    # jaxpr of the transition is a complete description of the traced computation
    print("tau2 jaxpr", jaxpr_digest(kernel._transition_fn, jax.random.PRNGKey(0), full))


def dist_reg_mcmc_section():
    print("== dist_reg_mcmc")
    model = make_distreg(second_diff_penalty(5), 1.0, 0.005, seed=3)
    eb = dr.dist_reg_mcmc(model, seed=42, num_chains=2)
    print([(type(k).__name__, k.position_keys) for k in eb.kernels])
    jf = eb.jitter_fns.unwrap()
    print(list(jf), [
        "tau2" if jf[k] is dr.tau2_jitter_fn else "beta" if jf[k] is dr.beta_jitter_fn
        else "other" for k in jf
    ])

    def my_tau2(key, val):
        return val + 1.0

    def my_beta(key, val):
        return val - 1.0

    eb2 = dr.dist_reg_mcmc(model, 1, 1, tau2_jitter_fn=my_tau2, beta_jitter_fn=my_beta)
    jf2 = eb2.jitter_fns.unwrap()
    print([(k, jf2[k].__name__) for k in jf2])
    print([(type(k).__name__, k.position_keys) for k in eb2.kernels])

    eb.set_duration(warmup_duration=200, posterior_duration=30)
    eb.show_progress = False
    engine = eb.build()
    engine.sample_all_epochs()
    samples = engine.get_results().get_posterior_samples()
    for k in sorted(samples):
        out(f"mcmc {k}", samples[k])


# --------------------------------------------------------------------------------------
# finite discrete kernel
# --------------------------------------------------------------------------------------


def discrete_models():
    models = {}

    values = [0.0, 1.0, 2.0]
    grid = lsl.Var(values, name="value_grid")
    prior = lsl.Dist(tfd.FiniteDiscrete, outcomes=grid, probs=[0.1, 0.2, 0.7])
    cat = lsl.Var(value=values[0], distribution=prior, name="cat")
    models["finite_prior_only"] = ("cat", lsl.GraphBuilder().add(cat).build_model(), None)

    values = [-1.5, 0.25, 3.0, 4.0]
    grid = lsl.Var(values, name="value_grid")
    prior = lsl.Dist(tfd.FiniteDiscrete, outcomes=grid, probs=[0.25, 0.25, 0.4, 0.1])
    cat = lsl.Var(value=values[1], distribution=prior, name="cat")
    scale = lsl.Var(1.3, name="scale")
    y = lsl.obs(
        jnp.array([0.1, 0.7, -0.3, 2.2]),
        lsl.Dist(tfd.Normal, loc=cat, scale=scale),
        name="y",
    )
    models["finite_with_lik"] = ("cat", lsl.GraphBuilder().add(y).build_model(), None)
    # user-provided subset / superset of outcomes
    cat2 = lsl.Var(
        value=values[1],
        distribution=lsl.Dist(
            tfd.FiniteDiscrete,
            outcomes=lsl.Var(values, name="value_grid"),
            probs=[0.25, 0.25, 0.4, 0.1],
        ),
        name="cat",
    )
    y2 = lsl.obs(
        jnp.array([0.1, 0.7, -0.3, 2.2]),
        lsl.Dist(tfd.Normal, loc=cat2, scale=lsl.Var(1.3, name="scale")),
        name="y",
    )
    models["finite_user_outcomes"] = (
        "cat",
        lsl.GraphBuilder().add(y2).build_model(),
        (3.0, -1.5),
    )

    bern = lsl.Var(1, lsl.Dist(tfd.Bernoulli, probs=lsl.Value(0.7)), name="z")
    models["bernoulli_outcomes"] = ("z", lsl.GraphBuilder().add(bern).build_model(), [0, 1])

    bern = lsl.Var(1, lsl.Dist(tfd.Bernoulli, probs=lsl.Value(0.7)), name="z")
    models["bernoulli_auto"] = ("z", lsl.GraphBuilder().add(bern).build_model(), None)

    z = lsl.Var(0, lsl.Dist(tfd.Bernoulli, probs=lsl.Value(0.35)), name="z")
    mu = lsl.Var(lsl.Calc(lambda z: 2.0 * z - 0.5, z), name="mu")
    y = lsl.obs(jnp.array([0.4, 1.1, 0.9]), lsl.Dist(tfd.Normal, loc=mu, scale=0.8), name="y")
    models["bernoulli_with_lik"] = ("z", lsl.GraphBuilder().add(y).build_model(), None)

    return models


def discrete_section():
    print("== finite discrete kernel")
    for mname, (vname, model, outcomes) in discrete_models().items():
        before = state_digest(model.state)
        if outcomes is None:
            kernel = finite_discrete_gibbs_kernel(vname, model)
        else:
            kernel = finite_discrete_gibbs_kernel(vname, model, outcomes=outcomes)
        print(mname, kernel.position_keys, "auto_update", model.auto_update)
        state = model.state
        draws = []
        for s in range(12):
            key = jax.random.PRNGKey(s)
            d = kernel._transition_fn(key, state)
            dj = jax.jit(kernel._transition_fn)(key, state)
            assert list(d) == [vname]
            draws.append(np.asarray(d[vname]))
            assert np.asarray(d[vname]).tobytes() == np.asarray(dj[vname]).tobytes()
        out(f"{mname} draws", np.stack(draws))
        print(mname, "draws", [float(x) for x in draws], "dtype", draws[0].dtype)
        # the user's model must be untouched by transitions
        print(mname, "user model untouched", before == state_digest(model.state))

        keys = jax.random.split(jax.random.PRNGKey(123), 300)
        many = jax.vmap(lambda k: kernel._transition_fn(k, state)[vname])(keys)
        out(f"{mname} vmapped draws", many)
        u, c = np.unique(np.asarray(many), return_counts=True)
        print(mname, "freq", u.tolist(), c.tolist())

        kernel.set_model(gs.LieselInterface(model))
        ks = kernel.init_state(jax.random.PRNGKey(0), state)
        for s in (0, 1, 5):
            oc = kernel.transition(jax.random.PRNGKey(s), ks, state, epoch_state())
            print(
                f"{mname} transition k{s}",
                oc.info,
                oc.kernel_state,
                state_digest(oc.model_state),
                dig(gs.LieselInterface(model).log_prob(oc.model_state)),
            )
        ocj = jax.jit(kernel.transition)(jax.random.PRNGKey(5), ks, state, epoch_state())
        print(f"{mname} transition-jit", state_digest(ocj.model_state))
        print(f"{mname} jaxpr", jaxpr_digest(kernel._transition_fn, jax.random.PRNGKey(0), state))

    # errors
    v = lsl.Var(1.0, lsl.Dist(tfd.Poisson, rate=2.0), name="cnt")
    m = lsl.GraphBuilder().add(v).build_model()
    exc("poisson no outcomes", lambda: finite_discrete_gibbs_kernel("cnt", m))
    k = finite_discrete_gibbs_kernel("cnt", m, outcomes=jnp.arange(6.0))
    out("poisson user outcomes", k._transition_fn(jax.random.PRNGKey(3), m.state)["cnt"])
    exc("unknown var", lambda: finite_discrete_gibbs_kernel("nope", m))
    exc("unknown var with outcomes", lambda: finite_discrete_gibbs_kernel("nope", m, [0, 1]))
    w = lsl.Var(1.0, name="nodist")
    m2 = lsl.GraphBuilder().add(w).build_model()
    exc("var without dist", lambda: finite_discrete_gibbs_kernel("nodist", m2))
    b = lsl.Var(
        jnp.array([1, 0]),
        lsl.Dist(tfd.Bernoulli, probs=lsl.Value(jnp.array([0.7, 0.2]))),
        name="zb",
    )
    m3 = lsl.GraphBuilder().add(b).build_model()
    exc("batched bernoulli", lambda: finite_discrete_gibbs_kernel("zb", m3))

    # engine run
    vname, model, _ = discrete_models()["finite_with_lik"]
    kernel = finite_discrete_gibbs_kernel(vname, model)
    eb = gs.EngineBuilder(1, num_chains=2)
    eb.add_kernel(kernel)
    eb.set_model(gs.LieselInterface(model))
    eb.set_initial_values(model.state)
    eb.set_duration(warmup_duration=200, posterior_duration=50)
    eb.show_progress = False
    engine = eb.build()
    engine.sample_all_epochs()
    samples = engine.get_results().get_posterior_samples()
    out("engine cat", samples[vname])


def gibbs_kernel_section():
    print("== GibbsKernel")
    calls = []

    def transition_fn(prng_key, model_state):
        calls.append(("transition_fn", sorted(model_state)))
        return {"x": model_state["x"] + 1.0}

    kernel = gs.GibbsKernel(("x",), transition_fn)
    print(kernel.position_keys, kernel.has_model(), kernel.identifier)
    print(kernel.needs_history, kernel.error_book)
    # no model interface set: the transition function runs first, then the error
    exc("no model", lambda: kernel.transition(jax.random.PRNGKey(0), {}, {"x": 1.0}, epoch_state()))
    print(calls)

    def bad_transition_fn(prng_key, model_state):
        calls.append("bad")
        raise ZeroDivisionError("from transition_fn")

    kernel_bad = gs.GibbsKernel(["x"], bad_transition_fn)
    exc("no model, raising fn", lambda: kernel_bad.transition(None, {}, {}, epoch_state()))

    class Recorder:
        def extract_position(self, position_keys, model_state):
            calls.append(("extract", tuple(position_keys)))
            return {k: model_state[k] for k in position_keys}

        def update_state(self, position, model_state):
            calls.append(("update", dict(position), dict(model_state)))
            return {**model_state, **position}

        def log_prob(self, model_state):
            return -model_state["x"]

    kernel.set_model(Recorder())
    ks = kernel.init_state(jax.random.PRNGKey(0), {"x": 1.0, "y": 5.0})
    oc = kernel.transition(jax.random.PRNGKey(0), ks, {"x": 1.0, "y": 5.0}, epoch_state())
    print(type(oc).__name__, oc.info, oc.kernel_state, oc.kernel_state is ks, oc.model_state)
    print(calls)
    ks2 = {"anything": 3}
    oc = kernel.transition(jax.random.PRNGKey(0), ks2, {"x": 2.0}, epoch_state())
    print(oc.kernel_state is ks2, oc.model_state)
    tn = kernel.tune(jax.random.PRNGKey(0), ks2, {"x": 2.0}, epoch_state())
    print(tn.info, tn.kernel_state is ks2)
    print(kernel.start_epoch(None, ks2, {}, epoch_state()) is ks2)
    print(kernel.end_epoch(None, ks2, {}, epoch_state()) is ks2)
    print(kernel.end_warmup(None, ks2, {}, None))
    leaves = jax.tree_util.tree_leaves(oc)
    print(len(leaves), [type(x).__name__ for x in leaves])


def goose_model_section():
    print("== GooseModel / LieselInterface")
    vname, model, _ = discrete_models()["finite_with_lik"]
    with warnings.catch_warnings(record=True) as w:
        warnings.simplefilter("always")
        gm = GooseModel(model)
    print([str(x.category.__name__) for x in w])
    li = gs.LieselInterface(model)
    state = model.state
    for iface in (gm, li):
        n = type(iface).__name__
        pos = iface.extract_position(["cat", "scale", "cat_value"], state)
        print(n, sorted(pos), [dig(pos[k]) for k in sorted(pos)])
        new = iface.update_state({"cat": 3.0, "scale_value": 0.9}, state)
        print(n, state_digest(new), dig(iface.log_prob(new)))
        newj = jax.jit(iface.update_state)({"cat": 4.0}, state)
        print(n, state_digest(newj), dig(iface.log_prob(newj)))
        exc(f"{n} bad key", lambda: iface.update_state({"nope": 1.0}, state))
        exc(f"{n} bad extract", lambda: iface.extract_position(["nope"], state))
        # outdated flags in the supplied state are cleared
        dirty = {k: v._replace(outdated=True) for k, v in state.items()}
        new = iface.update_state({"cat": -1.5}, dirty)
        print(n, "dirty", state_digest(new))


# --------------------------------------------------------------------------------------
# degenerate mvn
# --------------------------------------------------------------------------------------


def mvnd_section():
    print("== MultivariateNormalDegenerate")
    pens = {
        "eye": jnp.eye(4),
        "rw2": second_diff_penalty(6),
        "batched": jnp.stack([second_diff_penalty(5), jnp.eye(5)]),
    }
    rng = np.random.default_rng(5)
    for pname, pen in pens.items():
        p = pen.shape[-1]
        x = jnp.asarray(rng.normal(size=p), dtype=jnp.float32)
        evals = jnp.linalg.eigvalsh(pen)
        rank = np.asarray(jnp.sum(evals > 1e-6, axis=-1))
        lpd = jnp.sum(jnp.log(jnp.where(evals > 1e-6, evals, 1.0)), axis=-1)
        for ctor, par in ((MVND.from_penalty, 2.5), (MVND.from_penalty_smooth, 0.4)):
            for kw_name, kw in {
                "none": {},
                "rank": {"rank": rank},
                "lpd": {"log_pdet": lpd},
                "both": {"rank": rank, "log_pdet": lpd},
            }.items():
                d = ctor(0.0, par, pen, **kw)
                out(
                    f"{pname} {ctor.__name__} {kw_name}",
                    d.log_prob(x),
                    d.rank,
                    d.log_pdet,
                    d.prec,
                    d.sample(3, seed=jax.random.PRNGKey(2)),
                )
                print("   ", sorted(d.parameters), d.batch_shape, d.event_shape, d.name)
            dj = jax.jit(lambda v, x: ctor(0.0, v, pen, rank=rank).log_prob(x))(par, x)
            out(f"{pname} {ctor.__name__} jit", dj)
        d = MVND(loc=jnp.zeros(p), prec=pen)
        out(f"{pname} direct", d.log_prob(x), d.rank, d.log_pdet)
        d = MVND(loc=jnp.zeros(p), prec=pen, rank=rank)
        out(f"{pname} direct rank", d.log_prob(x), d.rank, d.log_pdet)
        d = MVND(loc=jnp.zeros(p), prec=pen, log_pdet=lpd)
        out(f"{pname} direct lpd", d.log_prob(x), d.rank, d.log_pdet)
    exc("nonsquare", lambda: MVND.from_penalty(0.0, 1.0, jnp.ones((2, 3))))
    exc("bad loc", lambda: MVND.from_penalty_smooth(jnp.zeros(3), 1.0, jnp.eye(4)))
    d = MVND.from_penalty(0.0, jnp.array([1.0, 2.0]), jnp.eye(3), rank=3, log_pdet=0.0)
    out("batched var", d.log_prob(jnp.ones(3)), d.log_pdet)


def main():
    tau2_section()
    dist_reg_mcmc_section()
    discrete_section()
    gibbs_kernel_section()
    goose_model_section()
    mvnd_section()


if __name__ == "__main__":
    main()
